#!/bin/bash
# usage: keep_mutant.sh <src dir> <seeded id> <property> — confirms, runs all checks, stores under /verif/seeded/<id>/
set -u
SRC=$(readlink -f "$1"); ID=$2; PROP=$3
DST=/verif/seeded/$ID; mkdir -p "$DST"
LOG=$(/verif/tools/try_mutant.sh "$SRC" 2>&1)
echo "$LOG" | grep "CONFIRM\|CAUGHT_BY" 
if ! echo "$LOG" | grep -q "CONFIRMED suite=yes demo_with=fail demo_without=pass"; then echo "NOT CONFIRMED: $ID"; rm -rf "$DST"; exit 1; fi
cp "$SRC/patch.diff" "$DST/patch.diff"; cp "$SRC/zz_mutant_demo_test.go" "$DST/"; cp "$SRC/DEMO_DIR" "$DST/" 2>/dev/null; cp "$SRC/README.md" "$DST/README.agent.md" 2>/dev/null
CAUGHT=$(echo "$LOG" | grep "^CAUGHT_BY:" | sed 's/CAUGHT_BY://')
RULES=$(echo "$LOG" | grep -o "VIOLATION C[0-9]*\.R[0-9a-z]*\|UNDECIDED C[0-9]*\.R[0-9a-z]*\|FLOOR C[0-9]*\.R[0-9a-z]*" | awk '{print $2}' | sort -u | tr '\n' ' ')
python3 - "$DST" "$ID" "$PROP" "$CAUGHT" "$RULES" "$(git -C /repo log --format=%h -1)" <<'PY'
import sys, json, re, os
dst, mid, prop, caught, rules, head = sys.argv[1:7]
readme = open(os.path.join(dst, 'README.agent.md')).read() if os.path.exists(os.path.join(dst, 'README.agent.md')) else ''
def section(tag):
    m = re.search(r'\(%s\)(.*?)(?=\n\s*(?:##|\([a-c]\))|\Z)' % tag, readme, re.S)
    return ' '.join(m.group(1).split())[:900] if m else ''
meta = {
 "id": mid, "breaks_property": prop,
 "what_breaks": section('a') or readme[:600],
 "needs_to_manifest": section('b'),
 "origin": "written by a fresh sub-agent that was given only the property text and a scratch worktree (nothing from /verif)",
 "confirmed_by_me": {"repo_head": head, "ran": "tools/try_mutant.sh: scratch worktree of /repo HEAD; go build ./...; go test -vet=off -count=1 ./... with the patch (pass); demo test with the patch (fail); demo test without the patch (pass)", "result": "suite=pass demo_with_change=fail demo_without_change=pass"},
 "checks_run": "git -C /repo apply patch.diff; bin/vcheck -prop C01..C20; git -C /repo checkout -- .",
 "caught_by_properties": caught.split(), "caught_by_rules": rules.split(),
}
json.dump(meta, open(os.path.join(dst, 'meta.json'), 'w'), indent=1)
print("kept", mid, "caught_by", caught, rules)
PY
