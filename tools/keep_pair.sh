#!/bin/bash
# usage: keep_pair.sh <src dir> <seeded id> <property> — like keep_mutant.sh for a refactoring that carries a defect
# (patch.diff) together with its behaviour-preserving twin (benign.diff): confirms the change, keeps both, and records
# which alarms only the defect raises.
set -u
SRC=$(readlink -f "$1"); ID=$2; PROP=$3
/verif/tools/keep_mutant.sh "$SRC" "$ID" "$PROP" | tail -3 || exit 1
DST=/verif/seeded/$ID; [ -d "$DST" ] || exit 1
cp "$SRC/benign.diff" "$DST/benign.diff" 2>/dev/null
OUT=$(BASE=${BASE:-/repo} N=200 /verif/tools/pair_mutant.sh "$SRC")
python3 - "$DST" <<PY
import json, sys, re
dst = sys.argv[1]
out = '''$OUT'''
twin, only, mode = [], [], None
for l in out.splitlines():
    if l.startswith('--- benign'): mode = 'b'; continue
    if l.startswith('--- only'): mode = 'o'; continue
    m = re.match(r'(VIOLATION|UNDECIDED|FLOOR|ANCHOR-UNRESOLVED)\s+(C\d+\.R\w+)?', l)
    if not m: continue
    rule = m.group(2) or 'anchor'
    (twin if mode == 'b' else only if mode == 'o' else []).append(rule)
meta = json.load(open(dst + '/meta.json'))
meta['kind'] = 'refactoring that carries a defect; benign.diff is the same restructuring without it'
meta['twin_alarms'] = sorted(set(twin))
meta['defect_only_alarms'] = sorted(set(only))
meta['distinguished'] = bool(only) 
json.dump(meta, open(dst + '/meta.json', 'w'), indent=1)
print('pair', meta['id'], 'twin_alarms', meta['twin_alarms'], 'defect_only', meta['defect_only_alarms'])
PY
