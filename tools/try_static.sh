#!/bin/bash
# usage: try_static.sh <patch file> — all checks on a scratch copy with the patch; prints the alarms
S=$(mktemp -d /tmp/ts.XXXXXX); cp -a ${BASE:-/repo}/. $S/ && git -C $S checkout -q -- . && git -C $S apply "$1" || { echo APPLY-FAILED; rm -rf $S; exit 3; }
PROPS=$(python3 -c "import json;print(' '.join(c['property_id'] for c in json.load(open('/verif/MANIFEST.json'))['checks']))")
for p in $PROPS; do
  (VERIF_REPO=$S /verif/bin/vcheck -prop $p -out $S/.ev 2>&1 | grep "^  [A-Z][A-Z-]* " | cut -c1-${W:-260}) &
done | sort -u
wait; rm -rf $S
