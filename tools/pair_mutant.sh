#!/bin/bash
# usage: pair_mutant.sh <dir with patch.diff and benign.diff> — a refactoring that carries a defect (patch.diff) and the
# same refactoring without it (benign.diff): runs all checks on a scratch copy with each, and prints the alarms of both
# and the alarms only the defect raises. Scratch copies are removed.
set -u
D=$(readlink -f "$1")
PROPS=$(python3 -c "import json;print(' '.join(c['property_id'] for c in json.load(open('/verif/MANIFEST.json'))['checks']))")
run() { # $1 patch -> prints sorted "rule key" lines
  S=$(mktemp -d ${TMPDIR:-/tmp}/pm.XXXXXX)
  cp -a ${BASE:-/repo}/. $S/ && git -C $S checkout -q -- . && git -C $S apply "$1" 2>/dev/null || { echo "APPLY-FAILED"; rm -rf $S; return; }
  for p in $PROPS; do
    VERIF_REPO=$S /verif/bin/vcheck -prop $p -out $S/.ev 2>&1 | grep "^  [A-Z][A-Z-]* " | sed -E 's/: [^ ]+\.go:[0-9]+:[0-9]+ — .*//; s/^ +//' | sed -E 's/(path|iteration)#[0-9]+/\1#N/g' &
  done | sort -u
  wait
  rm -rf $S
}
run "$D/patch.diff" > /tmp/pm_defect.$$ 
if [ -f "$D/benign.diff" ]; then run "$D/benign.diff" > /tmp/pm_benign.$$; else : > /tmp/pm_benign.$$; echo "(no benign.diff)"; fi
echo "DEFECT alarms: $(wc -l < /tmp/pm_defect.$$)   BENIGN alarms: $(wc -l < /tmp/pm_benign.$$)"
echo "--- benign alarms (false alarms of the restructuring):"; cut -c1-220 /tmp/pm_benign.$$ | head -${N:-12}
echo "--- only with the defect:"; comm -23 /tmp/pm_defect.$$ /tmp/pm_benign.$$ | cut -c1-260 | head -${N:-12}
rm -f /tmp/pm_defect.$$ /tmp/pm_benign.$$
