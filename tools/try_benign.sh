#!/bin/bash
# usage: try_benign.sh <dir with patch.diff> — applies to /repo, runs all checks (must stay silent), undoes
set -u
D=$(readlink -f "$1")
git -C /repo diff --quiet || { echo "/repo is dirty"; exit 2; }
git -C /repo apply "$D/patch.diff" || { echo "patch does not apply to /repo"; exit 3; }
OUT=$(mktemp -d /tmp/ev.XXXXXX); ALARMS=""
for p in $(python3 -c "import json;print(' '.join(c['property_id'] for c in json.load(open('/verif/MANIFEST.json'))['checks']))"); do
  R=$(/verif/bin/vcheck -prop $p -out "$OUT" 2>&1); rc=$?
  if [ $rc -ne 0 ]; then ALARMS="$ALARMS $p"; echo "== $p exit=$rc"; echo "$R" | grep -v "^  rule\|^KNOWN\|^VIOLATION\|^property=\|note:" | cut -c1-330 | head -4; fi
done
rm -rf "$OUT"; git -C /repo checkout -q -- .
echo "FALSE_ALARMS:${ALARMS:- none}"
