#!/usr/bin/env python3
"""Derive /verif/ref/uapi_audit.json from the UAPI header (run by hand / thorough drift check).

Extracts every `#define NAME <expr>` whose expression evaluates to an integer (with references to
earlier defines resolved), and the field order of struct audit_status / struct audit_rule_data.
The checker reads only the frozen JSON, never /usr/include."""
import re, json, hashlib, sys, datetime

def main(path, stat_path):
    src = open(path).read().replace('\\\n', ' ')
    em = open('/usr/include/linux/elf-em.h').read()
    defs = {}
    raw = {}
    for m in re.finditer(r'^#define[ \t]+([A-Za-z_][A-Za-z0-9_]*)[ \t]+(.+?)[ \t]*(?:/\*.*)?$', em + '\n' + src, re.M):
        name, expr = m.group(1), m.group(2).strip()
        raw[name] = expr
    # extra headers for constants audit.h references
    changed = True
    while changed:
        changed = False
        for name, expr in raw.items():
            if name in defs:
                continue
            e = re.sub(r'/\*.*?\*/', '', expr).strip()
            e = re.sub(r'\b(0[xX][0-9a-fA-F]+|\d+)[uUlL]+\b', r'\1', e)
            ids = re.findall(r'(?<![0-9A-Za-z_])[A-Za-z_][A-Za-z0-9_]*', e)
            if any(i not in defs for i in ids):
                continue
            for i in sorted(set(ids), key=len, reverse=True):
                e = re.sub(r'(?<![0-9A-Za-z_])%s(?![0-9A-Za-z_])' % i, str(defs[i]), e)
            if not re.fullmatch(r'[0-9a-fA-FxX()|&<>+\-*~ \t]+', e):
                continue
            try:
                # C octal literals
                e2 = re.sub(r'\b0([0-7]+)\b', r'0o\1', e)
                v = eval(e2, {'__builtins__': {}})
            except Exception:
                continue
            if isinstance(v, int):
                defs[name] = v & 0xFFFFFFFFFFFFFFFF if v < 0 else v
                changed = True
    def struct_fields(name):
        m = re.search(r'struct\s+%s\s*\{(.*?)\n\};' % name, src, re.S)
        out = []
        body = re.sub(r'/\*.*?\*/', '', m.group(1), flags=re.S)
        body = re.sub(r'union\s*\{[^}]*?(\w+\s+\w+)\s*;\s*\}\s*;', r'\1;', body, flags=re.S)
        for line in body.split(';'):
            line = line.strip()
            if not line or line.startswith('union'):
                # union { __u32 version; __u32 feature_bitmap; }
                mm = re.search(r'union\s*\{(.*)', line, re.S)
                if mm:
                    inner = mm.group(1).strip()
                    t, n = inner.rsplit(None, 1)
                    out.append({'type': t.strip(), 'name': 'version|feature_bitmap'})
                continue
            if line.startswith('}'):
                continue
            if '{' in line:
                continue
            t, n = line.rsplit(None, 1)
            arr = re.match(r'(\w+)\[(\w+)\]', n)
            if arr:
                cnt = arr.group(2)
                cnt = defs.get(cnt, int(cnt) if cnt.isdigit() else 0)
                out.append({'type': t.strip(), 'name': arr.group(1), 'count': cnt})
            else:
                out.append({'type': t.strip(), 'name': n})
        return out
    stat = open(stat_path).read()
    modes = {}
    for m in re.finditer(r'^#define[ \t]+(S_IF[A-Z]+)[ \t]+(0[0-7]+)', stat, re.M):
        modes[m.group(1)] = int(m.group(2), 8)
    doc = {
        'provenance': {'path': path, 'sha256': hashlib.sha256(src.encode()).hexdigest(),
                       'stat_path': stat_path, 'stat_sha256': hashlib.sha256(stat.encode()).hexdigest(),
                       'derived': datetime.date.today().isoformat(),
                       'note': 'transcribed mechanically by tools/mk_uapi_ref.py from this sandbox\'s kernel UAPI headers'},
        'defines': dict(sorted(defs.items())),
        'struct_audit_status': struct_fields('audit_status'),
        'struct_audit_rule_data': struct_fields('audit_rule_data'),
        'stat_modes': modes,
    }
    json.dump(doc, sys.stdout, indent=1)
    sys.stdout.write('\n')

if __name__ == '__main__':
    main(sys.argv[1] if len(sys.argv) > 1 else '/usr/include/linux/audit.h',
         sys.argv[2] if len(sys.argv) > 2 else '/usr/include/linux/stat.h')
