#!/bin/bash
# usage: run_all.sh [tier] — runs every property's check against /repo, prints one line per property
T=${1:-quick}
OUT=${OUT:-/verif/evidence}
rc=0
run() { R=$(/verif/bin/vcheck -prop $1 -tier $T -out "$OUT" 2>&1); c=$?; echo "$1 exit=$c $(echo "$R" | grep -c '^KNOWN-FINDING') known $(echo "$R" | grep '^property=' | head -1)"; [ $c -ne 0 ] && echo "$R" | grep -v '^  rule' | head -8; return $c; }
export -f run; export T OUT
python3 -c "import json;print('\n'.join(c['property_id'] for c in json.load(open('/verif/MANIFEST.json'))['checks']))" | xargs -P ${JOBS:-6} -I{} bash -c 'run {}' | sort
