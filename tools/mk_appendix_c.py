#!/usr/bin/env python3
# Rewrites DESIGN.md's Appendix C (rules as built) from the evidence files of the last quick run.
import json, glob, re
rows = []
for f in sorted(glob.glob('/verif/evidence/C*.json')):
    e = json.load(open(f))
    for r in e['coverage'].get('rules', []):
        rows.append('| %s | %d | %d | %s |' % (r['id'], r['instances'], r['floor'], r['clause'].replace('|', '\\|')))
p = '/verif/DESIGN.md'
s = open(p).read()
i = s.index('## Appendix C')
head = s[i:].split('\n| rule |')[0]
tail = ''
m = re.search(r'\n\n(?!\|)', s[s.index('|---|---|---|---|', i):])
if m:
    tail = s[s.index('|---|---|---|---|', i) + m.start():]
new = head + '\n| rule | instances | floor | clause decided |\n|---|---|---|---|\n' + '\n'.join(rows) + tail
open(p, 'w').write(s[:i] + new)
print(len(rows), 'rules')
