#!/usr/bin/env python3
# Fills the round-4 table and counts in DESIGN.md (section 10.4) from /verif/seeded/*-r4m*/meta.json.
import json, glob, os, re, sys

DESC = {
 'C01-r4m1': ('`lookup`/`insert` helpers and a most-recent-event shortcut in `Put`', 'the shortcut is cleared after the `delete`, so it never matches: a late record is appended to a delivered event'),
 'C01-r4m2': ('`seqs` + `events` merged into one ordered slice of events', '`find` stops scanning at a plain `>=` that is not roll-over aware: a buffered event is missed and split'),
 'C02-r4m1': ('`seqLess` extracted; binary insertion instead of `append` + `Sort`', 'the append-at-tail fast path compares with plain `<`'),
 'C02-r4m2': ('`Clear`/`CleanUp` loops merged into one callback-driven `evict`', 'a non-evictable event is skipped with `continue` instead of stopping: eviction behind the head'),
 'C03-r4m1': ('`after` becomes the primitive (unsigned compare), `Less` built on it, `abs` deleted', '`a >= b` for `a > b`: a duplicate of the last delivered sequence counts as 2^32-1 lost'),
 'C03-r4m2': ('`lastSeq` + `hasLast` replaced by one `nextSeq`', '`nextSeq == 0` stands for "nothing delivered yet", which recurs after 2^32-1'),
 'C04-r4m1': ('delimiter searches folded into a loop over `"(.:)"`; `parseTimestamp` extracted', 'time built from total nanoseconds (wraps above 9223372036 s)'),
 'C04-r4m2': ('`ToMapStr`: header first, then body pairs filtered by `isHeaderKey`', '`raw_msg` missing from the filter'),
 'C05-r4m1': ('named sockaddr offsets, `checkSockaddrSize`, `parseSockaddrPort`', 'IPv6 minimum length built from the wrong offset (40 instead of 48)'),
 'C05-r4m2': ('`decodeUppercaseHex` merged into `decodeUppercaseHexString`, stride-2 loop', 'odd-length guard after the loop that reads `s[i+1]`'),
 'C06-r4m1': ('`addSyscall`: early return for numbers, `lookupSyscall` extracted', '`allSyscalls = false` only on the name path'),
 'C06-r4m2': ('four flag types merged into `filterFlag{list, type, name, re}`', 'value group `(.+)$` became `\\s*(.+?)\\s*$`'),
 'C07-r4m1': ('string-field case lists replaced by a `stringFields` table', '`obj_lev_high` missing from the table'),
 'C07-r4m2': ('watch detection moved into `watchCommandLine`', 'the call-site guard lost `r.allSyscalls &&`'),
 'C08-r4m1': ('nested receive/retry loops of `getReply` flattened, named constants', 'the failure counter is never reset after a successful read'),
 'C08-r4m2': ('`AddRule`/`DeleteRule` merged into table-driven `sendRule`', '`if err := ParseNetlinkError(...)` shadows: kernel rejection returns nil'),
 'C09-r4m1': ('`selectPath`/`isObjectPath` extracted from `setFileObject`', 'the selection starts from a nil map instead of the hinted record'),
 'C09-r4m2': ('`parsePathMode` extracted, named mode-bit constants', 'the permission mask forgets the sticky bit (06777)'),
 'C10-r4m1': ('EOE handling moved from `Put` into `Add`, `endsEvent`, `insert`', '`complete = endsEvent(t)` overwrites a completed event with false'),
 'C10-r4m2': ('`evictFront`/`evictWhile(cond)`; `CleanUp` split into two passes', 'ready-then-overflow order: the new head after an overflow eviction is not re-examined'),
 'C11-r4m1': ('mutex moved from `eventList` to `Reassembler.mu`', '`Close` defers the unlock, so callbacks run under the lock'),
 'C11-r4m2': ('`Clear`/`CleanUp` merged into `evict(all bool)`', 'the returned batch is a reused `l.evicted[:0]` buffer'),
 'C12-r4m1': ('per-type `hexDecode` calls replaced by a `hexEncodedFields` table', 'SECCOMP (which fell through to SYSCALL) has no entry'),
 'C12-r4m2': ('`fieldMap.value(key)` replaces `find(key)` + `.value` in eight callers', '`hexDecode` converted too: it decodes the unquoted value, not `orig`'),
 'C13-r4m1': ('`addField` helper does the three appends; every arm sets `value`', 'the 64-field limit moved into `addField`, which `-C` bypasses'),
 'C13-r4m2': ('list/action switches replaced by `listNames`/`actionNames` arrays', 'bound checked against 8, table has 6 entries'),
 'C14-r4m1': ('`validate` switch and messages replaced by an `operations` table', '`C` missing from the syscall row'),
 'C14-r4m2': ('`-F`/`-C` parsing merged; patterns built from operator lists', '`&` listed before `&=`'),
 'C15-r4m1': ('cache literals merged into `newStringCache(expiration, seed, fn)`', 'the seed map is stored, not copied: all caches share it'),
 'C15-r4m2': ('`Strings.UnmarshalYAML` rewritten on node kinds with `decodeStrings`', 'slice grown by `append` has spare capacity: later appends write into the shared table'),
 'C16-r4m1': ('`GetStatus` split; `FromWireFormat` body moved to `decodeAuditStatus`', 'short-message guard tests `cap(buf)` instead of `len(buf)`'),
 'C16-r4m2': ('seven setter literals merged into `setField(mask, value, mode)`', 'the `AuditStatusFailure` arm is missing'),
 'C17-r4m1': ('`checkSetACK` helper; range over the queue with a `consumed` counter', 'counter bumped after the check: a rejected ACK stays queued'),
 'C17-r4m2': ('`GetRules` split into `receiveRules`; switch; clone idiom', '`append(d[:0], d...)` instead of `[:0:0]`: rules alias the receive buffer'),
 'C18-r4m1': ('`Send` stamping + `serialize` merged into `frame(msg)`', '`Send` returns the client\'s latest sequence, not the stamped one'),
 'C18-r4m2': ('`Receive` split into `readDatagram`/`checkDatagram`, one `err`', 'the debug dump overwrites the check\'s verdict'),
 'C19-r4m1': ('`expireTime` replaced by a duration since `clockBase`', '`now + timeout` wraps for an infinite timeout'),
 'C19-r4m2': ('`Put` + `CleanUp` merged into `Push`', 'an EOE for an unbuffered sequence returns before the clean-up'),
 'C20-r4m1': ('reverse tables built by a generic `invert[K,V]`', '`getExitCode` uses an inverted table without the errno aliases'),
 'C20-r4m2': ('`getDisplayArch` switches replaced by a compat table', '`b32` for any 32-bit architecture on a 64-bit host'),
}

rows = []
silent = more = same = 0
for d in sorted(glob.glob('/verif/seeded/*-r4m*')):
    mid = os.path.basename(d)
    try:
        m = json.load(open(d + '/meta.json'))
    except Exception:
        continue
    twin = m.get('twin_alarms', [])
    only = m.get('defect_only_alarms', [])
    caught = m.get('caught_by_rules', [])
    if not twin and (only or caught):
        silent += 1
        verdict = 'twin silent'
    elif only:
        more += 1
        verdict = 'twin alarms; defect adds its own'
    else:
        same += 1
        verdict = 'same alarms as the twin'
    restr, defect = DESC.get(mid, ('', ''))
    def fmt(l):
        return ', '.join(l) if l else '—'
    reported = fmt(sorted(set(only)))
    rows.append('| %s | %s | %s | %s | %s |' % (mid, restr, defect, fmt(twin), reported))

table = '| pair | restructuring | defect hidden in it | alarms on the twin | alarms only the defect raises |\n|---|---|---|---|---|\n' + '\n'.join(rows)
p = '/verif/DESIGN.md'
s = open(p).read()
if 'ROUND4_TABLE' in s:
    s = s.replace('ROUND4_TABLE', '<!-- round4-table -->\n' + table + '\n<!-- /round4-table -->')
else:
    s = re.sub(r'<!-- round4-table -->.*?<!-- /round4-table -->', lambda _: '<!-- round4-table -->\n' + table + '\n<!-- /round4-table -->', s, flags=re.S)
s = re.sub(r'\*\*(TWIN_SILENT|\d+)\*\* of the forty pairs', '**%d** of the forty pairs' % silent, s)
s = re.sub(r'\*\*(DEFECT_ONLY_MORE|\d+)\*\* more the twin still trips', '**%d** more the twin still trips' % more, s)
s = re.sub(r'in the remaining \*\*(SAME|\d+)\*\* the defect', 'in the remaining **%d** the defect' % same, s)
open(p, 'w').write(s)
print(len(rows), 'pairs: twin silent', silent, 'defect adds', more, 'same', same)
