#!/bin/bash
# usage: dbg_benign.sh <benign id> <prop> — scratch copy, apply, run one property, show notes and alarms
S=/tmp/scr_$1; rm -rf $S; cp -a ${BASE:-/repo} $S && git -C $S apply /verif/benign/$1/patch.diff || exit 3
VCHECK_INLINE_DEBUG=1 VERIF_REPO=$S /verif/bin/vcheck -prop $2 -out $S/.ev 2>&1 | grep -v "^  rule\|^VIOLATION prop\|note: normalisation" | cut -c1-${W:-500} | head -${N:-30}
python3 -c "
import json
e=json.load(open('$S/.ev/$2.json'))
for n in e.get('notes',[]) if isinstance(e.get('notes'),list) else []:
    if 'normalis' in n or 'inlin' in n: print('NOTE', n[:300])
" 2>/dev/null
[ -z "${KEEP:-}" ] && rm -rf $S
