#!/bin/bash
# usage: mutant_dirs.sh <dir>... — each dir has patch.diff; applies to a scratch copy of /repo, runs all checks, prints catchers
PROPS=$(python3 -c "import json;print(' '.join(c['property_id'] for c in json.load(open('/verif/MANIFEST.json'))['checks']))")
one() {
  d=$1; id=$(basename $(dirname $d))-$(basename $d); S=$(mktemp -d ${TMPDIR:-/tmp}/mu.XXXXXX)
  cp -a ${BASE:-/repo}/. $S/ && git -C $S checkout -q -- . && git -C $S apply $d/patch.diff 2>/dev/null || { echo "$id APPLY-FAILED"; rm -rf $S; return; }
  A=""; mkdir -p /tmp/mut_logs; : > /tmp/mut_logs/$id.log
  for p in $PROPS; do
    R=$(VERIF_REPO=$S /verif/bin/vcheck -prop $p -out $S/.ev 2>&1); rc=$?
    [ $rc -eq 1 ] && { A="$A $p"; echo "== $p" >> /tmp/mut_logs/$id.log; echo "$R" | grep -v "^  rule\|^KNOWN\|^VIOLATION\|^property=\|note:" | cut -c1-400 | head -5 >> /tmp/mut_logs/$id.log; }
    [ $rc -gt 1 ] && A="$A $p(INFRA$rc)"
  done
  rm -rf $S
  echo "$id CAUGHT_BY:${A:- NONE-MISSED}"
}
export -f one; export PROPS
printf "%s\n" "$@" | xargs -P ${JOBS:-8} -I{} bash -c 'one {}' | sort
