#!/bin/bash
# usage: mutants_rules.sh [glob] — like mutants_all.sh, but also prints the rule ids that fire; with UPDATE=1
# writes caught_by_properties / caught_by_rules into each meta.json
set -u
PAT=${1:-'seeded/*'}
PROPS=$(python3 -c "import json;print(' '.join(c['property_id'] for c in json.load(open('/verif/MANIFEST.json'))['checks']))")
one() {
  d=$1; id=$(basename $d); S=$(mktemp -d ${TMPDIR:-/tmp}/mu.XXXXXX)
  cp -a ${BASE:-/repo}/. $S/ && git -C $S checkout -q -- . && git -C $S apply $d/patch.diff 2>/dev/null || { echo "$id APPLY-FAILED"; rm -rf $S; return; }
  A=""; RU=""
  for p in $PROPS; do
    R=$(VERIF_REPO=$S /verif/bin/vcheck -prop $p -out $S/.ev 2>&1); rc=$?
    [ $rc -eq 1 ] && { A="$A $p"; RU="$RU $(echo "$R" | grep -o "VIOLATION C[0-9]*\.R[0-9a-z]*\|UNDECIDED C[0-9]*\.R[0-9a-z]*\|FLOOR C[0-9]*\.R[0-9a-z]*\|ANCHOR C[0-9]*\.R[0-9a-z]*" | awk '{print $2}' | sort -u | tr '\n' ' ')"; }
    [ $rc -gt 1 ] && A="$A $p(INFRA$rc)"
  done
  rm -rf $S
  if [ -n "${UPDATE:-}" ] && [ -f $d/meta.json ]; then
    python3 - $d/meta.json "$A" "$RU" <<'PY'
import sys, json
p, a, ru = sys.argv[1:4]
m = json.load(open(p)); m["caught_by_properties"] = a.split(); m["caught_by_rules"] = sorted(set(ru.split()))
json.dump(m, open(p, 'w'), indent=1)
PY
  fi
  echo "$id CAUGHT_BY:${A:- NONE-MISSED} RULES: $(echo $RU)"
}
export -f one; export PROPS
ls -d /verif/$PAT | xargs -P ${JOBS:-8} -I{} bash -c 'one {}' | sort
