#!/bin/bash
# usage: try_mutant.sh <dir with patch.diff, zz_mutant_demo_test.go, DEMO_DIR> [props...]
# 1. confirms in a scratch worktree: suite passes with the change, demo fails with it, demo passes without it
# 2. applies the patch to /repo, runs the checks, undoes it
set -u
export GOFLAGS=-mod=mod GOPROXY=off GOSUMDB=off GOTOOLCHAIN=local; unset GOWORK
D=$(readlink -f "$1"); shift
PROPS="${*:-$(python3 -c "import json;print(' '.join(c['property_id'] for c in json.load(open('/verif/MANIFEST.json'))['checks']))")}"
WT=$(mktemp -d /tmp/vfy.XXXXXX); rmdir "$WT"
git -C /repo worktree add --detach -q "$WT" HEAD || exit 2
trap 'git -C /repo worktree remove --force "$WT" >/dev/null 2>&1; git -C /repo checkout -q -- . 2>/dev/null' EXIT
DEMO_DIR=$(tr -d ' \n' < "$D/DEMO_DIR" 2>/dev/null || echo .)
if [ -z "${SKIP_CONFIRM:-}" ]; then
( cd "$WT" && git apply "$D/patch.diff" ) || { echo "CONFIRM: patch does not apply to current HEAD"; exit 3; }
( cd "$WT" && go build ./... ) || { echo "CONFIRM: does not compile"; exit 3; }
SUITE=$(cd "$WT" && go test -vet=off -count=1 ./... 2>&1); if echo "$SUITE" | grep -q "^FAIL\|^--- FAIL"; then
  SUITE=$(cd "$WT" && go test -vet=off -count=1 ./... 2>&1); fi
if echo "$SUITE" | grep -q "^FAIL\|^--- FAIL"; then echo "CONFIRM: suite FAILS with the change"; echo "$SUITE" | grep -A5 "^--- FAIL" | head -20; SUITE_OK=no; else echo "CONFIRM: suite passes with the change"; SUITE_OK=yes; fi
cp "$D/zz_mutant_demo_test.go" "$WT/$DEMO_DIR/"
DW=$(cd "$WT/$DEMO_DIR" && go test -vet=off -count=1 -run 'Mutant|Demo|Seeded|ZZ|Zz' . 2>&1 | tail -15)
if echo "$DW" | grep -q "^FAIL\|^--- FAIL\|panic:"; then echo "CONFIRM: demo fails with the change"; DEMO_W=fail; else echo "CONFIRM: demo does NOT fail with the change"; echo "$DW" | tail -5; DEMO_W=pass; fi
( cd "$WT" && git apply -R "$D/patch.diff" )
DO=$(cd "$WT/$DEMO_DIR" && go test -vet=off -count=1 -run 'Mutant|Demo|Seeded|ZZ|Zz' . 2>&1 | tail -15)
if echo "$DO" | grep -q "^FAIL\|^--- FAIL\|panic:"; then echo "CONFIRM: demo FAILS without the change"; echo "$DO" | tail -8; DEMO_O=fail; else echo "CONFIRM: demo passes without the change"; DEMO_O=pass; fi
echo "CONFIRMED suite=$SUITE_OK demo_with=$DEMO_W demo_without=$DEMO_O"
fi
# checks against /repo with the patch applied
git -C /repo diff --quiet || { echo "/repo is dirty"; exit 2; }
git -C /repo apply "$D/patch.diff" || { echo "patch does not apply to /repo"; exit 3; }
CAUGHT=""
OUT=$(mktemp -d /tmp/ev.XXXXXX)
for p in $PROPS; do
  [ -x /verif/bin/vcheck ] || exit 2
  R=$(/verif/bin/vcheck -prop $p -out "$OUT" 2>&1); rc=$?
  if [ $rc -eq 2 ]; then echo "== $p INFRA exit=2: $(echo "$R" | tail -2)"; continue; fi
  if [ $rc -ne 0 ]; then CAUGHT="$CAUGHT $p"; echo "== $p exit=$rc"; echo "$R" | grep -v "^  rule\|^KNOWN\|^VIOLATION\|^property=" | cut -c1-400 | head -6; fi
done
rm -rf "$OUT"
git -C /repo checkout -q -- .
echo "CAUGHT_BY:${CAUGHT:- none}"
