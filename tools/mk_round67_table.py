#!/usr/bin/env python3
# Fills the round-6/7 table in DESIGN.md (section 10.4) from /verif/seeded/*-r[67]m*/meta.json.
# Columns: id | the change | what it needs to manifest | rules of its own property that report it | other properties.
import json, glob, os, re, sys

DESC = {
 # round 6 (three per property, at least one made of two cooperating edits)
 'C01-r6m1': ('`Put` caches the last touched event (invalidated in `remove`) + `CleanUp` evicts inline without `remove`', 'a record of a just-delivered sequence arriving next'),
 'C01-r6m2': ('per-event `msgs` carved from a shared slab with full capacity', 'an event with more than 8 records next to another'),
 'C01-r6m3': ('`CleanUp` reuses `l.evicted[:0]` as its result', 'a second clean-up while the first batch is being delivered'),
 'C02-r6m1': ('`Put` re-sorts only when `seq < tail` (plain compare)', 'out-of-order arrival across the 2^32 roll-over'),
 'C02-r6m2': ('second pass of `CleanUp` evicts expired events behind the head', 'inverted arrival, one expiry, `Maintain` in the window'),
 'C02-r6m3': ('`after` rewritten as `a-b < maxSortRange` + binary insertion on `after`', 'two sequences exactly 2^24-1 apart'),
 'C03-r6m1': ('`advance` collapsed: `lastSeq` overwritten by late/duplicate events', 'delivery, straggler, then the next in-order event'),
 'C03-r6m2': ('loss accumulated in a field + `Maintain` uses an expiry-only pass that reports 0', 'a gap found by `Maintain`: reported by a later call'),
 'C03-r6m3': ('`type sequenceNum uint64`', 'a gap that straddles the roll-over'),
 'C04-r6m1': ('time built from total milliseconds times 1e6 in int64', 'seconds above 9223372036'),
 'C04-r6m2': ('64-bit `parseHeaderNumber` reused for the sequence, `uint32()` truncates', 'sequence text at or above 2^32'),
 'C04-r6m3': ('five new record types added; `"LANDLOCK_DOMAIN": AUDIT_LANDLOCK_ACCESS`', 'record type 1424 only'),
 'C05-r6m1': ('a missing EXECVE `aN` is skipped with `continue`', '`argc=4294967295` in a short record'),
 'C05-r6m2': ('`Data` allocates the map only when a field survives + hex keys appended onto `m.tags`', 'a record whose only field is a hex multi-key, called twice'),
 'C05-r6m3': ('`node=` prefix support drops the room check before `msg=`', '`type=msg=audit(...)`'),
 'C06-r6m1': ('one name→id memo shared by `getUID` and `getGID`', 'a name that is both a user and a group, uid rule then gid rule'),
 'C06-r6m2': ('`Build` appends the key filter onto the caller\'s `Filters` slice', 'two rules sharing a backing array'),
 'C06-r6m3': ('`addKeys` folds `-k` into an existing `-F key=` but picks `strings[len-1]`', '`-F key=`, another string filter, then `-k`'),
 'C07-r6m1': ('`&`/`&=` values listed as `%#X` + `parseNum` accepts only lower-case `0x`', 'a bit-mask filter on a numeric field'),
 'C07-r6m2': ('`r.arch` set only when the arch operator is `=`', '`-F arch!=b32 -S <names>`'),
 'C07-r6m3': ('decoder string set moved to `hasStringValue()`, `obj_lev_high` missing', 'a rule with `obj_lev_high=`'),
 'C08-r6m1': ('`getReply` flattened into one ten-iteration loop', 'ten unsolicited events before the ACK'),
 'C08-r6m2': ('sequence check moved into `getAck` only; data reads bypass it', 'a stale reply between ACK and data'),
 'C08-r6m3': ('`DeleteRules` tolerates ENOENT', 'a concurrent deleter'),
 'C09-r6m1': ('leading record becomes `special` only if `recordTypeNorms` has its type', 'a group led by BPF, MMAP, CWD, ...'),
 'C09-r6m2': ('`applyNormalization` drops its `Source == nil` guard + `setSourceIP` gains it after the `delete`', 'USER_LOGIN with `addr`, accept SYSCALL, SOCKADDR'),
 'C09-r6m3': ('`0o7777` replaced by named constants that forget the sticky bit', 'mode with 01000'),
 'C10-r6m1': ('`Put` reports whether a clean-up is needed; `PushMessage` skips it', 'a terminating record appended to a buffered event'),
 'C10-r6m2': ('`CleanUp` spares the event `Put` just created', 'a full buffer plus a late arrival that sorts first'),
 'C10-r6m3': ('deadline stored as `UnixNano()+int64(timeout)`', 'timeouts above about 237 years'),
 'C11-r6m1': ('`inflight` RWMutex: `callback` holds RLock, `Close` uses Lock as a barrier', 'a callback that calls `Close` or re-enters while a closer waits'),
 'C11-r6m2': ('every `Close` that flushed something returns nil', 'Close, push, Close'),
 'C11-r6m3': ('last-event cache in `Put` + `CleanUp` compacts `seqs` with `copy`, bypassing `remove`', 'a late record straight after its event completed'),
 'C12-r6m1': ('`hexDecode` decodes the unquoted value instead of `orig`', 'a quoted value that happens to be upper-case hex'),
 'C12-r6m2': ('decode into a caller buffer + `execveArgs` reuses one scratch buffer', 'two hex arguments, the later fitting in the earlier'),
 'C12-r6m3': ('sockaddr minimum lengths taken from struct sizes', '24-byte IPv6 addresses'),
 'C13-r6m1': ('range check `>= maxSyscalls` in `addSyscall` + the word-index guard dropped', 'a negative syscall number'),
 'C13-r6m2': ('decoder and printer share `isStringField`, which omits `exe`', 'an exe length word beyond the buffer'),
 'C13-r6m3': ('`-C` parsed with `strings.Cut`, tests `lhs[len(lhs)-1]`', '`-C =uid`'),
 'C14-r6m1': ('`filterRegexp` tail `\\s*(.+?)\\s*$`', 'a value with leading or trailing blanks'),
 'C14-r6m2': ('`-p` no longer marks the line as a watch', '`-D -p wa`'),
 'C14-r6m3': ('flattened `validate` has no arm for "neither -a nor -A" + `Parse` merges the syscall arm into `default`', '`-S open` alone'),
 'C15-r6m1': ('tags de-duplicated in place on the slice `Tags()` returned', 'a repeated or empty rule key'),
 'C15-r6m2': ('`event.Net` points at package-level `ingressNetwork`/`egressNetwork` + `setSourceIP` writes `.Direction` in place', 'USER_LOGIN with `addr`, connect SYSCALL, SOCKADDR'),
 'C15-r6m3': ('`stringCache.lookup` takes only the read lock', 'two goroutines missing the cache at once'),
 'C16-r6m1': ('`requestFlags(mode)` omits NLM_F_ACK for NoWait + `set` records no pending ACK', 'any NoWait setter'),
 'C16-r6m2': ('`FromWireFormat` field by field, guarded by `offset < len(buf)`', 'buffer lengths 33-35, 37-39, 41-43'),
 'C16-r6m3': ('`AuditStatusBacklogWaitTimeActual` inserted in struct order into the `1<<iota` block', '`AuditStatusLost` and the new name'),
 'C17-r6m1': ('range + deferred trim of consumed ACKs; counter advances only on success', 'a rejected NoWait request, then a second wait'),
 'C17-r6m2': ('`clearPIDOnClose` recorded only on the success exits of `set`', 'SetPID whose ACK is lost'),
 'C17-r6m3': ('`GetRules` copies payloads into a per-client `rulesBuf` restarted at `[:0]`', 'a second listing'),
 'C18-r6m1': ('one per-client send buffer', 'concurrent `Send`'),
 'C18-r6m2': ('socket connected to port 0 + sender check only when connect failed', 'multicast from another process'),
 'C18-r6m3': ('parser strips "alignment padding" by `nlmsg_len`', '`nlmsg_len` 1-3 below an aligned datagram length'),
 'C19-r6m1': ('`Put` caches `time.Now()` refreshed only for new events; `CleanUp(now)`', 'first push after the timeout is a further record of a buffered sequence'),
 'C19-r6m2': ('`Put` re-sorts only when `seq < tail`', 'roll-over plus out-of-order arrival, still buffered at Close'),
 'C19-r6m3': ('`Close`: load-check, flush, then store `closed`', 'a second Close during the first one\'s callbacks'),
 'C20-r6m1': ('`UNKNOWN[n]` parsed with `Atoi` and checked against `math.MaxInt16`', 'codes 32768-65535'),
 'C20-r6m2': ('2048-slot cache in `GetAuditEventType` with a 16-bit tag', 'a lookup of a type 2048 higher first'),
 'C20-r6m3': ('duplicate syscall rejected only when the action differs + `openat2` listed twice', 'the loader and the table together'),
 # round 7 (two per property, both made of cooperating edits)
 'C01-r7m1': ('`remove` shifts `seqs` in place + `CleanUp` ranges over `l.seqs`', 'one clean-up that evicts three or more events'),
 'C01-r7m2': ('previous-event shortcut in `Put`, invalidated in `remove` + `CleanUp` pops the head inline', 'a late record after a PROCTITLE completion'),
 'C02-r7m1': ('binary insertion on `after` + `after` as `ahead < maxSortRange`', 'two events exactly 2^24-1 apart'),
 'C02-r7m2': ('self-contained first records diverted into a `ready` queue drained unconditionally', 'USER_LOGIN N+1 while multi-record N is buffered'),
 'C03-r7m1': ('`remove` shifts in place and returns the event + `CleanUp` ranges over `l.seqs`', 'two or more evictions in one clean-up'),
 'C03-r7m2': ('`lastSeq int64` with -1 sentinel + gap computed in that width', 'a gap across the roll-over'),
 'C04-r7m1': ('`wellKnownKeys` table (without `raw_msg`) + header assignments moved above the copy loop', 'a body field `raw_msg=`'),
 'C04-r7m2': ('`parseHeaderNumber` (63-bit) + the sequence routed through it', 'sequence text at or above 2^32'),
 'C05-r7m1': ('failures no longer memoised by `Data` + tags appended onto `m.tags`', 'a keyed record whose enrichment fails, called twice'),
 'C05-r7m2': ('`hexToStrings` returns nil for all-NUL + `hexDecode` tests `[0]`', '`cwd=00`'),
 'C06-r7m1': ('`ruleData` from a `sync.Pool` + `reset()` forgets `arch`', 'foreign-arch rule, then an arch-less named-syscall rule'),
 'C06-r7m2': ('`stringFields` table without `obj_lev_high` + `BufLen` summed over `isString()` fields', '`-F obj_lev_high=`'),
 'C07-r7m1': ('`maxSyscallNum = 2047` + decoder loop `num < maxSyscallNum`', 'syscall 2047'),
 'C07-r7m2': ('`formatID` prints 0xFFFFFFFF as `unset` for uid and gid classes; only `getUID` accepts it', 'a gid-class filter with value -1'),
 'C08-r7m1': ('`DeleteRules` sends all deletes, then `WaitForPendingACKs` + one drain', 'two refused deletes and a later command'),
 'C08-r7m2': ('unsolicited records skipped only for types >= 1100', 'a LOGIN (1006) record between request and reply'),
 'C09-r7m1': ('`applyNormalization` drops the `Source == nil` guard + `setSourceIP` fills only an empty IP but still deletes the key', 'USER_LOGIN, accept SYSCALL, SOCKADDR with another IP'),
 'C09-r7m2': ('`permStrings = octalStrings(0o7777, 4)` one entry short + table lookup in `setFileObject`', 'mode with all twelve permission bits'),
 'C10-r7m1': ('`remove` shifts in place + `CleanUp` ranges over `l.seqs`', 'an eviction with another event behind it'),
 'C10-r7m2': ('`size` counter used by `CleanUp` + `Clear` truncates without `remove`', 'pushes after Close'),
 'C11-r7m1': ('`remove` shifts in place + `CleanUp` ranges over `l.seqs`', 'a clean-up that evicts two of three buffered events'),
 'C11-r7m2': ('`flushMu`: Push/Maintain hold RLock across callbacks + `Close` takes Lock', 'a callback that calls `Close`'),
 'C12-r7m1': ('package-level `syscallTables` built before `init()` adds the ppc64 aliases', '`arch=c0000015`'),
 'C12-r7m2': ('`hexToJoinedString` on `strings.Map`', 'decoded bytes 0x80-0xFF'),
 'C13-r7m1': ('syscalls as `[]int` + `word >= len(Mask)` only', '`-S -32`'),
 'C13-r7m2': ('`stringFields` table without `exe` + the `stringIndex >= len` guard dropped in `ToCommandLine`', 'any rule with an exe field'),
 'C14-r7m1': ('`-a` and `-A` share one flag value that accepts a repeated equal argument + `validate` no longer checks for both', '`-a always,exit -A always,exit`'),
 'C14-r7m2': ('the stray-argument check moved to the end of `validate` + early returns for -D and -w', '`-w /etc/shadow oops -p wa`'),
 'C15-r7m1': ('`UnmarshalYAML` appends item by item (cap 4 for 3) + a three-element ANOM_LINK type list', 'two ANOM_LINK events with different syscalls'),
 'C15-r7m2': ('failures no longer memoised by `Data` + `addTags` appends', 'a keyed SYSCALL without `arch`, inspected after coalescing'),
 'C16-r7m1': ('`growPayload` reslices up to capacity + one unsafe read of the whole struct', 'a 32-43 byte reply in the shared read buffer'),
 'C16-r7m2': ('`getReply` wraps the last receive error + `set` re-sends on EAGAIN', 'an ACK later than the ten polls'),
 'C17-r7m1': ('range over `pendingAcks` + `dropPendingAck` shifts with `copy`', 'three outstanding NoWait requests'),
 'C17-r7m2': ('`Close` resets the PID with WaitForReply + `set` drains pending ACKs first', 'SetPID plus an uncollected failed ACK'),
 'C18-r7m1': ('pooled send buffer of `AuditMessageMaxLength` + `serialize` returns `buf[:hdr+copy(...)]`', 'payloads of 8955-8970 bytes'),
 'C18-r7m2': ('`recvFromKernel` skips up to 16 foreign datagrams then falls through + `Receive` drops its own check', 'the 16th consecutive forged datagram'),
 'C19-r7m1': ('zero deadline for `timeout <= 0` + `IsExpired` treats a zero deadline as never', 'zero or negative timeout'),
 'C19-r7m2': ('`Clear` ranges over `l.seqs` + `remove` shifts in place when `len == cap`', 'an earlier eviction plus a full buffer at Close'),
 'C20-r7m1': ('normalisation entries named `APPARMOR` + type 1500 now prints as `AA`', 'record type 1500'),
 'C20-r7m2': ('unknown codes printed zero-padded + parsed in base 0', 'codes 8-999'),
}

rows = []
own = other_only = missed = 0
for d in sorted(glob.glob('/verif/seeded/*-r[67]m*')):
    m = json.load(open(os.path.join(d, 'meta.json')))
    mid = m['id']; prop = m['breaks_property']
    what, needs = DESC.get(mid, (m.get('what_breaks', '')[:120], m.get('needs_to_manifest', '')[:100]))
    rules = m.get('caught_by_rules', [])
    mine = sorted(r for r in rules if r.startswith(prop + '.'))
    if not mine and prop in m.get('caught_by_properties', []):
        mine = ['anchor (the reshaped function no longer matches the rule\'s reference; reported as unresolved)']
    others = sorted(set(p for p in m.get('caught_by_properties', []) if p != prop))
    if mine: own += 1
    elif others: other_only += 1
    else: missed += 1
    rows.append('| %s | %s | %s | %s | %s |' % (mid, what, needs, ', '.join(mine) or '—', ', '.join(others) or '—'))
table = ['| id | the change | needs | own-property rules | also reported by |', '|---|---|---|---|---|'] + rows
summary = '%d changes: %d reported by the check of their own property, %d only by a neighbour, %d not at all.' % (len(rows), own, other_only, missed)
p = '/verif/DESIGN.md'
s = open(p).read()
a, b = '<!-- round67-table -->', '<!-- /round67-table -->'
if a not in s:
    sys.exit('markers missing')
s = s[:s.index(a) + len(a)] + '\n' + summary + '\n\n' + '\n'.join(table) + '\n' + s[s.index(b):]
open(p, 'w').write(s)
print(summary)
