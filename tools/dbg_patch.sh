#!/bin/bash
# usage: dbg_patch.sh <patch file> <prop> — scratch copy of ${BASE:-/repo}, apply the patch, run one property, show alarms
S=$(mktemp -d /tmp/scr.XXXXXX); cp -a ${BASE:-/repo}/. $S/ && git -C $S checkout -q -- . && git -C $S apply "$1" || { rm -rf $S; exit 3; }
VERIF_REPO=$S /verif/bin/vcheck -prop $2 -out $S/.ev 2>&1 | grep -v "^  rule\|^VIOLATION prop\|note: normalisation" | cut -c1-${W:-400} | head -${N:-30}
[ -z "${KEEP:-}" ] && rm -rf $S || echo "kept $S"
