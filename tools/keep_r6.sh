#!/bin/bash
# usage: keep_r6.sh <src dir with patch.diff, demo, DEMO_DIR, README.md, TRY.log> <seeded id> <property>
# stores an already confirmed change (TRY.log written by tools/try_mutant.sh holds the confirmation) under
# /verif/seeded/<id>/ with a meta.json; the checks are re-run by tools/mutants_all.sh afterwards.
set -u
SRC=$(readlink -f "$1"); ID=$2; PROP=$3
grep -q "CONFIRMED suite=yes demo_with=fail demo_without=pass" "$SRC/TRY.log" || { echo "NOT CONFIRMED: $ID"; exit 1; }
DST=/verif/seeded/$ID; mkdir -p "$DST"
cp "$SRC/patch.diff" "$SRC/zz_mutant_demo_test.go" "$SRC/DEMO_DIR" "$DST/"; cp "$SRC/README.md" "$DST/README.agent.md"
python3 - "$DST" "$ID" "$PROP" "$(git -C /repo log --format=%h -1)" <<'PY'
import sys, json, re, os
dst, mid, prop, head = sys.argv[1:5]
readme = open(os.path.join(dst, 'README.agent.md')).read()
def section(tag):
    m = re.search(r'\(%s\)(.*?)(?=\n\s*(?:##|\*{0,2}\([a-c]\))|\Z)' % tag, readme, re.S)
    return ' '.join(m.group(1).split())[:900] if m else ''
meta = {
 "id": mid, "breaks_property": prop, "round": int(os.environ.get("ROUND","6")),
 "what_breaks": section('a') or readme[:600],
 "needs_to_manifest": section('b'),
 "origin": "written by a fresh sub-agent that was given only the property text and a scratch worktree (nothing from /verif)",
 "confirmed_by_me": {"repo_head": head, "ran": "tools/try_mutant.sh: scratch worktree of /repo HEAD; go build ./...; go test -vet=off -count=1 ./... with the patch (pass); demo test with the patch (fail); demo test without the patch (pass)", "result": "suite=pass demo_with_change=fail demo_without_change=pass"},
 "checks_run": "tools/mutants_all.sh: patch applied to a scratch copy of /repo (VERIF_REPO), bin/vcheck -prop C01..C20, copy removed",
 "caught_by_properties": [], "caught_by_rules": [],
}
json.dump(meta, open(os.path.join(dst, 'meta.json'), 'w'), indent=1)
PY
echo kept $ID
