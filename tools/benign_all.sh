#!/bin/bash
# usage: benign_all.sh [glob] — runs every benign patch (default benign/*) against a scratch copy of /repo
# (VERIF_REPO), all checks, in parallel; prints one line per patch. Scratch copies live under $TMPDIR and are removed.
set -u
PAT=${1:-'benign/*'}
LOGS=${LOGS:-/tmp/benign_logs}; mkdir -p "$LOGS"
PROPS=$(python3 -c "import json;print(' '.join(c['property_id'] for c in json.load(open('/verif/MANIFEST.json'))['checks']))")
one() {
  d=$1; id=$(basename $d); S=$(mktemp -d ${TMPDIR:-/tmp}/bn.XXXXXX)
  cp -a ${BASE:-/repo}/. $S/ && git -C $S checkout -q -- . && git -C $S apply $d/patch.diff 2>/dev/null || { echo "$id APPLY-FAILED"; rm -rf $S; return; }
  A=""; : > $LOGS/$id.log
  for p in $PROPS; do
    R=$(VERIF_REPO=$S /verif/bin/vcheck -prop $p -out $S/.ev 2>&1); rc=$?
    if [ $rc -ne 0 ]; then A="$A $p"; echo "== $p exit=$rc" >> $LOGS/$id.log; echo "$R" | grep -v "^  rule\|^KNOWN\|^VIOLATION\|^property=\|note:" | cut -c1-400 | head -6 >> $LOGS/$id.log; fi
  done
  rm -rf $S
  echo "$id FALSE_ALARMS:${A:- none}"
}
export -f one; export PROPS LOGS
ls -d /verif/$PAT | xargs -P ${JOBS:-8} -I{} bash -c 'one {}' | sort
