#!/bin/bash
# usage: mutants_all.sh [glob] — applies every seeded change (default seeded/*) to a scratch copy of /repo
# (VERIF_REPO) and runs all checks in parallel; prints which properties catch it. Scratch copies are removed.
set -u
PAT=${1:-'seeded/*'}
PROPS=$(python3 -c "import json;print(' '.join(c['property_id'] for c in json.load(open('/verif/MANIFEST.json'))['checks']))")
one() {
  d=$1; id=$(basename $d); S=$(mktemp -d ${TMPDIR:-/tmp}/mu.XXXXXX)
  cp -a ${BASE:-/repo}/. $S/ && git -C $S checkout -q -- . && git -C $S apply $d/patch.diff 2>/dev/null || { echo "$id APPLY-FAILED"; rm -rf $S; return; }
  A=""
  for p in $PROPS; do
    VERIF_REPO=$S /verif/bin/vcheck -prop $p -out $S/.ev >/dev/null 2>&1; rc=$?
    [ $rc -eq 1 ] && A="$A $p"; [ $rc -gt 1 ] && A="$A $p(INFRA$rc)"
  done
  rm -rf $S
  echo "$id CAUGHT_BY:${A:- NONE-MISSED}"
}
export -f one; export PROPS
ls -d /verif/$PAT | xargs -P ${JOBS:-8} -I{} bash -c 'one {}' | sort
