#!/bin/bash
# Recomputes twin_alarms / defect_only_alarms / caught_by_rules in the meta.json of every round-4 pair with the current checker.
one() {
  d=$1
  OUT=$(BASE=${BASE:-/repo} N=400 /verif/tools/pair_mutant.sh "$d")
  python3 - "$d" <<PY
import json, sys, re
dst = sys.argv[1]
out = '''$OUT'''
twin, only, mode = [], [], None
for l in out.splitlines():
    if l.startswith('--- benign'): mode = 'b'; continue
    if l.startswith('--- only'): mode = 'o'; continue
    m = re.match(r'(VIOLATION|UNDECIDED|FLOOR|ANCHOR-UNRESOLVED)\s+(C\d+\.R\w+)?', l)
    if not m: continue
    rule = m.group(2) or 'anchor'
    (twin if mode == 'b' else only if mode == 'o' else []).append(rule)
meta = json.load(open(dst + '/meta.json'))
meta['twin_alarms'] = sorted(set(twin))
meta['defect_only_alarms'] = sorted(set(only))
meta['distinguished'] = bool(only)
json.dump(meta, open(dst + '/meta.json', 'w'), indent=1)
print(meta['id'], 'twin', meta['twin_alarms'], 'only', meta['defect_only_alarms'])
PY
}
export -f one
ls -d /verif/seeded/*-r4m* | xargs -P ${JOBS:-3} -I{} bash -c 'one {}'
