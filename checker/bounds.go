package main

// A8 — bounds and allocation obligations.
//
// Enumerator: the gc compiler's prove pass (`-d=ssa/check_bce/debug=1`) lists every index/slice
// operation it could NOT show in bounds; everything not listed is proven by the compiler (trusted
// base). Each listed source line is mapped to the SSA index/slice instructions on that line, in
// the functions in scope. Prover: linear facts from dominating guards, SSA definitions, library
// postconditions, induction on phis and checked lemmas; entailment by Fourier–Motzkin.

import (
	"bytes"
	"fmt"
	"go/constant"
	"go/token"
	"go/types"
	"math/big"
	"os"
	"os/exec"
	"path/filepath"
	"strconv"
	"strings"

	"golang.org/x/tools/go/ssa"
)

// ---------------------------------------------------------------------------------------------
// enumerator

type bceSite struct {
	File string // relative to repo root
	Line int
	Col  int
	Kind string
}

var bceCache = map[string][]bceSite{}

func (w *World) bceSites() ([]bceSite, error) {
	// per tree and architecture (the self-tests load scratch copies in the same process)
	if s, ok := bceCache[w.Dir+"\x00"+w.GOARCH]; ok {
		return s, nil
	}
	cmd := exec.Command("go", "build", "-gcflags=-l -d=ssa/check_bce/debug=1", "./...")
	cmd.Dir = w.Dir
	env := []string{}
	for _, e := range os.Environ() {
		k := e
		if i := strings.IndexByte(e, '='); i >= 0 {
			k = e[:i]
		}
		switch k {
		case "GOFLAGS", "GOPROXY", "GOWORK", "CGO_ENABLED", "GOOS", "GOARCH", "GOSUMDB", "GOTOOLCHAIN":
			continue
		}
		env = append(env, e)
	}
	cmd.Env = append(env, "GOFLAGS=-mod=mod", "GOPROXY=off", "GOWORK=off", "GOSUMDB=off", "GOTOOLCHAIN=local", "CGO_ENABLED=0", "GOOS=linux", "GOARCH="+w.GOARCH)
	var out bytes.Buffer
	cmd.Stdout = &out
	cmd.Stderr = &out
	err := cmd.Run()
	var sites []bceSite
	for _, line := range strings.Split(out.String(), "\n") {
		if !strings.Contains(line, "Found Is") {
			continue
		}
		parts := strings.SplitN(line, ":", 4)
		if len(parts) < 4 {
			continue
		}
		ln, _ := strconv.Atoi(parts[1])
		col, _ := strconv.Atoi(parts[2])
		f := filepath.Clean(parts[0])
		sites = append(sites, bceSite{File: f, Line: ln, Col: col, Kind: strings.TrimSpace(strings.TrimPrefix(strings.TrimSpace(parts[3]), "Found "))})
	}
	if err != nil && len(sites) == 0 {
		return nil, fmt.Errorf("go build (bounds-check listing) failed: %v: %s", err, firstLines(out.String(), 5))
	}
	if len(sites) == 0 {
		// a warm build cache replays diagnostics; an empty listing for this repository means the flag was not honoured
		return nil, fmt.Errorf("bounds-check listing is empty (compiler diagnostics not produced)")
	}
	bceCache[w.Dir+"\x00"+w.GOARCH] = sites
	return sites, nil
}

func firstLines(s string, n int) string {
	l := strings.Split(s, "\n")
	if len(l) > n {
		l = l[:n]
	}
	return strings.Join(l, " | ")
}

// ---------------------------------------------------------------------------------------------
// memory stability

func aliasClass(in ssa.Instruction) string {
	switch x := in.(type) {
	case *ssa.UnOp:
		switch a := x.X.(type) {
		case *ssa.FieldAddr:
			return "field:" + fieldOfAddr(a).Name()
		case *ssa.IndexAddr:
			return "elem"
		case *ssa.Alloc:
			return fmt.Sprintf("local:%p", a)
		case *ssa.Global:
			return "global:" + a.Name()
		}
		return "any"
	case *ssa.Lookup:
		if _, isMap := x.X.Type().Underlying().(*types.Map); isMap {
			return "mapelem"
		}
		return "pure"
	}
	return "any"
}

var pureExternalPkgs = map[string]bool{"strings": true, "strconv": true, "bytes": true, "fmt": true, "errors": true, "os/user": true, "math": true,
	"unicode": true, "unicode/utf8": true, "encoding/hex": true, "net": true, "time": true, "regexp": true, "path/filepath": true, "os": true, "runtime": true,
	"golang.org/x/sys/unix": true, "syscall": true}

type storeSummary map[string]bool // alias classes a function may store to ("all" = anything)

var storeSummaries = map[*ssa.Function]storeSummary{}

func (w *World) storesOfFn(fn *ssa.Function, depth int) storeSummary {
	if s, ok := storeSummaries[fn]; ok {
		return s
	}
	s := storeSummary{}
	storeSummaries[fn] = s // cycle guard
	if depth > 6 {
		s["all"] = true
		return s
	}
	instrsOf(fn, func(in ssa.Instruction) {
		switch x := in.(type) {
		case *ssa.Store:
			switch a := x.Addr.(type) {
			case *ssa.FieldAddr:
				s["field:"+fieldOfAddr(a).Name()] = true
			case *ssa.IndexAddr:
				s["elem"] = true
			case *ssa.Alloc:
				// callee-local
				_ = a
			case *ssa.Global:
				s["global:"+a.Name()] = true
			default:
				s["all"] = true
			}
		case *ssa.MapUpdate:
			s["mapelem"] = true
		case ssa.CallInstruction:
			for c := range w.callEffects(x, depth+1) {
				s[c] = true
			}
		}
	})
	return s
}

func (w *World) callEffects(ci ssa.CallInstruction, depth int) storeSummary {
	cc := ci.Common()
	out := storeSummary{}
	if b, ok := cc.Value.(*ssa.Builtin); ok {
		switch b.Name() {
		case "copy", "clear":
			out["elem"] = true
			out["mapelem"] = true
		case "delete":
			out["mapelem"] = true
		}
		return out
	}
	callee := cc.StaticCallee()
	if callee == nil {
		// a call through an unexported package-level function variable that nothing in the
		// repository ever assigns (a debug hook that is nil by default) never runs
		if w.deadHookCall(cc) {
			return out
		}
		out["all"] = true
		return out
	}
	if w.isRepoFn(callee) && len(callee.Blocks) > 0 {
		return w.storesOfFn(callee, depth)
	}
	// sync/atomic operations write their operand only
	if callee.Pkg != nil && callee.Pkg.Pkg.Path() == "sync/atomic" || (callee.Object() != nil && callee.Object().Pkg() != nil && callee.Object().Pkg().Path() == "sync/atomic") {
		if len(cc.Args) > 0 {
			if fa, ok := cc.Args[0].(*ssa.FieldAddr); ok {
				out["field:"+fieldOfAddr(fa).Name()] = true
				return out
			}
			if g, ok := cc.Args[0].(*ssa.Global); ok {
				out["global:"+g.Name()] = true
				return out
			}
		}
	}
	pkg := ""
	if callee.Pkg != nil {
		pkg = callee.Pkg.Pkg.Path()
	} else if callee.Object() != nil && callee.Object().Pkg() != nil {
		pkg = callee.Object().Pkg().Path()
	}
	if pkg == "sort" {
		out["elem"] = true
		return out
	}
	if pureExternalPkgs[pkg] {
		return out
	}
	out["all"] = true
	return out
}

func (w *World) mayModify(in ssa.Instruction, class string) bool {
	if class == "pure" {
		return false
	}
	var eff storeSummary
	switch x := in.(type) {
	case *ssa.Store:
		eff = storeSummary{}
		switch a := x.Addr.(type) {
		case *ssa.FieldAddr:
			eff["field:"+fieldOfAddr(a).Name()] = true
		case *ssa.IndexAddr:
			eff["elem"] = true
		case *ssa.Alloc:
			eff[fmt.Sprintf("local:%p", a)] = true
		case *ssa.Global:
			eff["global:"+a.Name()] = true
		default:
			eff["all"] = true
		}
	case *ssa.MapUpdate:
		eff = storeSummary{"mapelem": true}
	case ssa.CallInstruction:
		eff = w.callEffects(x, 0)
	default:
		return false
	}
	if eff["all"] {
		return true
	}
	if class == "any" {
		return len(eff) > 0
	}
	return eff[class]
}

// stableBetween: no instruction on any path from `first` to `second` may modify the class.
// Requires first to dominate second (or be in the same block before it).
func (w *World) stableBetween(first, second ssa.Instruction, class string) bool {
	if first == second {
		return true
	}
	b1, b2 := first.Block(), second.Block()
	if b1.Parent() != b2.Parent() {
		return false
	}
	idx := func(in ssa.Instruction) int {
		for i, x := range in.Block().Instrs {
			if x == in {
				return i
			}
		}
		return -1
	}
	// reachability sets
	fwd := map[*ssa.BasicBlock]bool{}
	var walkF func(b *ssa.BasicBlock)
	walkF = func(b *ssa.BasicBlock) {
		for _, s := range b.Succs {
			if !fwd[s] {
				fwd[s] = true
				walkF(s)
			}
		}
	}
	walkF(b1)
	bwd := map[*ssa.BasicBlock]bool{}
	var walkB func(b *ssa.BasicBlock)
	walkB = func(b *ssa.BasicBlock) {
		for _, p := range b.Preds {
			if !bwd[p] {
				bwd[p] = true
				walkB(p)
			}
		}
	}
	walkB(b2)
	if b1 == b2 && idx(first) < idx(second) && !(fwd[b1] && bwd[b1]) {
		for _, in := range b1.Instrs[idx(first)+1 : idx(second)] {
			if w.mayModify(in, class) {
				return false
			}
		}
		return true
	}
	if !(b1 == b2 || b1.Dominates(b2)) {
		return false
	}
	check := func(ins []ssa.Instruction) bool {
		for _, in := range ins {
			if w.mayModify(in, class) {
				return false
			}
		}
		return true
	}
	for _, b := range b1.Parent().Blocks {
		switch {
		case b == b1 && b == b2:
			// same block but in a cycle: everything counts
			if !check(b.Instrs) {
				return false
			}
		case b == b1:
			if fwd[b1] && bwd[b1] {
				if !check(b.Instrs) {
					return false
				}
			} else if !check(b.Instrs[idx(first)+1:]) {
				return false
			}
		case b == b2:
			if fwd[b2] && bwd[b2] {
				if !check(b.Instrs) {
					return false
				}
			} else if !check(b.Instrs[:idx(second)]) {
				return false
			}
		case fwd[b] && bwd[b]:
			if !check(b.Instrs) {
				return false
			}
		}
	}
	return true
}

// ---------------------------------------------------------------------------------------------
// prover

type atomInst struct {
	name  string
	loads []ssa.Instruction
}

type prover struct {
	edgeCond ssa.Value // the branch condition of the CFG edge the proof is about (induct), with its polarity
	edgePol  bool
	w        *World
	fn       *ssa.Function
	site     ssa.Instruction
	insts    map[string][]*atomInst
	facts    []Fact
	done     map[string]bool // intrinsic facts already added, by atom name
	cache    map[ssa.Value]Lin
	lemmas   map[string]bool // lemma names used
	depth    int
	phis     map[string]*ssa.Phi // atom name → phi
	calls    map[string]*ssa.Call
	vals     map[string]ssa.Value
	notes    []string
	inInd    map[*ssa.Phi]bool
	neqs     []neq
	conds    []condPost // conditional postconditions: when `when >= 0` is entailed, `then` hold

	foundLookups map[*ssa.Lookup]bool
	depthSum     int
	inv          []Fact // facts established by induction, kept across rounds
	pairs        map[pairKey]string
	fieldAtoms   map[string]map[string]fieldAtom
	failed       []Lin
	tried        map[*ssa.Phi]bool
	containers   []ssa.Value
	atomFacts    map[string][]Fact // intrinsic facts of atoms, re-added with the invariants that mention them
}

type condPost struct {
	when Lin
	then []Fact
	done bool
}

func newProver(w *World, fn *ssa.Function, site ssa.Instruction) *prover {
	return &prover{w: w, fn: fn, site: site, insts: map[string][]*atomInst{}, done: map[string]bool{}, cache: map[ssa.Value]Lin{},
		lemmas: map[string]bool{}, phis: map[string]*ssa.Phi{}, calls: map[string]*ssa.Call{}, vals: map[string]ssa.Value{}, inInd: map[*ssa.Phi]bool{},
		foundLookups: map[*ssa.Lookup]bool{}}
}

func (p *prover) add(f Fact) { p.facts = append(p.facts, f) }

var big56 = int64(1) << 56

func intSize(w *World, t types.Type) (bits int64, unsigned bool, ok bool) {
	b, isB := t.Underlying().(*types.Basic)
	if !isB || b.Info()&types.IsInteger == 0 {
		return 0, false, false
	}
	return w.Sizes.Sizeof(b) * 8, b.Info()&types.IsUnsigned != 0, true
}

var pureCallees = map[string]bool{"len": true, "cap": true, "strings.Index": true, "strings.IndexByte": true, "strings.IndexRune": true, "strings.IndexFunc": true,
	"strings.LastIndex": true, "bytes.Index": true, "bytes.IndexByte": true, "encoding/hex.DecodedLen": true, "strings.TrimSpace": true, "strings.ToUpper": true,
	"strings.ToLower": true, "strings.Trim": true, "strings.HasPrefix": true, "strings.HasSuffix": true, "strings.SplitN": true, "strings.Split": true,
	"strings.Fields": true, "(*regexp.Regexp).FindStringSubmatchIndex": true, "(*regexp.Regexp).FindAllStringSubmatch": true, "(*regexp.Regexp).FindStringSubmatch": true}

// memLoads lists the memory-dependent instructions a value is computed from (loads, map lookups,
// calls to functions that are not pure).
func memLoads(v ssa.Value) []ssa.Instruction {
	var ins []ssa.Instruction
	leafInstrs(v, map[ssa.Value]bool{}, &ins)
	var out []ssa.Instruction
	for _, in := range ins {
		switch x := in.(type) {
		case *ssa.UnOp:
			if x.Op == token.MUL {
				out = append(out, x)
			}
		case *ssa.Lookup:
			if _, isMap := x.X.Type().Underlying().(*types.Map); isMap {
				out = append(out, x)
			}
		case *ssa.Call:
			if !pureCallees[calleeName(x)] {
				out = append(out, x)
			}
		case *ssa.Next:
			out = append(out, x)
		}
	}
	return out
}

// atomName returns the atom for value v with term t, merging with an existing instance when every
// memory load it depends on is stable with respect to that instance.
func (p *prover) atomName(v ssa.Value, t string) string {
	loads := memLoads(v)
	for _, inst := range p.insts[t] {
		if len(inst.loads) != len(loads) {
			continue
		}
		ok := true
		for i := range loads {
			a, b := inst.loads[i], loads[i]
			if a == b {
				continue
			}
			if _, isCall := a.(*ssa.Call); isCall {
				ok = false // different calls of an impure function
				break
			}
			if _, isNext := a.(*ssa.Next); isNext {
				ok = false
				break
			}
			cls := aliasClass(a)
			if aliasClass(b) != cls {
				ok = false
				break
			}
			if !(p.w.stableBetween(a, b, cls) || p.w.stableBetween(b, a, cls)) {
				ok = false
				break
			}
		}
		if ok {
			return inst.name
		}
	}
	name := t
	if n := len(p.insts[t]); n > 0 {
		name = fmt.Sprintf("%s#%d", t, n+1)
	}
	p.insts[t] = append(p.insts[t], &atomInst{name: name, loads: loads})
	p.vals[name] = v
	return name
}

// lin linearises an integer SSA value.
func (p *prover) lin(v ssa.Value) Lin {
	if l, ok := p.cache[v]; ok {
		return l
	}
	l := p.lin0(v)
	p.cache[v] = l
	return l
}

func (p *prover) opaque(v ssa.Value) Lin {
	name := p.atomName(v, Term(v))
	if !p.done[name] {
		p.done[name] = true
		if _, unsigned, ok := intSize(p.w, v.Type()); ok && unsigned {
			p.add(Fact{linAtom(name), "unsigned " + name})
			if bits, _, _ := intSize(p.w, v.Type()); bits <= 32 {
				p.add(leq(linAtom(name), linConst(int64(1)<<uint(bits)-1), "width of "+name))
			}
		} else if bits, _, ok := intSize(p.w, v.Type()); ok && bits <= 32 {
			p.add(geq(linAtom(name), linConst(-(int64(1) << uint(bits-1))), "width of "+name))
			p.add(leq(linAtom(name), linConst(int64(1)<<uint(bits-1)-1), "width of "+name))
		}
		if phi, ok := v.(*ssa.Phi); ok {
			p.phis[name] = phi
		}
		if ex, ok := v.(*ssa.Extract); ok {
			if c, ok := ex.Tuple.(*ssa.Call); ok {
				p.callPost(name, c, ex.Index)
			}
		}
		if c, ok := v.(*ssa.Call); ok {
			p.callPost(name, c, 0)
		}
		p.loadLemmas(name, v)
	}
	return linAtom(name)
}

func (p *prover) lin0(v ssa.Value) Lin {
	p.depth++
	defer func() { p.depth-- }()
	if p.depth > 60 {
		return p.opaque(v)
	}
	switch x := v.(type) {
	case *ssa.Const:
		if n, ok := constInt(x); ok {
			return linConst(n)
		}
		return p.opaque(v)
	case *ssa.ChangeType:
		return p.lin(x.X)
	case *ssa.Convert:
		sb, su, ok1 := intSize(p.w, x.X.Type())
		db, du, ok2 := intSize(p.w, x.Type())
		if !ok1 || !ok2 {
			return p.opaque(v)
		}
		src := p.lin(x.X)
		switch {
		case su && db > sb: // unsigned widening (to signed or unsigned)
			return src
		case !su && !du && db >= sb: // signed widening
			return src
		case su && du && db >= sb:
			return src
		case su && !du && db == sb:
			// e.g. uint→int of equal width: value-preserving for values < 2^(n-1)
			if p.provable(leq(src, linConst(int64(1)<<uint(min64(db-1, 62))-1), "")) {
				return src
			}
		case !su && du:
			// signed → unsigned: value-preserving when non-negative (and it fits)
			if p.provable(Fact{src, ""}) && (db >= sb || p.provable(leq(src, linConst(int64(1)<<uint(min64(db, 62))-1), ""))) {
				return src
			}
		}
		// narrowing / unknown: 0 <= conv(x) <= x for unsigned results of non-negative sources
		o := p.opaque(v)
		if du && p.provable(Fact{src, ""}) {
			p.add(leq(o, src, "truncation only shrinks a non-negative value"))
			if db < 63 && p.provable(leq(src, linConst(int64(1)<<uint(db)-1), "")) {
				p.add(geq(o, src, "value fits the narrower type"))
			}
		}
		return o
	case *ssa.BinOp:
		bits, unsigned, ok := intSize(p.w, x.Type())
		if !ok {
			return p.opaque(v)
		}
		isInt := false
		if b, isB := x.Type().Underlying().(*types.Basic); isB && (b.Kind() == types.Int || b.Kind() == types.UntypedInt) {
			isInt = true
		}
		var res Lin
		have := false
		switch x.Op {
		case token.ADD:
			res, have = p.lin(x.X).add(p.lin(x.Y)), true
		case token.SUB:
			res, have = p.lin(x.X).sub(p.lin(x.Y)), true
		case token.MUL:
			a, b := p.lin(x.X), p.lin(x.Y)
			if a.isConst() {
				res, have = b.scale(a.K), true
			} else if b.isConst() {
				res, have = a.scale(b.K), true
			}
		case token.SHL:
			b := p.lin(x.Y)
			if b.isConst() && b.K.IsInt() && b.K.Num().Int64() >= 0 && b.K.Num().Int64() < 60 {
				res, have = p.lin(x.X).scale(ratInt(int64(1)<<uint(b.K.Num().Int64()))), true
			}
		case token.QUO, token.SHR:
			b := p.lin(x.Y)
			var c int64
			if b.isConst() && b.K.IsInt() {
				c = b.K.Num().Int64()
				if x.Op == token.SHR {
					if c >= 0 && c < 60 {
						c = int64(1) << uint(c)
					} else {
						c = 0
					}
				}
			}
			a := p.lin(x.X)
			if c > 0 && p.provable(Fact{a, ""}) {
				q := p.opaque(v)
				// c*q <= a <= c*q + (c-1)
				p.add(leq(q.scale(ratInt(c)), a, "floor division"))
				p.add(leq(a, q.scale(ratInt(c)).addK(c-1), "floor division"))
				p.add(Fact{q, "quotient of non-negative"})
				return q
			}
		case token.REM, token.AND:
			b := p.lin(x.Y)
			a := p.lin(x.X)
			if b.isConst() && b.K.IsInt() {
				c := b.K.Num().Int64()
				if x.Op == token.AND {
					// x & mask: 0 <= r <= mask (mask >= 0), r <= x for x >= 0
					if c >= 0 {
						r := p.opaque(v)
						p.add(Fact{r, "masking"})
						p.add(leq(r, linConst(c), "masking"))
						return r
					}
				} else if c > 0 && p.provable(Fact{a, ""}) {
					r := p.opaque(v)
					p.add(Fact{r, "remainder of non-negative"})
					p.add(leq(r, linConst(c-1), "remainder"))
					p.add(leq(r, a, "remainder <= dividend"))
					return r
				}
			}
		}
		if !have {
			return p.opaque(v)
		}
		// wrap check
		if isInt {
			return res // assumption: `int` arithmetic on lengths/indices does not overflow
		}
		lo, hi := int64(0), int64(0)
		if unsigned {
			lo = 0
			hi = int64(1)<<uint(min64(bits, 62)) - 1
		} else {
			lo = -(int64(1) << uint(min64(bits-1, 62)))
			hi = int64(1)<<uint(min64(bits-1, 62)) - 1
		}
		if p.provable(geq(res, linConst(lo), "")) && p.provable(leq(res, linConst(hi), "")) {
			return res
		}
		if os.Getenv("VCHECK_BOUNDS_DEBUG") == "2" {
			fmt.Fprintf(os.Stderr, "  WRAP? %s : res=%s lo=%d hi=%d facts=%d\n", Term(v), res, lo, hi, len(p.facts))
			for _, f := range p.relevant(res) {
				fmt.Fprintf(os.Stderr, "        rel %s\n", f)
			}
		}
		return p.opaque(v) // may wrap: opaque
	case *ssa.Call:
		switch calleeName(x) {
		case "len", "cap":
			return p.lenOf(x.Call.Args[0])
		case "encoding/hex.DecodedLen":
			a := p.lin(x.Call.Args[0])
			if p.provable(Fact{a, ""}) {
				q := p.opaque(v)
				p.add(leq(q.scale(ratInt(2)), a, "DecodedLen = n/2"))
				p.add(leq(a, q.scale(ratInt(2)).addK(1), "DecodedLen = n/2"))
				return q
			}
		}
		return p.opaque(v)
	case *ssa.UnOp:
		if x.Op == token.SUB {
			// -x is the mathematical negation unless x is the most negative value of its type;
			// that has to be excluded by what is known about x (a parsed number can be anything)
			a := p.lin(x.X)
			if bits, unsigned, ok := intSize(p.w, x.Type()); ok && !unsigned {
				minPlus1 := new(big.Rat).SetInt(new(big.Int).Neg(new(big.Int).Sub(new(big.Int).Lsh(big.NewInt(1), uint(bits-1)), big.NewInt(1))))
				bound := newLin()
				bound.K.Set(minPlus1)
				if p.provable(Fact{a.sub(bound), ""}) {
					return a.neg()
				}
				r := p.opaque(v)
				return r
			}
			return p.opaque(v)
		}
		return p.opaque(v)
	case *ssa.Phi:
		// all edges equal?
		return p.opaque(v)
	}
	return p.opaque(v)
}

func ratInt(n int64) *big.Rat { return big.NewRat(n, 1) }

func min64(a, b int64) int64 {
	if a < b {
		return a
	}
	return b
}

// lenOf linearises len(x).
func (p *prover) lenOf(x ssa.Value) Lin {
	switch y := x.(type) {
	case *ssa.Const:
		if y.Value != nil && y.Value.Kind() == constant.String {
			return linConst(int64(len(constant.StringVal(y.Value))))
		}
		if y.Value == nil {
			return linConst(0)
		}
	case *ssa.Slice:
		var base Lin
		if pt, ok := y.X.Type().Underlying().(*types.Pointer); ok {
			if at, ok := pt.Elem().Underlying().(*types.Array); ok {
				base = linConst(at.Len())
			} else {
				base = p.lenAtom(y.X)
			}
		} else {
			base = p.lenOf(y.X)
		}
		hi := base
		if y.High != nil {
			hi = p.lin(y.High)
		}
		lo := linConst(0)
		if y.Low != nil {
			lo = p.lin(y.Low)
		}
		return hi.sub(lo)
	case *ssa.MakeSlice:
		return p.lin(y.Len)
	case *ssa.ChangeType:
		return p.lenOf(y.X)
	case *ssa.Convert:
		// string <-> []byte keeps the length; string(rune) etc. do not
		_, s1 := y.X.Type().Underlying().(*types.Slice)
		b1, isB1 := y.X.Type().Underlying().(*types.Basic)
		_, s2 := y.Type().Underlying().(*types.Slice)
		b2, isB2 := y.Type().Underlying().(*types.Basic)
		str1 := isB1 && b1.Info()&types.IsString != 0
		str2 := isB2 && b2.Info()&types.IsString != 0
		if (s1 && str2) || (str1 && s2) || (str1 && str2) {
			return p.lenOf(y.X)
		}
	case *ssa.BinOp:
		if y.Op == token.ADD {
			if b, ok := y.Type().Underlying().(*types.Basic); ok && b.Info()&types.IsString != 0 {
				return p.lenOf(y.X).add(p.lenOf(y.Y))
			}
		}
	case *ssa.Call:
		switch calleeName(y) {
		case "append":
			// len(append(s, e...)) = len(s) + n for explicit elements
			base, elems, spread, ok := appendParts(y)
			if ok && spread == nil {
				return p.lenOf(base).addK(int64(len(elems)))
			}
			if ok && spread != nil {
				return p.lenOf(base).add(p.lenOf(spread))
			}
		}
	}
	if at, ok := x.Type().Underlying().(*types.Array); ok {
		return linConst(at.Len())
	}
	return p.lenAtom(x)
}

func (p *prover) lenAtom(x ssa.Value) Lin {
	name := p.atomName(x, "len("+Term(x)+")")
	if !p.done[name] {
		p.done[name] = true
		f1 := Fact{linAtom(name), "length is non-negative"}
		f2 := leq(linAtom(name), linConst(big56), "address-space bound on lengths")
		p.add(f1)
		p.add(f2)
		if p.atomFacts == nil {
			p.atomFacts = map[string][]Fact{}
		}
		p.atomFacts[name] = []Fact{f1, f2}
		p.lenLemmas(name, x)
	}
	return linAtom(name)
}

// provable: current facts entail f (used for side conditions while linearising; guards must
// already have been collected for it to be useful, so the goal is linearised *after* guards).
func (p *prover) provable(f Fact) bool {
	if f.E.isConst() {
		return f.E.K.Sign() >= 0
	}
	return entails(p.relevant(f.E), f.E)
}

// relevant selects the facts connected to the goal's atoms (transitively).
func (p *prover) relevant(goal Lin) []Fact {
	atoms := map[string]bool{}
	for a := range goal.C {
		atoms[a] = true
	}
	used := make([]bool, len(p.facts))
	for changed := true; changed; {
		changed = false
		for i, f := range p.facts {
			if used[i] {
				continue
			}
			hit := false
			for a := range f.E.C {
				if atoms[a] {
					hit = true
				}
			}
			if hit {
				used[i] = true
				changed = true
				for a := range f.E.C {
					atoms[a] = true
				}
			}
		}
	}
	var out []Fact
	for i, f := range p.facts {
		if used[i] {
			out = append(out, f)
		}
	}
	if len(out) > 60 {
		out = out[:60]
	}
	return out
}

// ---------------------------------------------------------------------------------------------
// guards

var depthImplied int

func impliedConds(cond ssa.Value, pol bool) []Guard {
	out := []Guard{{Cond: cond, Pol: pol}}
	for {
		if u, ok := cond.(*ssa.UnOp); ok && u.Op == token.NOT {
			cond = u.X
			pol = !pol
			continue
		}
		break
	}
	// `φ == nil`, `φ != nil`, `φ != -1` where only one incoming edge can carry such a value (an
	// error or index result assigned on several branches): control came along that edge, so what
	// held at the end of that predecessor holds here
	if ph, k, ok := cameThrough(cond, pol); ok && depthImplied < 4 {
		depthImplied++
		pred := ph.Block().Preds[k]
		for _, g := range GuardsAt(pred) {
			out = append(out, impliedConds(g.Cond, g.Pol)...)
		}
		if ifi, isIf := pred.Instrs[len(pred.Instrs)-1].(*ssa.If); isIf && pred.Succs[0] != pred.Succs[1] {
			out = append(out, impliedConds(ifi.Cond, pred.Succs[0] == ph.Block())...)
		}
		depthImplied--
		return out
	}
	phi, ok := cond.(*ssa.Phi)
	if !ok {
		return out
	}
	var implied []Guard
	nonConst := 0
	var nc ssa.Value
	for i, e := range phi.Edges {
		c, isConst := e.(*ssa.Const)
		if isConst && c.Value != nil && c.Value.Kind() == constant.Bool {
			if constant.BoolVal(c.Value) == pol {
				return out
			}
			pred := phi.Block().Preds[i]
			if ifi, ok := pred.Instrs[len(pred.Instrs)-1].(*ssa.If); ok {
				side := pred.Succs[0] == phi.Block()
				implied = append(implied, impliedConds(ifi.Cond, !side)...)
			}
		} else {
			nonConst++
			nc = e
		}
	}
	if nonConst == 1 && len(implied) > 0 {
		implied = append(implied, impliedConds(nc, pol)...)
	}
	return append(out, implied...)
}

func (p *prover) addGuards(b *ssa.BasicBlock) {
	gs := GuardsAt(b)
	// outermost first, so that side conditions of inner guards (non-negativity, no wrap) can
	// already use the outer ones
	for i := len(gs) - 1; i >= 0; i-- {
		for _, g := range impliedConds(gs[i].Cond, gs[i].Pol) {
			p.addCond(g.Cond, g.Pol, "guard "+Lit(g.Cond, g.Pol))
		}
		// a phi pinned to one incoming edge by the guard has that edge's value
		if ph, k, ok := cameThrough(gs[i].Cond, gs[i].Pol); ok {
			if _, _, isInt := intSize(p.w, ph.Type()); isInt {
				a, b := p.lin(ph), p.lin(ph.Edges[k])
				why := "guard " + Lit(gs[i].Cond, gs[i].Pol) + " pins the merged value to one incoming edge"
				p.add(leq(a, b, why))
				p.add(geq(a, b, why))
			}
		}
	}
}

func (p *prover) addCond(cond ssa.Value, pol bool, why string) {
	for {
		if u, ok := cond.(*ssa.UnOp); ok && u.Op == token.NOT {
			cond = u.X
			pol = !pol
			continue
		}
		break
	}
	switch c := cond.(type) {
	case *ssa.BinOp:
		if _, _, ok := intSize(p.w, c.X.Type()); !ok {
			return
		}
		op := c.Op
		if !pol {
			op = negCmp(op)
		}
		a, b := p.lin(c.X), p.lin(c.Y)
		switch op {
		case token.LSS:
			p.add(ltI(a, b, why))
		case token.LEQ:
			p.add(leq(a, b, why))
		case token.GTR:
			p.add(gtI(a, b, why))
		case token.GEQ:
			p.add(geq(a, b, why))
		case token.EQL:
			p.add(leq(a, b, why))
			p.add(geq(a, b, why))
		case token.NEQ:
			// integers: tighten a bound that is already known to be attained at most here
			d := a.sub(b)
			if p.provable(Fact{d, ""}) { // a >= b and a != b  ⇒ a >= b+1
				p.add(Fact{d.addK(-1), why + " (≠ tightens ≥)"})
			} else if p.provable(Fact{d.neg(), ""}) {
				p.add(Fact{d.neg().addK(-1), why + " (≠ tightens ≤)"})
			} else {
				p.neqs = append(p.neqs, neq{d, why})
			}
		}
	case *ssa.Call:
		n := calleeName(c)
		if (n == "strings.HasPrefix" || n == "strings.HasSuffix" || n == "bytes.HasPrefix") && pol {
			p.add(geq(p.lenOf(c.Call.Args[0]), p.lenOf(c.Call.Args[1]), why))
		}
	case *ssa.Extract:
		// comma-ok of a map lookup: has(m, k) — used by the map-of-range-indices lemma
		if lk, ok := c.Tuple.(*ssa.Lookup); ok && c.Index == 1 && pol {
			p.foundLookups[lk] = true
		}
	}
}

type neq struct {
	d   Lin
	why string
}

// retryNeqs applies pending disequalities once more bounds are known.
func (p *prover) retryNeqs() {
	var rest []neq
	for _, n := range p.neqs {
		if p.provable(Fact{n.d, ""}) {
			p.add(Fact{n.d.addK(-1), n.why + " (≠ tightens ≥)"})
		} else if p.provable(Fact{n.d.neg(), ""}) {
			p.add(Fact{n.d.neg().addK(-1), n.why + " (≠ tightens ≤)"})
		} else {
			rest = append(rest, n)
		}
	}
	p.neqs = rest
}

var neverAssignedCache map[*ssa.Global]bool

// neverAssigned: g is an unexported package-level variable of the repository that no function
// of the repository (package initialisers included) stores to or takes the address of for
// anything but loading: it keeps its zero value for ever.
func (w *World) neverAssigned(g *ssa.Global) bool {
	if g == nil || g.Object() == nil || g.Object().Exported() || g.Pkg == nil || !strings.HasPrefix(g.Pkg.Pkg.Path(), modulePath) {
		return false
	}
	if neverAssignedCache == nil {
		neverAssignedCache = map[*ssa.Global]bool{}
	}
	if v, ok := neverAssignedCache[g]; ok {
		return v
	}
	ok := true
	scan := func(f *ssa.Function) {
		instrsOf(f, func(in ssa.Instruction) {
			var ops []*ssa.Value
			for _, op := range in.Operands(ops) {
				if *op != ssa.Value(g) {
					continue
				}
				if ld, isLd := in.(*ssa.UnOp); isLd && ld.Op == token.MUL && ld.X == ssa.Value(g) {
					continue // a load
				}
				ok = false
			}
		})
	}
	for _, f := range w.SrcFuncs() {
		scan(f)
	}
	// package initialisers (synthetic init functions hold the stores of `var x = ...`; a
	// variable declared without a value has no store there)
	for _, sp := range w.SSA {
		if f := sp.Func("init"); f != nil {
			scan(f)
		}
	}
	neverAssignedCache[g] = ok
	return ok
}

// deadHookCall: the call goes through a never-assigned function variable (see neverAssigned).
func (w *World) deadHookCall(cc *ssa.CallCommon) bool {
	if cc.IsInvoke() {
		return false
	}
	v := stripConv(cc.Value)
	// through phis / the nil test: the value is a load of the global
	if ld, ok := v.(*ssa.UnOp); ok && ld.Op == token.MUL {
		if g, ok := ld.X.(*ssa.Global); ok {
			return w.neverAssigned(g)
		}
	}
	return false
}
