package main

import "golang.org/x/tools/go/ssa"

// boundsRule — A8, filled in later.
func boundsRule(r *Run, w *World, ruleID, pkg string, scope []*ssa.Function) {}
