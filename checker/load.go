package main

// A0 — loading: what is analysed.
//
// go/packages on /repo's *current working tree* (Dir=/repo, ./...), type-checked, SSA built
// for the repository's own packages. Dependencies are seen through export data only.

import (
	"crypto/sha256"
	"encoding/hex"
	"fmt"
	"go/ast"
	"go/token"
	"go/types"
	"os"
	"path/filepath"
	"sort"
	"strings"

	"golang.org/x/tools/go/packages"
	"golang.org/x/tools/go/ssa"
	"golang.org/x/tools/go/ssa/ssautil"
)

const modulePath = "github.com/elastic/go-libaudit/v2"

// World is one loaded, type-checked and SSA-built view of the repository for one GOARCH.
type World struct {
	Dir    string
	GOARCH string
	Fset   *token.FileSet
	Pkgs   map[string]*packages.Package // by short name: libaudit, auparse, rule, flags, aucoalesce, internal, ...
	All    []*packages.Package
	Prog   *ssa.Program
	SSA    map[string]*ssa.Package
	Sizes  types.Sizes

	Inlined []string // calls to new helpers replaced by the helper's body before analysis (srcinline.go)
	known   func(*types.Func) bool

	srcFuncs []*ssa.Function
}

func repoDir() string {
	if d := os.Getenv("VERIF_REPO"); d != "" {
		return d
	}
	return "/repo"
}

func shortName(pkgPath string) string {
	switch {
	case pkgPath == modulePath:
		return "libaudit"
	case strings.HasPrefix(pkgPath, modulePath+"/"):
		rest := strings.TrimPrefix(pkgPath, modulePath+"/")
		switch rest {
		case "rule/flags":
			return "flags"
		}
		return strings.ReplaceAll(rest, "/", "_")
	}
	return pkgPath
}

// Load loads the repository at dir for the given GOARCH. Any load or type error is an
// infrastructure failure: the caller exits 2 without a verdict.
// theWorld is the program most recently loaded (path enumeration consults it for helper lifting).
var theWorld *World

func Load(dir, goarch string) (*World, error) { return LoadMod(dir, goarch, modulePath, 9) }

// LoadMod loads the module rooted at dir; packages whose path starts with modPrefix are analysed.
func LoadMod(dir, goarch, modPrefix string, minPkgs int) (*World, error) {
	env := []string{}
	for _, e := range os.Environ() {
		k := e
		if i := strings.IndexByte(e, '='); i >= 0 {
			k = e[:i]
		}
		switch k {
		case "GOFLAGS", "GOPROXY", "GOWORK", "CGO_ENABLED", "GOOS", "GOARCH", "GOSUMDB", "GOTOOLCHAIN":
			continue
		}
		env = append(env, e)
	}
	env = append(env, "GOFLAGS=-mod=mod", "GOPROXY=off", "GOWORK=off", "GOSUMDB=off",
		"GOTOOLCHAIN=local", "CGO_ENABLED=0", "GOOS=linux", "GOARCH="+goarch)
	known := func(f *types.Func) bool { return true }
	overlay := map[string][]byte{}
	importsAdded := map[string]bool{}
	var fset *token.FileSet
	var pkgs []*packages.Package
	var inlineNotes []string
	loadOnce := func(ov map[string][]byte) (*token.FileSet, []*packages.Package, error) {
		fs := token.NewFileSet()
		cfg := &packages.Config{
			Mode: packages.NeedName | packages.NeedFiles | packages.NeedCompiledGoFiles |
				packages.NeedImports | packages.NeedDeps | packages.NeedTypes | packages.NeedTypesSizes |
				packages.NeedSyntax | packages.NeedTypesInfo | packages.NeedModule | packages.NeedEmbedFiles,
			Dir:     dir,
			Env:     env,
			Fset:    fs,
			Tests:   false,
			Overlay: ov,
		}
		ps, err := packages.Load(cfg, "./...")
		if err != nil {
			return nil, nil, fmt.Errorf("go/packages: %w", err)
		}
		var errs []string
		packages.Visit(ps, nil, func(p *packages.Package) {
			for _, e := range p.Errors {
				errs = append(errs, e.Error())
			}
		})
		if len(errs) > 0 {
			return nil, nil, fmt.Errorf("load/type errors: %s", strings.Join(errs, "; "))
		}
		return fs, ps, nil
	}
	var err error
	fset, pkgs, err = loadOnce(nil)
	if err != nil {
		return nil, err
	}
	var renameNotes []string
	repoOnly := func(ps []*packages.Package) []*packages.Package {
		var out []*packages.Package
		for _, p := range ps {
			if strings.HasPrefix(p.PkgPath, modPrefix) {
				out = append(out, p)
			}
		}
		return out
	}
	if modPrefix == modulePath {
		renameNotes = detectRenames(repoOnly(pkgs))
	} else {
		resetRenames()
	}
	if !noSrcInline {
		if modPrefix == modulePath {
			var repoPkgs []*packages.Package
			for _, p := range pkgs {
				if strings.HasPrefix(p.PkgPath, modPrefix) {
					repoPkgs = append(repoPkgs, p)
				}
			}
			known = knownPredicate(repoPkgs)
		} else {
			known = func(f *types.Func) bool { return !strings.HasPrefix(f.Name(), "inl") }
		}
	}
	for round := 1; round <= 4 && !noSrcInline; round++ {
		var repoPkgs []*packages.Package
		for _, p := range pkgs {
			if strings.HasPrefix(p.PkgPath, modPrefix) {
				repoPkgs = append(repoPkgs, p)
			}
		}
		next := map[string][]byte{}
		for k, v := range overlay {
			next[k] = v
		}
		il := &inliner{fset: fset, pkgs: repoPkgs, overlay: next, known: known, round: round, importsAdded: importsAdded}
		n, notes := il.planRound()
		if n == 0 {
			break
		}
		fs2, ps2, err2 := loadOnce(next)
		if err2 != nil {
			// the rewritten source does not type-check: analyse what we had
			inlineNotes = append(inlineNotes, fmt.Sprintf("inlining round %d dropped: %v", round, err2))
			if os.Getenv("VCHECK_INLINE_DEBUG") != "" {
				for f, b := range next {
					os.WriteFile("/tmp/vcheck_inline_"+filepath.Base(f), b, 0o644)
				}
			}
			break
		}
		fset, pkgs, overlay = fs2, ps2, next
		inlineNotes = append(inlineNotes, notes...)
		if modPrefix == modulePath {
			detectRenames(repoOnly(pkgs)) // the objects are new after a reload
			known = knownPredicate(repoOnly(pkgs))
		}
	}
	inlineNotes = append(renameNotes, inlineNotes...)
	w := &World{Dir: dir, GOARCH: goarch, Fset: fset, Pkgs: map[string]*packages.Package{}, SSA: map[string]*ssa.Package{}, Inlined: inlineNotes, known: known}
	for _, p := range pkgs {
		if !strings.HasPrefix(p.PkgPath, modPrefix) {
			continue
		}
		if p.Types == nil || p.TypesInfo == nil || len(p.Syntax) == 0 {
			return nil, fmt.Errorf("package %s has no syntax/types", p.PkgPath)
		}
		w.Pkgs[shortName(p.PkgPath)] = p
		w.All = append(w.All, p)
		if w.Sizes == nil {
			w.Sizes = p.TypesSizes
		}
	}
	if len(w.All) < minPkgs {
		return nil, fmt.Errorf("expected at least %d packages, loaded %d", minPkgs, len(w.All))
	}
	sort.Slice(w.All, func(i, j int) bool { return w.All[i].PkgPath < w.All[j].PkgPath })
	prog, ssapkgs := ssautil.Packages(w.All, ssa.InstantiateGenerics)
	for i, sp := range ssapkgs {
		if sp == nil {
			return nil, fmt.Errorf("no SSA for %s", w.All[i].PkgPath)
		}
		w.SSA[shortName(w.All[i].PkgPath)] = sp
	}
	prog.Build()
	w.Prog = prog
	theWorld = w
	return w, nil
}

// SrcFuncs returns every function with a body that belongs to the repository's packages,
// including anonymous functions and methods, in a deterministic order.
func (w *World) SrcFuncs() []*ssa.Function {
	if w.srcFuncs != nil {
		return w.srcFuncs
	}
	seen := map[*ssa.Function]bool{}
	var out []*ssa.Function
	var add func(f *ssa.Function)
	add = func(f *ssa.Function) {
		if f == nil || seen[f] || len(f.Blocks) == 0 {
			return
		}
		seen[f] = true
		out = append(out, f)
		for _, a := range f.AnonFuncs {
			add(a)
		}
	}
	for _, name := range w.pkgNames() {
		sp := w.SSA[name]
		var mnames []string
		for n := range sp.Members {
			mnames = append(mnames, n)
		}
		sort.Strings(mnames)
		for _, n := range mnames {
			switch m := sp.Members[n].(type) {
			case *ssa.Function:
				add(m)
			case *ssa.Type:
				for _, T := range []types.Type{m.Type(), types.NewPointer(m.Type())} {
					ms := w.Prog.MethodSets.MethodSet(T)
					for i := 0; i < ms.Len(); i++ {
						f := w.Prog.MethodValue(ms.At(i))
						if f != nil && f.Synthetic == "" {
							add(f)
						}
					}
				}
			}
		}
	}
	// a new helper whose every call was inlined is dead in the normalised program: its code is
	// analysed inside each caller
	if len(w.Inlined) > 0 && w.known != nil {
		used := map[*ssa.Function]bool{}
		for _, f := range out {
			for _, b := range f.Blocks {
				for _, in := range b.Instrs {
					var ops []*ssa.Value
					for _, op := range in.Operands(ops) {
						if g, ok := (*op).(*ssa.Function); ok && g != f {
							used[g] = true
						}
					}
				}
			}
		}
		var live []*ssa.Function
		dead := map[*ssa.Function]bool{}
		for _, f := range out {
			r := rootFn(f)
			if obj, ok := r.Object().(*types.Func); ok && !obj.Exported() && !w.known(obj) && !used[r] && r.Signature.Recv() == nil {
				dead[r] = true
			} else if ok && !obj.Exported() && !w.known(obj) && !used[r] && !w.mayBeInvoked(r) {
				dead[r] = true
			}
		}
		for _, f := range out {
			if !dead[rootFn(f)] {
				live = append(live, f)
			}
		}
		out = live
	}
	w.srcFuncs = out
	return out
}

// mayBeInvoked: the method could be the target of an interface call (some interface used in
// the program has a method of that name).
func (w *World) mayBeInvoked(f *ssa.Function) bool {
	name := f.Name()
	for _, p := range w.All {
		for _, obj := range p.TypesInfo.Defs {
			tn, ok := obj.(*types.TypeName)
			if !ok {
				continue
			}
			if it, ok := tn.Type().Underlying().(*types.Interface); ok {
				for i := 0; i < it.NumMethods(); i++ {
					if it.Method(i).Name() == name {
						return true
					}
				}
			}
		}
	}
	switch name {
	case "String", "Error", "Len", "Less", "Swap", "Set", "MarshalText", "UnmarshalText", "MarshalJSON", "UnmarshalJSON", "UnmarshalYAML", "MarshalYAML", "Write", "Read", "Close":
		return true
	}
	return false
}

func (w *World) pkgNames() []string {
	var names []string
	for n := range w.SSA {
		names = append(names, n)
	}
	sort.Strings(names)
	return names
}

// PkgFuncs returns the source functions of one package (by short name).
func (w *World) PkgFuncs(pkg string) []*ssa.Function {
	var out []*ssa.Function
	sp := w.SSA[pkg]
	for _, f := range w.SrcFuncs() {
		if f.Package() == sp || (f.Parent() != nil && rootFn(f).Package() == sp) {
			out = append(out, f)
		}
	}
	return out
}

func rootFn(f *ssa.Function) *ssa.Function {
	for f.Parent() != nil {
		f = f.Parent()
	}
	return f
}

// ---------------------------------------------------------------------------------------------
// A1 — anchors: resolved through the type checker, never by text.

type anchorErr struct{ what string }

func (e anchorErr) Error() string { return "anchor-unresolved: " + e.what }

// Func resolves a package-level function.
func (w *World) Func(pkg, name string) (*ssa.Function, error) {
	sp := w.SSA[pkg]
	if sp == nil {
		return nil, anchorErr{pkg}
	}
	f := sp.Func(name)
	if f == nil {
		// renamed? (rename.go)
		if fo, found := funcByRef[sp.Pkg.Path()+"."+name]; found {
			f = w.Prog.FuncValue(fo)
		}
	}
	if f == nil || len(f.Blocks) == 0 {
		return nil, anchorErr{pkg + "." + name}
	}
	anchored[f] = true
	return f, nil
}

// Named resolves a named type.
func (w *World) Named(pkg, typ string) (*types.Named, error) {
	p := w.Pkgs[pkg]
	if p == nil {
		return nil, anchorErr{pkg}
	}
	obj := p.Types.Scope().Lookup(typ)
	tn, ok := obj.(*types.TypeName)
	if !ok {
		// renamed? (rename.go)
		if rn, found := typeByRef[p.PkgPath+"."+typ]; found {
			tn, ok = rn, true
		}
	}
	if !ok {
		return nil, anchorErr{pkg + "." + typ}
	}
	n, ok := tn.Type().(*types.Named)
	if !ok {
		return nil, anchorErr{pkg + "." + typ + " (not a named type)"}
	}
	return n, nil
}

// Method resolves a method of a named type (pointer or value receiver).
func (w *World) Method(pkg, typ, name string) (*ssa.Function, error) {
	n, err := w.Named(pkg, typ)
	if err != nil {
		return nil, err
	}
	for _, T := range []types.Type{types.NewPointer(n), n} {
		ms := w.Prog.MethodSets.MethodSet(T)
		for i := 0; i < ms.Len(); i++ {
			sel := ms.At(i)
			if fo, isF := sel.Obj().(*types.Func); isF && funcObjName(fo) == name && sel.Obj().Pkg() == w.Pkgs[pkg].Types {
				f := w.Prog.FuncValue(sel.Obj().(*types.Func))
				if f != nil && len(f.Blocks) > 0 {
					anchored[f] = true
					return f, nil
				}
			}
		}
	}
	// a method that became a plain function (rename.go)
	if fo, found := funcByRef[w.Pkgs[pkg].PkgPath+"."+typ+"."+name]; found {
		if f := w.Prog.FuncValue(fo); f != nil && len(f.Blocks) > 0 {
			anchored[f] = true
			return f, nil
		}
	}
	return nil, anchorErr{pkg + "." + typ + "." + name}
}

// FieldVar resolves a struct field object.
func (w *World) FieldVar(pkg, typ, field string) (*types.Var, error) {
	n, err := w.Named(pkg, typ)
	if err != nil {
		return nil, err
	}
	st, ok := n.Underlying().(*types.Struct)
	if !ok {
		return nil, anchorErr{pkg + "." + typ + " (not a struct)"}
	}
	for i := 0; i < st.NumFields(); i++ {
		if fieldName(st.Field(i)) == field {
			return st.Field(i), nil
		}
	}
	return nil, anchorErr{pkg + "." + typ + "." + field}
}

// Const resolves a package-level constant.
func (w *World) Const(pkg, name string) (*types.Const, error) {
	p := w.Pkgs[pkg]
	if p == nil {
		return nil, anchorErr{pkg}
	}
	c, ok := p.Types.Scope().Lookup(name).(*types.Const)
	if !ok {
		return nil, anchorErr{pkg + "." + name}
	}
	return c, nil
}

// Global resolves a package-level variable.
func (w *World) Global(pkg, name string) (*ssa.Global, error) {
	sp := w.SSA[pkg]
	if sp == nil {
		return nil, anchorErr{pkg}
	}
	g, ok := sp.Members[name].(*ssa.Global)
	if !ok {
		return nil, anchorErr{pkg + "." + name}
	}
	return g, nil
}

// VarDeclValue returns the AST initialiser of a package-level `var name = <expr>`.
func (w *World) VarDeclValue(pkg, name string) (ast.Expr, *packages.Package, error) {
	p := w.Pkgs[pkg]
	if p == nil {
		return nil, nil, anchorErr{pkg}
	}
	for _, f := range p.Syntax {
		for _, d := range f.Decls {
			gd, ok := d.(*ast.GenDecl)
			if !ok || gd.Tok != token.VAR {
				continue
			}
			for _, s := range gd.Specs {
				vs := s.(*ast.ValueSpec)
				for i, n := range vs.Names {
					if n.Name == name && i < len(vs.Values) {
						return vs.Values[i], p, nil
					}
				}
			}
		}
	}
	return nil, nil, anchorErr{pkg + "." + name + " (no initialiser)"}
}

func (w *World) Pos(p token.Pos) string {
	if !p.IsValid() {
		return "-"
	}
	pp := w.Fset.Position(p)
	rel, err := filepath.Rel(w.Dir, pp.Filename)
	if err != nil {
		rel = pp.Filename
	}
	return fmt.Sprintf("%s:%d:%d", rel, pp.Line, pp.Column)
}

// FileHashes lists the analysed files with content hashes (for the evidence).
func (w *World) FileHashes() map[string]string {
	out := map[string]string{}
	for _, p := range w.All {
		files := append([]string{}, p.CompiledGoFiles...)
		files = append(files, p.EmbedFiles...)
		for _, f := range files {
			b, err := os.ReadFile(f)
			if err != nil {
				continue
			}
			h := sha256.Sum256(b)
			rel, _ := filepath.Rel(w.Dir, f)
			out[rel] = hex.EncodeToString(h[:8])
		}
	}
	return out
}

// instrPos finds a usable position for an instruction (falls back to operands / the function).
func instrPos(in ssa.Instruction) token.Pos {
	if in == nil {
		return token.NoPos
	}
	if p := in.Pos(); p.IsValid() {
		return p
	}
	if v, ok := in.(ssa.Value); ok {
		_ = v
	}
	var ops []*ssa.Value
	for _, op := range in.Operands(ops) {
		if *op != nil {
			if p := (*op).Pos(); p.IsValid() {
				return p
			}
		}
	}
	if in.Parent() != nil {
		return in.Parent().Pos()
	}
	return token.NoPos
}
