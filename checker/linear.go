package main

// Linear arithmetic over the rationals: expressions, facts and Fourier–Motzkin refutation.
// (A polyhedral abstract domain evaluated on demand; no path is enumerated and no model is produced.)

import (
	"fmt"
	"math/big"
	"sort"
	"strings"
)

// Lin is a linear expression  Σ coef[a]·a + K  over named atoms.
type Lin struct {
	C map[string]*big.Rat
	K *big.Rat
}

func newLin() Lin { return Lin{C: map[string]*big.Rat{}, K: new(big.Rat)} }

func linConst(n int64) Lin {
	l := newLin()
	l.K.SetInt64(n)
	return l
}

func linAtom(a string) Lin {
	l := newLin()
	l.C[a] = big.NewRat(1, 1)
	return l
}

func (l Lin) clone() Lin {
	n := newLin()
	n.K.Set(l.K)
	for a, c := range l.C {
		n.C[a] = new(big.Rat).Set(c)
	}
	return n
}

func (l Lin) add(o Lin) Lin {
	n := l.clone()
	n.K.Add(n.K, o.K)
	for a, c := range o.C {
		if cur, ok := n.C[a]; ok {
			cur.Add(cur, c)
			if cur.Sign() == 0 {
				delete(n.C, a)
			}
		} else if c.Sign() != 0 {
			n.C[a] = new(big.Rat).Set(c)
		}
	}
	return n
}

func (l Lin) scale(k *big.Rat) Lin {
	n := newLin()
	if k.Sign() == 0 {
		return n
	}
	n.K.Mul(l.K, k)
	for a, c := range l.C {
		n.C[a] = new(big.Rat).Mul(c, k)
	}
	return n
}

func (l Lin) neg() Lin         { return l.scale(big.NewRat(-1, 1)) }
func (l Lin) sub(o Lin) Lin    { return l.add(o.neg()) }
func (l Lin) addK(n int64) Lin { return l.add(linConst(n)) }
func (l Lin) isConst() bool    { return len(l.C) == 0 }

func (l Lin) String() string {
	var as []string
	for a := range l.C {
		as = append(as, a)
	}
	sort.Strings(as)
	var parts []string
	for _, a := range as {
		c := l.C[a]
		switch {
		case c.Cmp(big.NewRat(1, 1)) == 0:
			parts = append(parts, a)
		case c.Cmp(big.NewRat(-1, 1)) == 0:
			parts = append(parts, "-"+a)
		default:
			parts = append(parts, c.RatString()+"·"+a)
		}
	}
	if l.K.Sign() != 0 || len(parts) == 0 {
		parts = append(parts, l.K.RatString())
	}
	return strings.Join(parts, " + ")
}

// Fact: E >= 0.
type Fact struct {
	E   Lin
	Why string
}

func (f Fact) String() string { return f.E.String() + " >= 0   [" + f.Why + "]" }

// geq(a, b): a >= b ; leq(a, b): a <= b ; lt for integers: a <= b-1.
func geq(a, b Lin, why string) Fact { return Fact{a.sub(b), why} }
func leq(a, b Lin, why string) Fact { return Fact{b.sub(a), why} }
func ltI(a, b Lin, why string) Fact { return Fact{b.sub(a).addK(-1), why} }
func gtI(a, b Lin, why string) Fact { return Fact{a.sub(b).addK(-1), why} }

func rowKey(l Lin) string { return l.String() }

// infeasible reports whether the conjunction of facts (each E >= 0) has no rational solution.
func infeasible(facts []Lin) bool {
	rows := dedupe(facts)
	for iter := 0; iter < 64; iter++ {
		// constant rows
		var next []Lin
		for _, r := range rows {
			if r.isConst() {
				if r.K.Sign() < 0 {
					return true
				}
				continue
			}
			next = append(next, r)
		}
		rows = next
		if len(rows) == 0 {
			return false
		}
		// choose the variable with the fewest pos×neg products
		count := map[string][2]int{}
		for _, r := range rows {
			for a, c := range r.C {
				x := count[a]
				if c.Sign() > 0 {
					x[0]++
				} else {
					x[1]++
				}
				count[a] = x
			}
		}
		best, bestCost := "", -1
		var names []string
		for a := range count {
			names = append(names, a)
		}
		sort.Strings(names)
		for _, a := range names {
			x := count[a]
			cost := x[0]*x[1] - x[0] - x[1]
			if bestCost == -1 || cost < bestCost {
				best, bestCost = a, cost
			}
		}
		var pos, negs, rest []Lin
		for _, r := range rows {
			c, ok := r.C[best]
			switch {
			case !ok:
				rest = append(rest, r)
			case c.Sign() > 0:
				pos = append(pos, r)
			default:
				negs = append(negs, r)
			}
		}
		for _, p := range pos {
			for _, n := range negs {
				// p: cp·x + P >= 0 (cp>0) ; n: cn·x + N >= 0 (cn<0)  ⇒  (-cn)·p + cp·n >= 0
				cp := p.C[best]
				cn := new(big.Rat).Neg(n.C[best])
				comb := p.scale(cn).add(n.scale(cp))
				delete(comb.C, best)
				rest = append(rest, comb)
			}
		}
		rows = dedupe(rest)
		if len(rows) > 4000 {
			return false // give up: not proved
		}
	}
	return false
}

func dedupe(rows []Lin) []Lin {
	seen := map[string]bool{}
	var out []Lin
	for _, r := range rows {
		// normalise by the gcd-free leading coefficient: scale so the smallest atom has |coef| = 1
		n := normalise(r)
		k := rowKey(n)
		if !seen[k] {
			seen[k] = true
			out = append(out, n)
		}
	}
	return out
}

func normalise(r Lin) Lin {
	if len(r.C) == 0 {
		return r
	}
	var as []string
	for a := range r.C {
		as = append(as, a)
	}
	sort.Strings(as)
	c := new(big.Rat).Abs(r.C[as[0]])
	if c.Sign() == 0 {
		return r
	}
	return r.scale(new(big.Rat).Inv(c))
}

// entails: facts ⊢ goal >= 0 (over the integers: refute goal <= -1).
func entails(facts []Fact, goal Lin) bool {
	var rows []Lin
	for _, f := range facts {
		rows = append(rows, f.E)
	}
	rows = append(rows, goal.neg().addK(-1))
	return infeasible(rows)
}

func factsString(fs []Fact) string {
	var s []string
	for _, f := range fs {
		s = append(s, f.String())
	}
	return strings.Join(s, "; ")
}

var _ = fmt.Sprint
