package main

import (
	"encoding/json"
	"flag"
	"fmt"
	"os"
	"path/filepath"
	"sort"
	"strings"

	"golang.org/x/tools/go/ssa"
)

type propFn func(r *Run, w *World)

var props = map[string]propFn{}

var quickArches = []string{"amd64"}
var thoroughArches = []string{"amd64", "386", "arm", "arm64", "ppc64le", "s390x"}

func main() {
	if len(os.Args) > 1 && os.Args[1] == "dump" {
		dumpMain(os.Args[2:])
		return
	}
	if len(os.Args) > 1 && os.Args[1] == "knownfuncs" {
		// prints the reference list of declared functions (ref/known_funcs.json)
		noSrcInline = true
		w, err := Load(repoDir(), "amd64")
		if err != nil {
			fmt.Fprintln(os.Stderr, err)
			os.Exit(2)
		}
		all := map[string]string{}
		for _, a := range thoroughArches {
			ww := w
			if a != "amd64" {
				if ww, err = Load(repoDir(), a); err != nil {
					fmt.Fprintln(os.Stderr, err)
					os.Exit(2)
				}
			}
			for k, sig := range declaredFuncs(ww.All) {
				all[k] = sig
			}
		}
		b, _ := json.MarshalIndent(all, "", " ")
		fmt.Println(string(b))
		return
	}
	if len(os.Args) > 1 && os.Args[1] == "knowntypes" {
		// prints the reference description of named types (ref/known_types.json)
		noSrcInline = true
		all := map[string]refType{}
		for _, a := range thoroughArches {
			ww, err := Load(repoDir(), a)
			if err != nil {
				fmt.Fprintln(os.Stderr, err)
				os.Exit(2)
			}
			for k, v := range declaredTypes(ww.All) {
				all[k] = v
			}
		}
		b, _ := json.MarshalIndent(all, "", " ")
		fmt.Println(string(b))
		return
	}
	if len(os.Args) > 1 && os.Args[1] == "manifest" {
		manifestMain()
		return
	}
	if len(os.Args) > 1 && os.Args[1] == "fixtures" {
		os.Exit(fixturesMain())
	}
	if len(os.Args) > 1 && os.Args[1] == "selftest" {
		os.Exit(selftestMain(os.Args[2:]))
	}
	prop := flag.String("prop", "", "property id (C01..C20)")
	tier := flag.String("tier", "quick", "quick|thorough")
	explain := flag.String("explain", "", "violation report to re-run and explain")
	out := flag.String("out", filepath.Join(verifDir(), "evidence"), "evidence directory")
	flag.Parse()
	if *explain != "" {
		os.Exit(explainMain(*explain))
	}
	if t := os.Getenv("VERIF_TIER"); t != "" && !flagSet("tier") {
		*tier = t
	}
	fn, ok := props[*prop]
	if !ok {
		fmt.Fprintf(os.Stderr, "vcheck: unknown property %q\n", *prop)
		os.Exit(2)
	}
	os.Exit(runProp(*prop, *tier, *out, fn, false))
}

func flagSet(name string) bool {
	set := false
	flag.Visit(func(f *flag.Flag) {
		if f.Name == name {
			set = true
		}
	})
	return set
}

func runProp(prop, tier, out string, fn propFn, quiet bool) int {
	r := NewRun(prop, tier)
	arches := quickArches
	if tier == "thorough" {
		arches = thoroughArches
	}
	for _, a := range arches {
		w, err := Load(repoDir(), a)
		if err != nil {
			fmt.Fprintf(os.Stderr, "vcheck: cannot analyse %s for GOARCH=%s: %v\n", repoDir(), a, err)
			return 2
		}
		r.W = w
		r.Arches = append(r.Arches, a)
		if a == arches[0] {
			for _, n := range w.Inlined {
				r.Notes = append(r.Notes, "normalisation: "+n)
			}
		}
		func() {
			defer func() {
				if e := recover(); e != nil {
					r.Rule(prop+".internal", "the checker itself must not fail", 0)
					r.Undecided("checker panic", 0, fmt.Sprint(e))
					if os.Getenv("VCHECK_DEBUG") != "" {
						panic(e)
					}
				}
			}()
			fn(r, w)
		}()
	}
	if tier == "thorough" {
		thoroughExtras(r)
	}
	return r.Finish(out, quiet)
}

// thoroughExtras is filled in by thorough.go.
var thoroughExtras = func(r *Run) {}

func dumpMain(args []string) {
	fs := flag.NewFlagSet("dump", flag.ExitOnError)
	arch := fs.String("arch", "amd64", "GOARCH")
	paths := fs.Bool("paths", false, "enumerate paths")
	max := fs.Int("max", 1, "max visits per block")
	fs.Parse(args)
	w, err := Load(repoDir(), *arch)
	if err != nil {
		fmt.Fprintln(os.Stderr, err)
		os.Exit(2)
	}
	for _, f := range w.SrcFuncs() {
		name := fnName(f)
		match := false
		for _, a := range fs.Args() {
			if strings.Contains(name, a) {
				match = true
			}
		}
		if !match {
			continue
		}
		fmt.Printf("=== %s  (%s)\n", name, w.Pos(f.Pos()))
		for _, b := range f.Blocks {
			var gl []string
			gl = append(gl, GuardLits(b)...)
			sort.Strings(gl)
			fmt.Printf(" b%d preds=%v succs=%v guards=%v\n", b.Index, idx(b.Preds), idx(b.Succs), gl)
			for _, e := range blockEvents(b) {
				fmt.Printf("     %s\n", e)
			}
			if ifi, ok := b.Instrs[len(b.Instrs)-1].(*ssa.If); ok {
				fmt.Printf("     IF %s\n", Lit(ifi.Cond, true))
			}
		}
		if *paths {
			ps, complete := Paths(f, PathOpts{MaxVisit: *max})
			fmt.Printf(" paths=%d complete=%v\n", len(ps), complete)
			for _, p := range ps {
				fmt.Printf("  [%s] %s\n", p.End, describePath(p))
			}
		}
	}
}

func idx(bs []*ssa.BasicBlock) []int {
	var out []int
	for _, b := range bs {
		out = append(out, b.Index)
	}
	return out
}

func explainMain(path string) int {
	b, err := os.ReadFile(path)
	if err != nil {
		fmt.Fprintln(os.Stderr, err)
		return 2
	}
	fmt.Println(string(b))
	return 0
}
