package main

// Source-level normalisation: statement-level inlining of *new* unexported helpers.
//
// The rules read conditions and effects off the functions that existed when they were written
// (ref/known_funcs.json lists them). A maintainer who extracts part of such a function into a
// new helper, splits it in two, or merges duplicated code of several of them into one helper
// does not change behaviour, but the effect the rule looks for is now one call away. Before
// analysis every call to a function that is NOT in the reference list, is unexported, lives in
// the same package and appears in a statement position where hoisting it is trivially
// semantics-preserving is replaced by the callee's body:
//
//	x, err := h(a, b)          var r1 T; var r2 error
//	                      ⇒    { var a1 A = a; var a2 B = b
//	                             { p, q := a1, a2; L: for { <body, `return e,f` ⇒ `r1, r2 = e, f; break L`>; break L } } }
//	                           x, err := r1, r2
//
// Arguments are evaluated once, in order, into fresh variables; the callee's own parameter
// names are then bound in an inner block, so neither side can capture the other's names; a
// callee whose free identifiers (package-level objects, imports, universe) would resolve
// differently at the call site is left alone, as is any callee with defer, recover, labels,
// goto, variadic or generic parameters, or direct recursion. /*line*/ directives keep every
// token's reported position at its place in the real source, so reports still name
// /repo's file:line. The rewritten files exist only as a go/packages overlay in memory; if
// they fail to type-check the round is dropped and the analysis runs on what it had.
//
// After the last round a helper that has no remaining reference is dead in the normalised
// program and is left out of the analysed function set (its code is analysed in each caller).

import (
	"bytes"
	"encoding/json"
	"fmt"
	"go/ast"
	"go/token"
	"go/types"
	"os"
	"path/filepath"
	"sort"
	"strings"

	"golang.org/x/tools/go/packages"
	"golang.org/x/tools/go/types/typeutil"
)

var noSrcInline = os.Getenv("VCHECK_NO_SRCINLINE") != ""

// funcKey names a declared function independently of positions: pkgpath.Recv.Name.
func funcKey(f *types.Func) string {
	sig, _ := f.Type().(*types.Signature)
	recv := ""
	if sig != nil && sig.Recv() != nil {
		t := sig.Recv().Type()
		if p, ok := t.(*types.Pointer); ok {
			t = p.Elem()
		}
		if n, ok := types.Unalias(t).(*types.Named); ok {
			recv = n.Obj().Name() + "."
			if cn, renamed := canonType[n.Obj()]; renamed {
				recv = cn + "."
			}
		}
	}
	pkg := ""
	if f.Pkg() != nil {
		pkg = f.Pkg().Path()
	}
	return pkg + "." + recv + funcObjName(f)
}

var knownFuncsCache map[string]string

// knownFuncs loads the reference list of functions the rules were written against
// (key → signature).
func knownFuncs() map[string]string {
	if knownFuncsCache != nil {
		return knownFuncsCache
	}
	knownFuncsCache = map[string]string{}
	b, err := os.ReadFile(filepath.Join(verifDir(), "ref", "known_funcs.json"))
	if err != nil {
		return knownFuncsCache
	}
	json.Unmarshal(b, &knownFuncsCache)
	return knownFuncsCache
}

func sigString(f *types.Func) string {
	sig := f.Type().(*types.Signature)
	anon := func(t *types.Tuple) *types.Tuple {
		var vs []*types.Var
		for i := 0; i < t.Len(); i++ {
			vs = append(vs, types.NewVar(token.NoPos, nil, "", t.At(i).Type()))
		}
		return types.NewTuple(vs...)
	}
	return types.TypeString(types.NewSignatureType(nil, nil, nil, anon(sig.Params()), anon(sig.Results()), sig.Variadic()), func(p *types.Package) string { return p.Path() })
}

func recvKey(f *types.Func) string {
	k := funcKey(f)
	return k[:len(k)-len(f.Name())]
}

// declaredFuncs maps the key of every function declared in the analysed packages to its signature.
func declaredFuncs(pkgs []*packages.Package) map[string]string {
	out := map[string]string{}
	for _, p := range pkgs {
		for _, f := range p.Syntax {
			for _, d := range f.Decls {
				if fd, ok := d.(*ast.FuncDecl); ok {
					if obj, ok := p.TypesInfo.Defs[fd.Name].(*types.Func); ok {
						out[funcKey(obj)] = sigString(obj)
					}
				}
			}
		}
	}
	return out
}

// knownPredicate: a function is known when the reference list names it, or when it is the
// plausible new name of a listed function that no longer exists (same package and receiver,
// same signature) — a renamed function keeps its role and must stay a function for the rules
// to anchor on.
func knownPredicate(pkgs []*packages.Package) func(*types.Func) bool {
	kf := knownFuncs()
	if len(kf) == 0 {
		return func(*types.Func) bool { return true }
	}
	declared := declaredFuncs(pkgs)
	missing := map[string][]string{} // receiver prefix + signature → missing known names
	for k, sig := range kf {
		if _, ok := declared[k]; !ok {
			i := strings.LastIndex(k, ".")
			missing[k[:i+1]+"|"+sig] = append(missing[k[:i+1]+"|"+sig], k)
		}
	}
	return func(f *types.Func) bool {
		if _, ok := kf[funcKey(f)]; ok {
			return true
		}
		return len(missing[recvKey(f)+"|"+sigString(f)]) > 0
	}
}

type funcSrc struct {
	sig *types.Signature // for a local closure (decl is synthesised from the literal)
	lit *ast.FuncLit
	// for a local closure: the variable and the end of the statement that defines it (a blank
	// use is added there, because after inlining the variable may have no use left)
	cvar   *types.Var
	defEnd token.Pos
	decl   *ast.FuncDecl
	pkg    *packages.Package
	file   string
	ok     int // 0 unknown, 1 eligible, 2 not
}

type inlineGroup struct {
	imports    map[string]string // import path → alias needed in the file
	file       string
	start, end int // span of the statement in the file (offsets)
	edits      []srcEdit
	note       string
}

type srcEdit struct {
	off, end int
	text     string
}

type inliner struct {
	fset    *token.FileSet
	pkgs    []*packages.Package
	overlay map[string][]byte
	known   func(*types.Func) bool
	decls   map[*types.Func]*funcSrc
	srcs    map[string][]byte
	round   int
	counter int
	// imports already added to a file ("file|path"), across rounds
	importsAdded map[string]bool
	// requireSingle: the call being tried stands where exactly one value is needed
	requireSingle bool
	closureCache  map[*types.Var]*funcSrc
	closureBad    map[*types.Var]bool
}

func (il *inliner) src(file string) []byte {
	if b, ok := il.srcs[file]; ok {
		return b
	}
	b, ok := il.overlay[file]
	if !ok {
		b, _ = os.ReadFile(file)
	}
	il.srcs[file] = b
	return b
}

func (il *inliner) off(p token.Pos) int { return il.fset.PositionFor(p, false).Offset }

func (il *inliner) text(file string, from, to token.Pos) string {
	b := il.src(file)
	a, z := il.off(from), il.off(to)
	if a < 0 || z > len(b) || a > z {
		return ""
	}
	return string(b[a:z])
}

// lineDir renders a directive that gives the following character the (adjusted) position of p.
func (il *inliner) lineDir(p token.Pos) string {
	pp := il.fset.Position(p)
	return fmt.Sprintf("/*line %s:%d:%d*/", pp.Filename, pp.Line, pp.Column)
}

// planRound computes one round of inlining edits; returns the number of calls inlined and notes.
func (il *inliner) planRound() (int, []string) {
	il.decls = map[*types.Func]*funcSrc{}
	il.srcs = map[string][]byte{}
	for _, p := range il.pkgs {
		for i, f := range p.Syntax {
			file := p.CompiledGoFiles[i]
			for _, d := range f.Decls {
				if fd, ok := d.(*ast.FuncDecl); ok && fd.Body != nil {
					if obj, ok := p.TypesInfo.Defs[fd.Name].(*types.Func); ok {
						il.decls[obj] = &funcSrc{decl: fd, pkg: p, file: file}
					}
				}
			}
		}
	}
	var groups []inlineGroup
	for _, p := range il.pkgs {
		for i, f := range p.Syntax {
			file := p.CompiledGoFiles[i]
			ast.Inspect(f, func(n ast.Node) bool {
				var list []ast.Stmt
				switch x := n.(type) {
				case *ast.BlockStmt:
					list = x.List
				case *ast.CaseClause:
					list = x.Body
				case *ast.CommClause:
					list = x.Body
				}
				for _, s := range list {
					if g, ok := il.tryStmt(p, file, s); ok {
						groups = append(groups, g)
					} else if g, ok := il.tryUnroll(p, file, s); ok {
						groups = append(groups, g)
					}
				}
				return true
			})
		}
	}
	// keep non-overlapping groups, outermost first
	sort.Slice(groups, func(i, j int) bool {
		if groups[i].file != groups[j].file {
			return groups[i].file < groups[j].file
		}
		if groups[i].start != groups[j].start {
			return groups[i].start < groups[j].start
		}
		return groups[i].end > groups[j].end
	})
	var kept []inlineGroup
	for _, g := range groups {
		overlap := false
		for _, k := range kept {
			if k.file == g.file && g.start < k.end && k.start < g.end {
				overlap = true
			}
		}
		if !overlap {
			kept = append(kept, g)
		}
	}
	byFile := map[string][]srcEdit{}
	var notes []string
	for _, g := range kept {
		byFile[g.file] = append(byFile[g.file], g.edits...)
		notes = append(notes, g.note)
	}
	// imports needed by inlined bodies whose package names are shadowed at the call site
	for _, g := range kept {
		for path, alias := range g.imports {
			key := g.file + "|" + path
			if il.importsAdded[key] {
				continue
			}
			il.importsAdded[key] = true
			for _, p := range il.pkgs {
				for i, f := range p.Syntax {
					if p.CompiledGoFiles[i] == g.file {
						if alias == "\x00keep" {
							var name string
							var at int
							fmt.Sscanf(path, "keep %s", &name)
							if i := strings.LastIndex(path, "@"); i >= 0 {
								fmt.Sscanf(path[i+1:], "%d", &at)
								name = path[len("keep "):i]
							}
							byFile[g.file] = append(byFile[g.file], srcEdit{off: at, end: at, text: "; _ = " + name})
							continue
						}
						if alias == "" {
							// a type / constant alias declaration, appended to the file
							at := len(il.src(g.file))
							byFile[g.file] = append(byFile[g.file], srcEdit{off: at, end: at, text: "\n" + path + "\n"})
							continue
						}
						at := il.off(f.Name.End())
						byFile[g.file] = append(byFile[g.file], srcEdit{off: at, end: at, text: fmt.Sprintf("; import %s %q", alias, path)})
					}
				}
			}
		}
	}
	for file, eds := range byFile {
		sort.SliceStable(eds, func(i, j int) bool {
			if eds[i].off != eds[j].off {
				return eds[i].off > eds[j].off
			}
			return eds[i].end > eds[j].end // a replacement starting where a prelude is inserted is applied first
		})
		b := append([]byte{}, il.src(file)...)
		for _, e := range eds {
			b = append(b[:e.off:e.off], append([]byte(e.text), b[e.end:]...)...)
		}
		il.overlay[file] = b
	}
	return len(kept), notes
}

// callIn finds the call a statement is allowed to have hoisted, and reports whether the
// statement ignores the results (expression statement).
func callIn(s ast.Stmt) (call *ast.CallExpr, isExprStmt bool) {
	asCall := func(e ast.Expr) *ast.CallExpr {
		for {
			switch x := e.(type) {
			case *ast.ParenExpr:
				e = x.X
				continue
			case *ast.UnaryExpr:
				if x.Op == token.NOT {
					e = x.X
					continue
				}
			case *ast.CallExpr:
				return x
			}
			return nil
		}
	}
	plainCall := func(e ast.Expr) *ast.CallExpr {
		c, _ := e.(*ast.CallExpr)
		return c
	}
	noCalls := func(es []ast.Expr) bool {
		ok := true
		for _, e := range es {
			ast.Inspect(e, func(n ast.Node) bool {
				switch n.(type) {
				case *ast.CallExpr, *ast.FuncLit, *ast.UnaryExpr:
					if u, isU := n.(*ast.UnaryExpr); isU && u.Op != token.ARROW {
						return true
					}
					ok = false
				}
				return ok
			})
		}
		return ok
	}
	fromAssign := func(a *ast.AssignStmt) *ast.CallExpr {
		if len(a.Rhs) != 1 || !noCalls(a.Lhs) {
			return nil
		}
		return plainCall(a.Rhs[0])
	}
	switch x := s.(type) {
	case *ast.ExprStmt:
		return plainCall(x.X), true
	case *ast.AssignStmt:
		return fromAssign(x), false
	case *ast.ReturnStmt:
		if len(x.Results) == 1 {
			return plainCall(x.Results[0]), false
		}
		// `return h(x), nil`: one call among operands that evaluate nothing else
		var only *ast.CallExpr
		for i, e := range x.Results {
			if c := plainCall(e); c != nil {
				rest := append(append([]ast.Expr{}, x.Results[:i]...), x.Results[i+1:]...)
				if only == nil && noCalls(rest) {
					only = c
				}
			}
		}
		return only, false
	case *ast.IfStmt:
		if x.Init != nil {
			if a, ok := x.Init.(*ast.AssignStmt); ok {
				return fromAssign(a), false
			}
			return nil, false
		}
		return asCall(x.Cond), false
	case *ast.SwitchStmt:
		if x.Init != nil {
			if a, ok := x.Init.(*ast.AssignStmt); ok {
				return fromAssign(a), false
			}
			return nil, false
		}
		if x.Tag != nil {
			return plainCall(x.Tag), false
		}
	case *ast.RangeStmt:
		return plainCall(x.X), false
	case *ast.DeclStmt:
		if gd, ok := x.Decl.(*ast.GenDecl); ok && gd.Tok == token.VAR && len(gd.Specs) == 1 {
			if vs, ok := gd.Specs[0].(*ast.ValueSpec); ok && len(vs.Values) == 1 {
				return plainCall(vs.Values[0]), false
			}
		}
	}
	return nil, false
}

func (il *inliner) eligible(fs *funcSrc, self *types.Func) bool {
	if fs.ok != 0 {
		return fs.ok == 1
	}
	fs.ok = 2
	fd := fs.decl
	sig := fs.sig
	if self != nil {
		sig = self.Type().(*types.Signature)
	}
	if sig == nil {
		return false
	}
	if sig.Variadic() || sig.RecvTypeParams() != nil {
		return false
	}
	// a generic function is inlined with its type parameters replaced by the type arguments
	// of the call (tryCall); it must not hand its type parameters on to something that needs
	// them by name (a nested generic call is fine: the arguments are then concrete types)
	// every parameter named or blank consistently (unnamed parameters cannot be bound)
	for _, f := range fd.Type.Params.List {
		if len(f.Names) == 0 {
			return false
		}
	}
	if fd.Type.Results != nil {
		named, unnamed := 0, 0
		for _, f := range fd.Type.Results.List {
			if len(f.Names) == 0 {
				unnamed++
			} else {
				named++
			}
		}
		if named > 0 && unnamed > 0 {
			return false
		}
	}
	bad := false
	ast.Inspect(fd.Body, func(n ast.Node) bool {
		switch x := n.(type) {
		case *ast.DeferStmt, *ast.LabeledStmt:
			bad = true
		case *ast.BranchStmt:
			if x.Tok == token.GOTO || x.Label != nil {
				bad = true
			}
		case *ast.CallExpr:
			if id, ok := x.Fun.(*ast.Ident); ok && id.Name == "recover" {
				bad = true
			}
			if callee := typeutil.StaticCallee(fs.pkg.TypesInfo, x); self != nil && callee != nil && callee.Origin() == self {
				bad = true
			}
		}
		return !bad
	})
	if bad {
		return false
	}
	fs.ok = 1
	return true
}

// hygienic: every identifier of the callee's declaration that refers to a package-level
// object, an import or a universe object resolves to the same thing at the call site.
func (il *inliner) hygienic(fs *funcSrc, caller *packages.Package, at token.Pos) (bool, map[token.Pos]string, map[string]string) {
	inner := caller.Types.Scope().Innermost(at)
	if inner == nil {
		return false, nil, nil
	}
	ok := true
	repl := map[token.Pos]string{} // identifier position in the callee → replacement name
	imports := map[string]string{} // import path → alias to add to the caller's file
	var check func(n ast.Node)
	check = func(n ast.Node) {
		if n == nil {
			return
		}
		ast.Inspect(n, func(m ast.Node) bool {
			if sel, isSel := m.(*ast.SelectorExpr); isSel {
				check(sel.X) // the selected name is resolved through X, not through the scope
				return false
			}
			id, isID := m.(*ast.Ident)
			if !isID || !ok {
				return ok
			}
			obj := fs.pkg.TypesInfo.Uses[id]
			if obj == nil {
				return true
			}
			pn, isPkgName := obj.(*types.PkgName)
			if !(isPkgName || obj.Parent() == types.Universe || (obj.Pkg() != nil && obj.Parent() == obj.Pkg().Scope())) {
				return true
			}
			_, found := inner.LookupParent(id.Name, at)
			if isPkgName {
				fp, isP := found.(*types.PkgName)
				if !isP || fp.Imported().Path() != pn.Imported().Path() {
					// the import is shadowed (or named differently) at the call site: refer to
					// the package through a fresh alias added to the caller's file
					alias := "pkg__" + sanitizeIdent(pn.Imported().Path())
					repl[id.Pos()] = alias
					imports[pn.Imported().Path()] = alias
				}
			} else if found != obj {
				// a package-level type or constant shadowed at the call site is reached through
				// an alias declared at the end of the caller's file (an alias denotes the same
				// type / the same constant value); anything else cannot be referred to
				switch obj.(type) {
				case *types.TypeName:
					if obj.Parent() == obj.Pkg().Scope() {
						alias := "typ__" + obj.Name()
						repl[id.Pos()] = alias
						imports["type "+alias+" = "+obj.Name()] = ""
						return ok
					}
				case *types.Const:
					if obj.Parent() == obj.Pkg().Scope() {
						alias := "cst__" + obj.Name()
						repl[id.Pos()] = alias
						imports["const "+alias+" = "+obj.Name()] = ""
						return ok
					}
				}
				ok = false
			}
			return ok
		})
	}
	if fs.decl.Recv != nil {
		check(fs.decl.Recv)
	}
	check(fs.decl.Type)
	check(fs.decl.Body)
	return ok, repl, imports
}

func sanitizeIdent(s string) string {
	var b strings.Builder
	for _, c := range s {
		if (c >= 'a' && c <= 'z') || (c >= 'A' && c <= 'Z') || (c >= '0' && c <= '9') {
			b.WriteRune(c)
		} else {
			b.WriteByte('_')
		}
	}
	return b.String()
}

// calleeText copies the callee's source between two positions with shadowed import names
// replaced by their aliases.
func (il *inliner) calleeText(fs *funcSrc, from, to token.Pos, repl map[token.Pos]string) string {
	text := []byte(il.text(fs.file, from, to))
	if len(repl) == 0 {
		return string(text)
	}
	base := il.off(from)
	type red struct {
		off, end int
		text     string
	}
	var reds []red
	ast.Inspect(fs.decl, func(n ast.Node) bool {
		if id, ok := n.(*ast.Ident); ok {
			if r, ok := repl[id.Pos()]; ok && id.Pos() >= from && id.End() <= to {
				reds = append(reds, red{il.off(id.Pos()) - base, il.off(id.End()) - base, r + il.lineDir(id.End())})
			}
		}
		return true
	})
	sort.Slice(reds, func(i, j int) bool { return reds[i].off > reds[j].off })
	for _, r := range reds {
		text = append(text[:r.off:r.off], append([]byte(r.text), text[r.end:]...)...)
	}
	return string(text)
}

func (il *inliner) tryStmt(p *packages.Package, file string, s ast.Stmt) (inlineGroup, bool) {
	top, isExprStmt := callIn(s)
	if top == nil {
		return inlineGroup{}, false
	}
	// `h(a).M(b)`: the receiver expression is evaluated before anything else in the statement,
	// so a helper call there (innermost first) can be hoisted as well
	var chain []*ast.CallExpr
	for c := top; c != nil; {
		chain = append([]*ast.CallExpr{c}, chain...)
		sel, ok := c.Fun.(*ast.SelectorExpr)
		if !ok {
			break
		}
		x := sel.X
		for {
			if pe, isP := x.(*ast.ParenExpr); isP {
				x = pe.X
				continue
			}
			break
		}
		c, _ = x.(*ast.CallExpr)
	}
	for _, c := range chain {
		il.requireSingle = c != top
		if g, ok := il.tryCall(p, file, s, c, isExprStmt && c == top); ok {
			return g, true
		}
	}
	// `x.Send(h(a))`: a helper call that is an argument of the statement's call, when nothing
	// evaluated before it is a call (the function value and the earlier arguments only read
	// variables): it is then the first call the statement makes, and Go leaves the order of
	// variable reads relative to calls unspecified, so evaluating it just before the statement
	// is one of the permitted orders
	pure := func(e ast.Expr) bool {
		ok := true
		ast.Inspect(e, func(n ast.Node) bool {
			switch x := n.(type) {
			case *ast.CallExpr, *ast.FuncLit:
				ok = false
			case *ast.UnaryExpr:
				if x.Op == token.ARROW {
					ok = false
				}
			}
			return ok
		})
		return ok
	}
	// generally: the first call the statement evaluates (operands left to right, inner before
	// outer), when it is not evaluated conditionally (right operand of && or ||), can be
	// evaluated just before the statement
	if first := il.firstCall(p, s); first != nil && first != top {
		il.requireSingle = true
		if g, ok := il.tryCall(p, file, s, first, false); ok {
			return g, true
		}
	}
	if len(chain) == 1 && pure(top.Fun) {
		for _, a := range top.Args {
			x := a
			for {
				if pe, isP := x.(*ast.ParenExpr); isP {
					x = pe.X
					continue
				}
				break
			}
			if c2, isCall := x.(*ast.CallExpr); isCall {
				il.requireSingle = true
				if g, ok := il.tryCall(p, file, s, c2, false); ok {
					return g, true
				}
				break
			}
			if !pure(a) {
				break
			}
		}
	}
	return inlineGroup{}, false
}

func (il *inliner) tryCall(p *packages.Package, file string, s ast.Stmt, call *ast.CallExpr, isExprStmt bool) (inlineGroup, bool) {
	var g inlineGroup
	var fs *funcSrc
	var sig *types.Signature
	calleeName := ""
	callee := typeutil.StaticCallee(p.TypesInfo, call)
	if callee == nil {
		// a call of a local variable that holds one function literal for its whole life
		fs = il.localClosure(p, file, call)
		if fs == nil {
			return g, false
		}
		sig = fs.sig
		calleeName = "local closure " + call.Fun.(*ast.Ident).Name
	} else {
		callee = callee.Origin()
		if callee.Pkg() != p.Types || callee.Exported() || il.known(callee) {
			return g, false
		}
		calleeName = funcKey(callee)
		fs = il.decls[callee]
	}
	dbg := func(why string) {
		if os.Getenv("VCHECK_INLINE_DEBUG") != "" {
			fmt.Fprintf(os.Stderr, "inline: %s not inlined at %s: %s\n", calleeName, il.fset.Position(call.Pos()), why)
		}
	}
	if fs == nil || !il.eligible(fs, callee) {
		dbg("callee not eligible (defer/recover/labels/variadic/generic/recursive/unnamed parameters)")
		return g, false
	}
	if callee != nil {
		sig = callee.Type().(*types.Signature)
	}
	if len(call.Args) != sig.Params().Len() || call.Ellipsis.IsValid() {
		return g, false
	}
	// receiver
	recvText := ""
	if sig.Recv() != nil {
		sel, ok := call.Fun.(*ast.SelectorExpr)
		if !ok {
			return g, false
		}
		selection := p.TypesInfo.Selections[sel]
		if selection == nil || selection.Kind() != types.MethodVal || len(selection.Index()) != 1 {
			return g, false
		}
		xt := p.TypesInfo.TypeOf(sel.X)
		if xt == nil {
			return g, false
		}
		_, recvPtr := sig.Recv().Type().(*types.Pointer)
		_, xPtr := xt.Underlying().(*types.Pointer)
		recvText = il.text(file, sel.X.Pos(), sel.X.End())
		switch {
		case recvPtr && !xPtr:
			recvText = "&(" + recvText + ")"
		case !recvPtr && xPtr:
			recvText = "*(" + recvText + ")"
		}
	} else {
		switch call.Fun.(type) {
		case *ast.Ident:
		default:
			return g, false
		}
	}
	var hyg bool
	var repl map[token.Pos]string
	var imports map[string]string
	if fs.lit != nil {
		hyg = il.closureHygienic(fs, p, call.Pos())
	} else {
		hyg, repl, imports = il.hygienic(fs, p, call.Pos())
	}
	if !hyg {
		dbg("an identifier of the callee resolves differently at the call site")
		return g, false
	}
	if sig.TypeParams() != nil && sig.TypeParams().Len() > 0 {
		if fs.lit != nil {
			return g, false
		}
		fid, isID := call.Fun.(*ast.Ident)
		if !isID {
			dbg("explicitly instantiated generic call")
			return g, false
		}
		inst, has := p.TypesInfo.Instances[fid]
		if !has || inst.TypeArgs == nil || inst.TypeArgs.Len() != sig.TypeParams().Len() {
			dbg("no type arguments recorded for the generic call")
			return g, false
		}
		if repl == nil {
			repl = map[token.Pos]string{}
		}
		if imports == nil {
			imports = map[string]string{}
		}
		// the names packages have in the caller's file
		local := map[*types.Package]string{}
		for sc := p.Types.Scope().Innermost(call.Pos()); sc != nil; sc = sc.Parent() {
			for _, n := range sc.Names() {
				if pn, isPN := sc.Lookup(n).(*types.PkgName); isPN {
					if _, dup := local[pn.Imported()]; !dup {
						_, fo := p.Types.Scope().Innermost(call.Pos()).LookupParent(n, call.Pos())
						if found, _ := fo.(*types.PkgName); found == pn {
							local[pn.Imported()] = n
						}
					}
				}
			}
		}
		qual := func(other *types.Package) string {
			if other == p.Types {
				return ""
			}
			if n, ok := local[other]; ok {
				return n
			}
			alias := "pkg__" + sanitizeIdent(other.Path())
			imports[other.Path()] = alias
			return alias
		}
		args := map[*types.TypeParam]string{}
		okArgs := true
		for i := 0; i < sig.TypeParams().Len(); i++ {
			ta := inst.TypeArgs.At(i)
			// a type argument that is itself a type parameter (the caller is generic) or a local
			// type cannot be written down here
			bad := false
			var walk func(t types.Type, depth int)
			walk = func(t types.Type, depth int) {
				if depth > 6 {
					bad = true
					return
				}
				switch x := t.(type) {
				case *types.TypeParam:
					bad = true
				case *types.Named:
					if x.Obj().Pkg() != nil && x.Obj().Parent() != x.Obj().Pkg().Scope() {
						bad = true
					}
					if x.TypeArgs() != nil {
						for j := 0; j < x.TypeArgs().Len(); j++ {
							walk(x.TypeArgs().At(j), depth+1)
						}
					}
				case *types.Pointer:
					walk(x.Elem(), depth+1)
				case *types.Slice:
					walk(x.Elem(), depth+1)
				case *types.Array:
					walk(x.Elem(), depth+1)
				case *types.Map:
					walk(x.Key(), depth+1)
					walk(x.Elem(), depth+1)
				case *types.Chan:
					walk(x.Elem(), depth+1)
				case *types.Basic:
				default:
					bad = true // struct, interface, func literals types: keep it simple
				}
			}
			walk(ta, 0)
			if bad {
				okArgs = false
				break
			}
			args[sig.TypeParams().At(i)] = types.TypeString(ta, qual)
		}
		if !okArgs {
			dbg("a type argument cannot be written at the call site")
			return g, false
		}
		ast.Inspect(fs.decl, func(n ast.Node) bool {
			id, isID := n.(*ast.Ident)
			if !isID {
				return true
			}
			if tn, isTN := fs.pkg.TypesInfo.Uses[id].(*types.TypeName); isTN {
				if tp, isTP := tn.Type().(*types.TypeParam); isTP {
					if txt, has := args[tp]; has {
						repl[id.Pos()] = txt
					}
				}
			}
			return true
		})
	}
	g.imports = imports
	if fs.lit != nil {
		if g.imports == nil {
			g.imports = map[string]string{}
		}
		// marker understood by planRound: keep the closure variable used
		g.imports[fmt.Sprintf("keep %s@%d", fs.cvar.Name(), il.off(fs.defEnd))] = "\x00keep"
	}
	il.counter++
	id := fmt.Sprintf("%d_%d", il.round, il.counter)
	fd := fs.decl
	var b strings.Builder
	// result variables (visible to the rewritten statement)
	var resVars, resTypes, resNames []string
	if fd.Type.Results != nil {
		for _, f := range fd.Type.Results.List {
			t := il.calleeText(fs, f.Type.Pos(), f.Type.End(), repl)
			n := len(f.Names)
			if n == 0 {
				n = 1
			}
			for k := 0; k < n; k++ {
				resVars = append(resVars, fmt.Sprintf("r__%s_%d", id, len(resVars)))
				resTypes = append(resTypes, t)
				if len(f.Names) > 0 {
					resNames = append(resNames, f.Names[k].Name)
				}
			}
		}
	}
	for i, v := range resVars {
		fmt.Fprintf(&b, "var %s %s; ", v, resTypes[i])
	}
	if isExprStmt {
		for _, v := range resVars {
			fmt.Fprintf(&b, "_ = %s; ", v)
		}
	}
	b.WriteString("{ ")
	// arguments, evaluated once in the caller's scope
	var inner, outer []string
	if sig.Recv() != nil {
		rf := fd.Recv.List[0]
		rt := il.calleeText(fs, rf.Type.Pos(), rf.Type.End(), repl)
		av := fmt.Sprintf("a__%s_r", id)
		fmt.Fprintf(&b, "var %s %s = %s; _ = %s; ", av, rt, recvText, av)
		if len(rf.Names) == 1 && rf.Names[0].Name != "_" {
			inner = append(inner, rf.Names[0].Name)
			outer = append(outer, av)
		}
	}
	ai := 0
	for _, f := range fd.Type.Params.List {
		t := il.calleeText(fs, f.Type.Pos(), f.Type.End(), repl)
		for _, nm := range f.Names {
			av := fmt.Sprintf("a__%s_%d", id, ai)
			at := il.text(file, call.Args[ai].Pos(), call.Args[ai].End())
			argExpr := call.Args[ai]
			for {
				if pe, isP := argExpr.(*ast.ParenExpr); isP {
					argExpr = pe.X
					continue
				}
				break
			}
			if _, isLit := argExpr.(*ast.FuncLit); isLit && nm.Name != "_" {
				// a function literal argument is bound directly to the parameter's name, so that a
				// later round can see it as a local closure and inline its calls too (evaluating
				// a literal has no effect, so it needs no evaluation slot of its own)
				inner = append(inner, nm.Name)
				outer = append(outer, at)
				ai++
				continue
			}
			fmt.Fprintf(&b, "var %s %s = %s; _ = %s; ", av, t, at, av)
			if nm.Name != "_" {
				inner = append(inner, nm.Name)
				outer = append(outer, av)
			}
			ai++
		}
	}
	// named results start at their zero value
	for i, nm := range resNames {
		if nm == "_" {
			continue
		}
		zv := fmt.Sprintf("z__%s_%d", id, i)
		fmt.Fprintf(&b, "var %s %s; ", zv, resTypes[i])
		inner = append(inner, nm)
		outer = append(outer, zv)
	}
	b.WriteString("{ ")
	if len(inner) > 0 {
		fmt.Fprintf(&b, "%s := %s; ", strings.Join(inner, ", "), strings.Join(outer, ", "))
		blanks := make([]string, len(inner))
		for i := range blanks {
			blanks[i] = "_"
		}
		fmt.Fprintf(&b, "%s = %s; ", strings.Join(blanks, ", "), strings.Join(inner, ", "))
	}
	label := "L__" + id
	fmt.Fprintf(&b, "%s: for { ", label)
	// body with returns rewritten
	body := il.bodyText(fs, label, resVars, resNames, repl)
	b.WriteString(il.lineDir(fd.Body.Lbrace + 1))
	b.WriteString(body)
	fmt.Fprintf(&b, "; break %s }}}; ", label)
	b.WriteString(il.lineDir(s.Pos()))
	g.file = file
	g.start, g.end = il.off(s.Pos()), il.off(s.End())
	g.edits = append(g.edits, srcEdit{off: g.start, end: g.start, text: b.String()})
	// the call itself
	cs, ce := il.off(call.Pos()), il.off(call.End())
	if rs, isRet := s.(*ast.ReturnStmt); isRet && len(rs.Results) > 1 && len(resVars) != 1 {
		return inlineGroup{}, false
	}
	if il.requireSingle && len(resVars) != 1 {
		return inlineGroup{}, false
	}
	if isExprStmt {
		g.edits = append(g.edits, srcEdit{off: cs, end: ce, text: "_ = 0" + il.lineDir(call.End())})
	} else {
		if len(resVars) == 0 {
			return inlineGroup{}, false
		}
		g.edits = append(g.edits, srcEdit{off: cs, end: ce, text: strings.Join(resVars, ", ") + il.lineDir(call.End())})
	}
	cp := il.fset.Position(call.Pos())
	g.note = fmt.Sprintf("%s inlined at %s:%d", calleeName, filepath.Base(cp.Filename), cp.Line)
	return g, true
}

// bodyText copies the callee's body (between the braces) with every return statement that
// belongs to the callee itself (not to a function literal inside it) rewritten.
func (il *inliner) bodyText(fs *funcSrc, label string, resVars, resNames []string, repl map[token.Pos]string) string {
	fd := fs.decl
	base := il.off(fd.Body.Lbrace + 1)
	text := []byte(il.text(fs.file, fd.Body.Lbrace+1, fd.Body.Rbrace))
	idRepl := repl
	type red struct {
		off, end int
		text     string
	}
	var reds []red
	var walk func(n ast.Node) bool
	walk = func(n ast.Node) bool {
		switch x := n.(type) {
		case *ast.FuncLit:
			return false
		case *ast.ReturnStmt:
			var t string
			switch {
			case len(resVars) == 0:
				t = "break " + label
			case len(x.Results) == 0:
				t = strings.Join(resVars, ", ") + " = " + strings.Join(resNames, ", ") + "; break " + label
			default:
				exprs := il.calleeText(fs, x.Results[0].Pos(), x.Results[len(x.Results)-1].End(), idRepl)
				t = strings.Join(resVars, ", ") + " = " + il.lineDir(x.Results[0].Pos()) + exprs + "; break " + label
			}
			t += il.lineDir(x.End())
			reds = append(reds, red{il.off(x.Pos()) - base, il.off(x.End()) - base, t})
			return false
		}
		return true
	}
	ast.Inspect(fd.Body, walk)
	// shadowed import names outside the rewritten returns
	ast.Inspect(fd.Body, func(n ast.Node) bool {
		if id, ok := n.(*ast.Ident); ok {
			if rn, ok := idRepl[id.Pos()]; ok {
				inRet := false
				for _, r := range reds {
					if il.off(id.Pos())-base >= r.off && il.off(id.End())-base <= r.end {
						inRet = true
					}
				}
				if !inRet {
					reds = append(reds, red{il.off(id.Pos()) - base, il.off(id.End()) - base, rn + il.lineDir(id.End())})
				}
			}
		}
		return true
	})
	sort.Slice(reds, func(i, j int) bool { return reds[i].off > reds[j].off })
	for _, r := range reds {
		text = append(text[:r.off:r.off], append([]byte(r.text), text[r.end:]...)...)
	}
	return string(bytes.TrimRight(text, " \t"))
}

// localClosure: the call's function is a local variable that is defined once by a function
// literal and is used for nothing but being called. Returns the literal as an inlinable callee.
func (il *inliner) localClosure(p *packages.Package, file string, call *ast.CallExpr) *funcSrc {
	id, ok := call.Fun.(*ast.Ident)
	if !ok {
		return nil
	}
	v, ok := p.TypesInfo.Uses[id].(*types.Var)
	if !ok || v.IsField() || v.Parent() == nil || v.Parent() == p.Types.Scope() {
		return nil
	}
	if il.closureCache == nil {
		il.closureCache = map[*types.Var]*funcSrc{}
		il.closureBad = map[*types.Var]bool{}
		for _, q := range il.pkgs {
			for i, f := range q.Syntax {
				qfile := q.CompiledGoFiles[i]
				callPos := map[*ast.Ident]bool{}
				ast.Inspect(f, func(n ast.Node) bool {
					switch x := n.(type) {
					case *ast.CallExpr:
						if fi, ok := x.Fun.(*ast.Ident); ok {
							callPos[fi] = true
						}
					case *ast.AssignStmt:
						// `_ = f` keeps a variable used without doing anything with it
						allBlank := true
						for _, l := range x.Lhs {
							if li, isID := l.(*ast.Ident); !isID || li.Name != "_" {
								allBlank = false
							}
						}
						if allBlank {
							for _, rh := range x.Rhs {
								if ri, isID := rh.(*ast.Ident); isID {
									callPos[ri] = true
								}
							}
						}
						if x.Tok == token.DEFINE && len(x.Lhs) == len(x.Rhs) {
							for k := range x.Lhs {
								li, isID := x.Lhs[k].(*ast.Ident)
								lit, isLit := x.Rhs[k].(*ast.FuncLit)
								if isID && isLit {
									if dv, ok := q.TypesInfo.Defs[li].(*types.Var); ok {
										sg, _ := q.TypesInfo.TypeOf(lit).(*types.Signature)
										il.closureCache[dv] = &funcSrc{sig: sg, lit: lit, decl: &ast.FuncDecl{Type: lit.Type, Body: lit.Body}, pkg: q, file: qfile, cvar: dv, defEnd: x.End()}
									}
								}
							}
						}
					}
					return true
				})
				for uid, obj := range q.TypesInfo.Uses {
					if uv, ok := obj.(*types.Var); ok && !callPos[uid] {
						// used as a value, assigned, or captured for something else
						if uid.Pos() >= f.Pos() && uid.End() <= f.End() {
							il.closureBad[uv] = true
						}
					}
				}
			}
		}
	}
	if il.closureBad[v] {
		return nil
	}
	fs := il.closureCache[v]
	if fs == nil || fs.file != file {
		return nil
	}
	// the literal must not call its own variable (recursion)
	rec := false
	ast.Inspect(fs.lit, func(n ast.Node) bool {
		if ci, ok := n.(*ast.Ident); ok && p.TypesInfo.Uses[ci] == types.Object(v) {
			rec = true
		}
		return !rec
	})
	if rec {
		return nil
	}
	return fs
}

// closureHygienic: every identifier of the literal that refers to something declared outside
// it resolves to the same object at the call site (nothing was shadowed in between).
func (il *inliner) closureHygienic(fs *funcSrc, p *packages.Package, at token.Pos) bool {
	inner := p.Types.Scope().Innermost(at)
	if inner == nil {
		return false
	}
	ok := true
	var check func(n ast.Node)
	check = func(n ast.Node) {
		ast.Inspect(n, func(m ast.Node) bool {
			if sel, isSel := m.(*ast.SelectorExpr); isSel {
				check(sel.X)
				return false
			}
			id, isID := m.(*ast.Ident)
			if !isID || !ok {
				return ok
			}
			obj := p.TypesInfo.Uses[id]
			if obj == nil {
				return true
			}
			if obj.Pos() >= fs.lit.Pos() && obj.Pos() <= fs.lit.End() {
				return true // declared inside the literal
			}
			if v, isVar := obj.(*types.Var); isVar && v.IsField() {
				return true
			}
			if _, found := inner.LookupParent(id.Name, at); found != obj {
				ok = false
			}
			return ok
		})
	}
	check(fs.lit.Type)
	check(fs.lit.Body)
	return ok
}

// firstCall returns the call expression that the statement evaluates first, or nil when that
// cannot be told syntactically (a call that is not a conversion or a pure builtin comes
// earlier, or the candidate sits under && / ||, in a function literal, or the statement is of a
// kind whose expressions are not evaluated exactly once before it runs).
func (il *inliner) firstCall(p *packages.Package, s ast.Stmt) *ast.CallExpr {
	var exprs []ast.Expr
	switch x := s.(type) {
	case *ast.ExprStmt:
		exprs = []ast.Expr{x.X}
	case *ast.AssignStmt:
		exprs = append(append([]ast.Expr{}, x.Lhs...), x.Rhs...)
	case *ast.ReturnStmt:
		exprs = x.Results
	case *ast.IfStmt:
		if x.Init != nil {
			return nil
		}
		exprs = []ast.Expr{x.Cond}
	case *ast.SwitchStmt:
		if x.Init != nil || x.Tag == nil {
			return nil
		}
		exprs = []ast.Expr{x.Tag}
	case *ast.RangeStmt:
		exprs = []ast.Expr{x.X}
	case *ast.DeclStmt:
		if gd, ok := x.Decl.(*ast.GenDecl); ok && gd.Tok == token.VAR && len(gd.Specs) == 1 {
			if vs, ok := gd.Specs[0].(*ast.ValueSpec); ok {
				exprs = vs.Values
			}
		}
	default:
		return nil
	}
	var found *ast.CallExpr
	blocked := false
	isPureCall := func(c *ast.CallExpr) bool {
		// conversions and len/cap evaluate nothing but their operand
		if tv, ok := p.TypesInfo.Types[c.Fun]; ok && tv.IsType() {
			return true
		}
		if id, ok := c.Fun.(*ast.Ident); ok {
			if _, isB := p.TypesInfo.Uses[id].(*types.Builtin); isB && (id.Name == "len" || id.Name == "cap") {
				return true
			}
		}
		return false
	}
	var visit func(e ast.Expr)
	visit = func(e ast.Expr) {
		if e == nil || found != nil || blocked {
			return
		}
		switch x := e.(type) {
		case *ast.ParenExpr:
			visit(x.X)
		case *ast.BinaryExpr:
			visit(x.X)
			if x.Op == token.LAND || x.Op == token.LOR {
				// the right operand is conditional: nothing in it may be hoisted, and nothing
				// after it is "first" any more
				if found == nil {
					has := false
					ast.Inspect(x.Y, func(n ast.Node) bool {
						if _, ok := n.(*ast.CallExpr); ok {
							has = true
						}
						return !has
					})
					if has {
						blocked = true
					}
				}
				return
			}
			visit(x.Y)
		case *ast.UnaryExpr:
			if x.Op == token.ARROW {
				blocked = true
				return
			}
			visit(x.X)
		case *ast.StarExpr:
			visit(x.X)
		case *ast.SelectorExpr:
			visit(x.X)
		case *ast.IndexExpr:
			visit(x.X)
			visit(x.Index)
		case *ast.SliceExpr:
			visit(x.X)
			visit(x.Low)
			visit(x.High)
			visit(x.Max)
		case *ast.TypeAssertExpr:
			visit(x.X)
		case *ast.KeyValueExpr:
			visit(x.Key)
			visit(x.Value)
		case *ast.CompositeLit:
			for _, el := range x.Elts {
				visit(el)
			}
		case *ast.CallExpr:
			// operands first: function value, then arguments
			if !isPureCall(x) {
				visit(x.Fun)
			}
			for _, a := range x.Args {
				visit(a)
			}
			if found != nil || blocked {
				return
			}
			if isPureCall(x) {
				return
			}
			found = x
		case *ast.FuncLit:
			// evaluating a literal evaluates nothing inside it
		case *ast.Ident, *ast.BasicLit:
		default:
			blocked = true
		}
	}
	for _, e := range exprs {
		visit(e)
	}
	if blocked {
		return nil
	}
	return found
}

// tryUnroll rewrites `for k, v := range [...]T{e0, e1, ...} { body }` over a short literal of
// call-free elements into one copy of the body per element, in order. A table-driven loop over
// a constant list is then the same straight-line code it replaced. `continue` leaves the
// current copy, `break` leaves them all; a body with labels or goto is left alone.
func (il *inliner) tryUnroll(p *packages.Package, file string, s ast.Stmt) (inlineGroup, bool) {
	var g inlineGroup
	rs, ok := s.(*ast.RangeStmt)
	if !ok || rs.Tok != token.DEFINE {
		return g, false
	}
	x := rs.X
	for {
		if pe, isP := x.(*ast.ParenExpr); isP {
			x = pe.X
			continue
		}
		break
	}
	lit, ok := x.(*ast.CompositeLit)
	if !ok || len(lit.Elts) == 0 || len(lit.Elts) > 8 {
		return g, false
	}
	at, ok := lit.Type.(*ast.ArrayType)
	if !ok {
		return g, false
	}
	for _, e := range lit.Elts {
		if _, keyed := e.(*ast.KeyValueExpr); keyed {
			return g, false
		}
		pure := true
		ast.Inspect(e, func(n ast.Node) bool {
			switch y := n.(type) {
			case *ast.CallExpr, *ast.FuncLit:
				pure = false
			case *ast.UnaryExpr:
				if y.Op == token.ARROW {
					pure = false
				}
			}
			return pure
		})
		if !pure {
			return g, false
		}
	}
	name := func(e ast.Expr) (string, bool) {
		if e == nil {
			return "", true
		}
		id, isID := e.(*ast.Ident)
		if !isID {
			return "", false
		}
		if id.Name == "_" {
			return "", true
		}
		return id.Name, true
	}
	kName, ok1 := name(rs.Key)
	vName, ok2 := name(rs.Value)
	if !ok1 || !ok2 {
		return g, false
	}
	// break / continue that belong to this loop
	type red struct {
		off, end int
		text     string
	}
	il.counter++
	id := fmt.Sprintf("%d_%d", il.round, il.counter)
	all := "U__" + id
	bad := false
	type br struct {
		pos, end token.Pos
		isBreak  bool
	}
	var brs []br
	var walk func(n ast.Node, loopDepth, breakDepth int)
	walk = func(n ast.Node, loopDepth, breakDepth int) {
		if n == nil || bad {
			return
		}
		switch y := n.(type) {
		case *ast.FuncLit:
			return
		case *ast.LabeledStmt:
			bad = true
			return
		case *ast.BranchStmt:
			if y.Label != nil || y.Tok == token.GOTO || y.Tok == token.FALLTHROUGH {
				if y.Tok != token.FALLTHROUGH {
					bad = true
				}
				return
			}
			if y.Tok == token.CONTINUE && loopDepth == 0 {
				brs = append(brs, br{y.Pos(), y.End(), false})
			}
			if y.Tok == token.BREAK && breakDepth == 0 {
				brs = append(brs, br{y.Pos(), y.End(), true})
			}
			return
		case *ast.ForStmt:
			walk(y.Body, loopDepth+1, breakDepth+1)
			return
		case *ast.RangeStmt:
			walk(y.Body, loopDepth+1, breakDepth+1)
			return
		case *ast.SwitchStmt:
			walk(y.Body, loopDepth, breakDepth+1)
			return
		case *ast.TypeSwitchStmt:
			walk(y.Body, loopDepth, breakDepth+1)
			return
		case *ast.SelectStmt:
			walk(y.Body, loopDepth, breakDepth+1)
			return
		}
		ast.Inspect(n, func(m ast.Node) bool {
			if m == n {
				return true
			}
			if _, isStmt := m.(ast.Stmt); isStmt {
				walk(m, loopDepth, breakDepth)
				return false
			}
			if _, isLit := m.(*ast.FuncLit); isLit {
				return false
			}
			return true
		})
	}
	walk(rs.Body, 0, 0)
	if bad {
		return g, false
	}
	elt := il.text(file, at.Elt.Pos(), at.Elt.End())
	base := il.off(rs.Body.Lbrace + 1)
	var b strings.Builder
	fmt.Fprintf(&b, "%s: for { ", all)
	for i, e := range lit.Elts {
		cl := fmt.Sprintf("C__%s_%d", id, i)
		text := []byte(il.text(file, rs.Body.Lbrace+1, rs.Body.Rbrace))
		var reds []red
		for _, x := range brs {
			t := "break " + cl
			if x.isBreak {
				t = "break " + all
			}
			reds = append(reds, red{il.off(x.pos) - base, il.off(x.end) - base, t + il.lineDir(x.end)})
		}
		sort.Slice(reds, func(a, c int) bool { return reds[a].off > reds[c].off })
		for _, r := range reds {
			text = append(text[:r.off:r.off], append([]byte(r.text), text[r.end:]...)...)
		}
		b.WriteString("{ ")
		if kName != "" {
			fmt.Fprintf(&b, "%s := %d; _ = %s; ", kName, i, kName)
		}
		if vName != "" {
			fmt.Fprintf(&b, "var %s %s = %s; _ = %s; ", vName, elt, il.text(file, e.Pos(), e.End()), vName)
		}
		fmt.Fprintf(&b, "%s: for { ", cl)
		b.WriteString(il.lineDir(rs.Body.Lbrace + 1))
		b.Write(bytes.TrimRight(text, " \t"))
		fmt.Fprintf(&b, "; break %s }}; ", cl)
	}
	fmt.Fprintf(&b, "break %s }", all)
	b.WriteString(il.lineDir(rs.End()))
	g.file = file
	g.start, g.end = il.off(rs.Pos()), il.off(rs.End())
	g.edits = []srcEdit{{off: g.start, end: g.end, text: b.String()}}
	cp := il.fset.Position(rs.Pos())
	g.note = fmt.Sprintf("range over a %d-element literal unrolled at %s:%d", len(lit.Elts), filepath.Base(cp.Filename), cp.Line)
	_ = p
	return g, true
}
