package main

// Rename canonicalisation. The rules name types, fields and functions of the reference tree
// (ref/known_types.json, ref/known_funcs.json). When a maintainer renames an unexported type,
// a struct field or a function, nothing about behaviour changes, but every anchor and every
// canonical term that spells the old name would stop matching. After the first type-check the
// loader therefore looks for reference names that no longer exist and pairs each with the
// unique new declaration of the same shape:
//
//   - a missing named type with the unique new type of the same package whose underlying type
//     is the same (for structs: the same sequence of field types) once renamed type names are
//     blanked;
//   - a missing field with the field at the same position of the (possibly renamed) struct,
//     when the struct still has the same number of fields and that field has the same type;
//   - a missing function or method with the unique new function of the same package and
//     (canonical) receiver that has the same signature.
//
// Terms, function names and anchors then use the reference spelling for such objects, and the
// evidence notes every pairing. A reference name with no unique partner stays unresolved and
// fails as before.

import (
	"encoding/json"
	"fmt"
	"go/types"
	"os"
	"path/filepath"
	"regexp"
	"sort"
	"strings"

	"golang.org/x/tools/go/packages"
)

type refType struct {
	Fields     [][2]string `json:"fields,omitempty"` // name, type
	Underlying string      `json:"underlying,omitempty"`
}

var (
	canonType    = map[*types.TypeName]string{} // renamed type → reference name
	canonField   = map[*types.Var]string{}      // renamed field → reference name
	canonFunc    = map[*types.Func]string{}     // renamed function → reference name
	typeByRef    = map[string]*types.TypeName{} // pkgpath.RefName → current object
	funcByRef    = map[string]*types.Func{}     // reference key → current object
	methodAsFunc = map[*types.Func]string{}     // function that used to be a method of the named type
	renameRe     *regexp.Regexp
	renameMap    = map[string]string{} // "short.NewName" → "short.RefName" for type strings
)

func resetRenames() {
	canonType = map[*types.TypeName]string{}
	canonField = map[*types.Var]string{}
	canonFunc = map[*types.Func]string{}
	typeByRef = map[string]*types.TypeName{}
	funcByRef = map[string]*types.Func{}
	methodAsFunc = map[*types.Func]string{}
	renameRe = nil
	renameMap = map[string]string{}
}

func fieldName(v *types.Var) string {
	if n, ok := canonField[v]; ok {
		return n
	}
	return v.Name()
}

func funcObjName(f *types.Func) string {
	if f == nil {
		return ""
	}
	if n, ok := canonFunc[f.Origin()]; ok {
		return n
	}
	return f.Name()
}

// canonTypeString maps renamed type names in a rendered type back to their reference names.
func canonTypeString(s string) string {
	if renameRe == nil {
		return s
	}
	return renameRe.ReplaceAllStringFunc(s, func(m string) string { return renameMap[m] })
}

func loadRefTypes() map[string]refType {
	out := map[string]refType{}
	b, err := os.ReadFile(filepath.Join(verifDir(), "ref", "known_types.json"))
	if err != nil {
		return out
	}
	json.Unmarshal(b, &out)
	return out
}

func rawTypeString(t types.Type) string {
	return types.TypeString(t, func(p *types.Package) string { return p.Path() })
}

// declaredTypes describes every named type of the analysed packages.
func declaredTypes(pkgs []*packages.Package) map[string]refType {
	out := map[string]refType{}
	for _, p := range pkgs {
		sc := p.Types.Scope()
		for _, n := range sc.Names() {
			tn, ok := sc.Lookup(n).(*types.TypeName)
			if !ok || tn.IsAlias() {
				continue
			}
			var rt refType
			if st, ok := tn.Type().Underlying().(*types.Struct); ok {
				for i := 0; i < st.NumFields(); i++ {
					rt.Fields = append(rt.Fields, [2]string{st.Field(i).Name(), rawTypeString(st.Field(i).Type())})
				}
				if rt.Fields == nil {
					rt.Underlying = "struct{}"
				}
			} else {
				rt.Underlying = rawTypeString(tn.Type().Underlying())
			}
			out[p.PkgPath+"."+n] = rt
		}
	}
	return out
}

// detectRenames pairs missing reference names with new declarations; returns notes.
func detectRenames(pkgs []*packages.Package) []string {
	resetRenames()
	ref := loadRefTypes()
	if len(ref) == 0 {
		return nil
	}
	var notes []string
	cur := declaredTypes(pkgs)
	// names that are missing or new, per package, for blanking inside type strings
	volatile := map[string]bool{}
	for k := range ref {
		if _, ok := cur[k]; !ok {
			volatile[k] = true
		}
	}
	for k := range cur {
		if _, ok := ref[k]; !ok {
			volatile[k] = true
		}
	}
	blank := func(s string) string {
		for k := range volatile {
			s = strings.ReplaceAll(s, k, "_")
		}
		return s
	}
	shape := func(rt refType) string {
		if rt.Fields == nil {
			return blank(rt.Underlying)
		}
		var fs []string
		for _, f := range rt.Fields {
			fs = append(fs, blank(f[1]))
		}
		return "struct{" + strings.Join(fs, ";") + "}"
	}
	pkgOf := func(k string) string { return k[:strings.LastIndex(k, ".")] }
	lookupType := func(k string) *types.TypeName {
		for _, p := range pkgs {
			if p.PkgPath == pkgOf(k) {
				tn, _ := p.Types.Scope().Lookup(k[strings.LastIndex(k, ".")+1:]).(*types.TypeName)
				return tn
			}
		}
		return nil
	}
	var missing []string
	for k := range ref {
		if _, ok := cur[k]; !ok {
			missing = append(missing, k)
		}
	}
	sort.Strings(missing)
	used := map[string]bool{}
	for _, m := range missing {
		var cands []string
		for k, rt := range cur {
			if _, isRef := ref[k]; isRef || used[k] || pkgOf(k) != pkgOf(m) {
				continue
			}
			if shape(rt) == shape(ref[m]) {
				cands = append(cands, k)
			}
		}
		if len(cands) == 1 {
			if tn := lookupType(cands[0]); tn != nil {
				used[cands[0]] = true
				refName := m[strings.LastIndex(m, ".")+1:]
				canonType[tn] = refName
				typeByRef[m] = tn
				renameMap[shortName(pkgOf(m))+"."+tn.Name()] = shortName(pkgOf(m)) + "." + refName
				notes = append(notes, fmt.Sprintf("type %s no longer exists; %s has the same shape and is taken to be its new name", m, cands[0]))
			}
		}
	}
	if len(renameMap) > 0 {
		var alts []string
		for k := range renameMap {
			alts = append(alts, regexp.QuoteMeta(k))
		}
		sort.Slice(alts, func(i, j int) bool { return len(alts[i]) > len(alts[j]) })
		renameRe = regexp.MustCompile(`\b(` + strings.Join(alts, "|") + `)\b`)
	}
	// fields
	var refKeys []string
	for k := range ref {
		refKeys = append(refKeys, k)
	}
	sort.Strings(refKeys)
	for _, k := range refKeys {
		rt := ref[k]
		if rt.Fields == nil {
			continue
		}
		tn := lookupType(k)
		if tn == nil {
			tn = typeByRef[k]
		}
		if tn == nil {
			continue
		}
		st, ok := tn.Type().Underlying().(*types.Struct)
		if !ok || st.NumFields() != len(rt.Fields) {
			continue
		}
		have := map[string]bool{}
		for i := 0; i < st.NumFields(); i++ {
			have[st.Field(i).Name()] = true
		}
		refNames := map[string]bool{}
		for _, f := range rt.Fields {
			refNames[f[0]] = true
		}
		paired := map[*types.Var]bool{}
		for i, f := range rt.Fields {
			fv := st.Field(i)
			if fv.Name() == f[0] || have[f[0]] {
				continue
			}
			if !refNames[fv.Name()] && blank(rawTypeString(fv.Type())) == blank(f[1]) {
				canonField[fv] = f[0]
				paired[fv] = true
				notes = append(notes, fmt.Sprintf("field %s.%s no longer exists; the field at the same position with the same type, %s, is taken to be its new name", k, f[0], fv.Name()))
			}
		}
		// fields that were also moved: a missing reference field and a new field are paired when
		// each is the only unpaired one of its type
		for _, f := range rt.Fields {
			if have[f[0]] {
				continue
			}
			already := false
			for _, n := range canonField {
				_ = n
			}
			for fv, n := range canonField {
				if n == f[0] && fv.Pkg() == tn.Pkg() {
					for i := 0; i < st.NumFields(); i++ {
						if st.Field(i) == fv {
							already = true
						}
					}
				}
			}
			if already {
				continue
			}
			sameTypeMissing := 0
			for _, g := range rt.Fields {
				if !have[g[0]] && blank(g[1]) == blank(f[1]) {
					sameTypeMissing++
				}
			}
			var cands []*types.Var
			for i := 0; i < st.NumFields(); i++ {
				fv := st.Field(i)
				if !refNames[fv.Name()] && !paired[fv] && blank(rawTypeString(fv.Type())) == blank(f[1]) {
					cands = append(cands, fv)
				}
			}
			if sameTypeMissing == 1 && len(cands) == 1 {
				canonField[cands[0]] = f[0]
				paired[cands[0]] = true
				notes = append(notes, fmt.Sprintf("field %s.%s no longer exists; %s is the only new field of the same type and is taken to be its new name", k, f[0], cands[0].Name()))
			}
		}
	}
	// functions and methods
	kf := knownFuncs()
	if len(kf) > 0 {
		type fdecl struct {
			obj *types.Func
			key string // with canonical receiver
			sig string
		}
		var decls []fdecl
		declared := map[string]bool{}
		for _, p := range pkgs {
			for _, obj := range p.TypesInfo.Defs {
				fo, ok := obj.(*types.Func)
				if !ok || fo.Pkg() != p.Types {
					continue
				}
				// only package-level functions and methods
				if sig := fo.Type().(*types.Signature); sig.Recv() == nil && fo.Parent() != p.Types.Scope() {
					continue
				}
				k := funcKey(fo)
				decls = append(decls, fdecl{fo, k, blank(sigString(fo))})
				declared[k] = true
			}
		}
		var missingF []string
		for k := range kf {
			if !declared[k] {
				missingF = append(missingF, k)
			}
		}
		sort.Strings(missingF)
		usedF := map[*types.Func]bool{}
		for _, m := range missingF {
			prefix := m[:strings.LastIndex(m, ".")+1]
			var cands []fdecl
			for _, d := range decls {
				if _, isRef := kf[d.key]; isRef || usedF[d.obj] {
					continue
				}
				if strings.HasPrefix(d.key, prefix) && !strings.Contains(d.key[len(prefix):], ".") && d.sig == blank(kf[m]) {
					cands = append(cands, d)
				}
			}
			if len(cands) == 1 {
				usedF[cands[0].obj] = true
				canonFunc[cands[0].obj] = m[len(prefix):]
				funcByRef[m] = cands[0].obj
				notes = append(notes, fmt.Sprintf("function %s no longer exists; %s has the same receiver and signature and is taken to be its new name", m, cands[0].key))
				continue
			}
			// a method turned into a plain function taking the receiver first (or the reverse)
			if len(cands) == 0 {
				pkgPath := m
				isMethod := false
				recvName := ""
				for _, p := range pkgs {
					if strings.HasPrefix(m, p.PkgPath+".") {
						rest := m[len(p.PkgPath)+1:]
						pkgPath = p.PkgPath
						if i := strings.Index(rest, "."); i >= 0 {
							isMethod, recvName = true, rest[:i]
						}
					}
				}
				refSig := blank(kf[m])
				var alt []fdecl
				for _, d := range decls {
					if _, isRef := kf[d.key]; isRef || usedF[d.obj] || d.obj.Pkg().Path() != pkgPath {
						continue
					}
					sig := d.obj.Type().(*types.Signature)
					if isMethod && sig.Recv() == nil && sig.Params().Len() >= 1 {
						// func(recv T, rest...) results  ~  method (T).name(rest...) results
						first := blank(rawTypeString(sig.Params().At(0).Type()))
						wantVal := blank(pkgPath + "." + recvName)
						if first != wantVal && first != "*"+wantVal {
							continue
						}
						var ps []*types.Var
						for i := 1; i < sig.Params().Len(); i++ {
							ps = append(ps, types.NewVar(0, nil, "", sig.Params().At(i).Type()))
						}
						var rs []*types.Var
						for i := 0; i < sig.Results().Len(); i++ {
							rs = append(rs, types.NewVar(0, nil, "", sig.Results().At(i).Type()))
						}
						rest := types.NewSignatureType(nil, nil, nil, types.NewTuple(ps...), types.NewTuple(rs...), sig.Variadic())
						if blank(rawTypeString(rest)) == refSig {
							alt = append(alt, d)
						}
					}
				}
				if len(alt) == 1 {
					usedF[alt[0].obj] = true
					canonFunc[alt[0].obj] = m[len(prefix):]
					funcByRef[m] = alt[0].obj
					methodAsFunc[alt[0].obj] = recvName
					notes = append(notes, fmt.Sprintf("method %s no longer exists; the function %s takes the receiver as its first parameter and has otherwise the same signature, and is taken to be its new form", m, alt[0].key))
				}
			}
		}
	}
	sort.Strings(notes)
	return notes
}

var refTypesCache map[string]refType

// addedField: fv is a field that the reference tree's struct of the same name does not have,
// in a struct that still has every reference field (a pure addition: a statistics counter, a
// debugging aid). Rules that whitelist the writes of a function ignore stores to such fields:
// they cannot be what the rule is about.
func addedField(fv *types.Var) bool {
	if fv == nil || !fv.IsField() || fv.Pkg() == nil {
		return false
	}
	if refTypesCache == nil {
		refTypesCache = loadRefTypes()
	}
	for name, rt := range refTypesCache {
		if len(rt.Fields) == 0 || !strings.HasPrefix(name, fv.Pkg().Path()+".") {
			continue
		}
		tn, ok := fv.Pkg().Scope().Lookup(name[len(fv.Pkg().Path())+1:]).(*types.TypeName)
		if !ok {
			continue
		}
		st, ok := tn.Type().Underlying().(*types.Struct)
		if !ok {
			continue
		}
		mine := false
		cur := map[string]bool{}
		for i := 0; i < st.NumFields(); i++ {
			cur[st.Field(i).Name()] = true
			if st.Field(i) == fv {
				mine = true
			}
		}
		if !mine {
			continue
		}
		if st.NumFields() <= len(rt.Fields) {
			return false
		}
		inRef := false
		for _, f := range rt.Fields {
			if !cur[f[0]] {
				return false // a reference field is gone: not a pure addition
			}
			if f[0] == fv.Name() {
				inRef = true
			}
		}
		return !inRef
	}
	return false
}
