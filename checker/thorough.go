package main

// Thorough-tier extras: (1) the checker tested against the seeded changes kept under
// /verif/seeded (each applied to a scratch copy of /repo outside /repo and /verif, analysed,
// deleted at once); (2) drift check of the frozen UAPI reference against this machine's header.
// Neither can produce a VIOLATION for the property: they test the checker, and are reported as notes.

import (
	"go/types"

	"encoding/json"
	"fmt"
	"golang.org/x/tools/go/ssa"
	"os"
	"os/exec"
	"path/filepath"
	"sort"
	"strings"
)

func init() {
	thoroughExtras = func(r *Run) {
		seededSelfTest(r)
		benignSelfTest(r)
		uapiDrift(r)
	}
}

func seededSelfTest(r *Run) {
	dir := filepath.Join(verifDir(), "seeded")
	ents, err := os.ReadDir(dir)
	if err != nil {
		return
	}
	var names []string
	for _, e := range ents {
		names = append(names, e.Name())
	}
	sort.Strings(names)
	detected, missed, skipped := 0, 0, 0
	for _, n := range names {
		b, err := os.ReadFile(filepath.Join(dir, n, "meta.json"))
		if err != nil {
			continue
		}
		var meta struct {
			Caught []string `json:"caught_by_properties"`
		}
		if json.Unmarshal(b, &meta) != nil {
			continue
		}
		mine := false
		for _, c := range meta.Caught {
			if c == r.Prop {
				mine = true
			}
		}
		if !mine {
			continue
		}
		tmp, err := os.MkdirTemp("", "vcheck-seeded-")
		if err != nil {
			continue
		}
		func() {
			defer os.RemoveAll(tmp)
			defer dropWorldCaches() // the scratch world must not stay reachable through the per-object caches
			cp := exec.Command("cp", "-a", repoDir()+"/.", tmp)
			if out, err := cp.CombinedOutput(); err != nil {
				r.Notes = append(r.Notes, "selftest: cannot copy the repository: "+string(out))
				skipped++
				return
			}
			ap := exec.Command("git", "apply", filepath.Join(dir, n, "patch.diff"))
			ap.Dir = tmp
			if err := ap.Run(); err != nil {
				skipped++
				r.Notes = append(r.Notes, "selftest: seeded change "+n+" no longer applies to the current tree (skipped)")
				return
			}
			w, err := Load(tmp, "amd64")
			if err != nil {
				skipped++
				r.Notes = append(r.Notes, "selftest: seeded change "+n+" does not load: "+err.Error())
				return
			}
			sub := NewRun(r.Prop, "quick")
			sub.W = w
			func() {
				defer func() { recover() }()
				props[r.Prop](sub, w)
			}()
			bad := 0
			for _, o := range sub.Obls {
				if o.Status != StOK && o.Status != StInfo {
					bad++
				}
			}
			// open known findings also show up as violations here; a seeded change must add to them
			base := 0
			for _, o := range r.Obls {
				if o.Status != StOK && o.Status != StInfo && o.Arch == "" {
					base++
				}
			}
			if bad > base {
				detected++
			} else {
				missed++
				r.Notes = append(r.Notes, "selftest: seeded change "+n+" is NOT detected any more by "+r.Prop)
			}
		}()
	}
	if detected+missed+skipped > 0 {
		r.Notes = append(r.Notes, fmt.Sprintf("selftest: %d seeded changes detected, %d missed, %d skipped (checker self-test on scratch copies; not a verdict on the property)", detected, missed, skipped))
	}
}

// benignSelfTest applies every behaviour-preserving refactoring kept under /verif/benign that
// touches files this property reads to a scratch copy and expects the property's rules to
// stay silent. Like the seeded self-test it tests the checker and only produces notes.
func benignSelfTest(r *Run) {
	dir := filepath.Join(verifDir(), "benign")
	ents, err := os.ReadDir(dir)
	if err != nil {
		return
	}
	relevant := func(file string) bool {
		in := func(ps ...string) bool {
			for _, p := range ps {
				if p == r.Prop {
					return true
				}
			}
			return false
		}
		switch {
		case file == "reassembler.go":
			return in("C01", "C02", "C03", "C10", "C11", "C19")
		case file == "audit.go" || file == "netlink.go":
			return in("C08", "C16", "C17", "C18")
		case strings.HasPrefix(file, "auparse/"):
			return in("C04", "C05", "C12", "C20", "C15", "C09")
		case strings.HasPrefix(file, "aucoalesce/"):
			return in("C09", "C15", "C20")
		case strings.HasPrefix(file, "rule/flags/"):
			return in("C14", "C07")
		case strings.HasPrefix(file, "rule/"):
			return in("C06", "C07", "C13", "C20", "C14")
		}
		return false
	}
	base := 0
	for _, o := range r.Obls {
		if o.Status != StOK && o.Status != StInfo && o.Arch == "" {
			base++
		}
	}
	silent, alarms, skipped := 0, 0, 0
	for _, e := range ents {
		n := e.Name()
		patch := filepath.Join(dir, n, "patch.diff")
		b, err := os.ReadFile(patch)
		if err != nil {
			continue
		}
		mine := false
		for _, l := range strings.Split(string(b), "\n") {
			if strings.HasPrefix(l, "+++ b/") && relevant(strings.TrimPrefix(l, "+++ b/")) {
				mine = true
			}
		}
		if !mine {
			continue
		}
		tmp, err := os.MkdirTemp("", "vcheck-benign-")
		if err != nil {
			continue
		}
		func() {
			defer os.RemoveAll(tmp)
			defer dropWorldCaches() // the scratch world must not stay reachable through the per-object caches
			if out, err := exec.Command("cp", "-a", repoDir()+"/.", tmp).CombinedOutput(); err != nil {
				r.Notes = append(r.Notes, "selftest: cannot copy the repository: "+string(out))
				skipped++
				return
			}
			ap := exec.Command("git", "apply", patch)
			ap.Dir = tmp
			if err := ap.Run(); err != nil {
				skipped++
				return
			}
			w, err := Load(tmp, "amd64")
			if err != nil {
				skipped++
				r.Notes = append(r.Notes, "selftest: refactoring "+n+" does not load: "+err.Error())
				return
			}
			sub := NewRun(r.Prop, "quick")
			sub.W = w
			func() {
				defer func() { recover() }()
				props[r.Prop](sub, w)
			}()
			bad := 0
			for _, o := range sub.Obls {
				if o.Status != StOK && o.Status != StInfo {
					bad++
				}
			}
			// floors are evaluated in Finish; approximate: a rule that found fewer instances than its floor
			for _, ri := range sub.Rules {
				if ri.Found < ri.Floor {
					bad++
				}
			}
			if bad > base {
				alarms++
				r.Notes = append(r.Notes, "selftest: behaviour-preserving refactoring "+n+" raises an alarm in "+r.Prop+" (a false alarm of the checker)")
			} else {
				silent++
			}
		}()
	}
	if silent+alarms+skipped > 0 {
		r.Notes = append(r.Notes, fmt.Sprintf("selftest: %d behaviour-preserving refactorings silent, %d raise an alarm, %d skipped (no longer apply)", silent, alarms, skipped))
	}
}

func uapiDrift(r *Run) {
	if r.Prop != "C06" && r.Prop != "C16" && r.Prop != "C20" {
		return
	}
	hdr := "/usr/include/linux/audit.h"
	if _, err := os.Stat(hdr); err != nil {
		r.Notes = append(r.Notes, "uapi drift: header not present on this machine; frozen copy used")
		return
	}
	cmd := exec.Command("python3", filepath.Join(verifDir(), "tools", "mk_uapi_ref.py"))
	out, err := cmd.Output()
	if err != nil {
		r.Notes = append(r.Notes, "uapi drift: cannot re-derive the reference: "+err.Error())
		return
	}
	var fresh, frozen UAPIRef
	if json.Unmarshal(out, &fresh) != nil {
		return
	}
	b, _ := os.ReadFile(filepath.Join(verifDir(), "ref", "uapi_audit.json"))
	if json.Unmarshal(b, &frozen) != nil {
		return
	}
	var diffs []string
	for k, v := range frozen.Defines {
		if fv, ok := fresh.Defines[k]; !ok || fv != v {
			diffs = append(diffs, k)
		}
	}
	sort.Strings(diffs)
	if len(diffs) == 0 {
		r.Notes = append(r.Notes, fmt.Sprintf("uapi drift: frozen reference (%d defines) agrees with %s", len(frozen.Defines), hdr))
	} else {
		r.Notes = append(r.Notes, "uapi drift: frozen reference differs from "+hdr+" in: "+strings.Join(diffs, ", "))
	}
}

// dropWorldCaches empties the process-wide caches that are keyed by objects of a loaded world
// (functions, globals, fields). The self-tests load a scratch world per patch; without this
// every one of them stays reachable for the life of the process.
func dropWorldCaches() {
	mapFieldCache = map[*types.Var][2]string{}
	deadBlocksCache = map[*ssa.Function]map[*ssa.BasicBlock]bool{}
	inlinableCache = map[*ssa.Function]int{}
	liftCache = map[*ssa.Function]liftInfo{}
	sentinelCache = map[*ssa.Global]bool{}
	tableAliasCache = map[*ssa.Global]*ssa.Global{}
	roTableCache = map[*ssa.Global]map[string]roEntry{}
	phiSuffixCache = map[*ssa.Function]map[*ssa.Phi]string{}
	neverAssignedCache = nil
	anchored = map[*ssa.Function]bool{}
	termAlias = map[ssa.Value]string{}
}
