package main

// Looking through small helpers. A rule that reads conditions and effects off one function's
// paths would otherwise change its verdict when a maintainer extracts part of that function
// into an unexported helper (or folds a helper back in) without changing behaviour. Three
// devices keep the rules' view stable under such edits:
//
//   - predicate inlining: an `if helper(args)` whose callee is a small, loop-free repository
//     function returning one bool and writing nothing is expanded during path enumeration into
//     the callee's own paths (parameters rendered as the caller's argument terms); a callee path
//     returning a constant decides the caller's branch, any other return value becomes the
//     branch literal. Dominance guards get the literals common to all callee paths that can
//     return the guard's polarity.
//   - expression transparency: a call to a single-block, effect-free repository function that
//     returns an expression of its parameters is rendered as that expression.
//   - ownership (`within`): "only F writes this" accepts an unexported helper all of whose call
//     sites are (transitively) inside F.
//
// Functions that a rule addresses by name (anchors) are never looked through: the rule wants to
// see the call itself.

import (
	"go/constant"
	"go/token"
	"go/types"

	"golang.org/x/tools/go/ssa"
)

var anchored = map[*ssa.Function]bool{}

// noInline switches the devices off (fixtures compare both views).
var noInline = false

func isRepoFunc(fn *ssa.Function) bool {
	if fn == nil || len(fn.Blocks) == 0 {
		return false
	}
	r := rootFn(fn)
	if r.Package() == nil {
		return false
	}
	p := r.Package().Pkg.Path()
	return len(p) >= len(modulePath) && p[:len(modulePath)] == modulePath || p == "fix"
}

var inlinableCache = map[*ssa.Function]int{} // 0 unknown, 1 yes, 2 no

// effectFree: fn has no loops, at most maxBlocks blocks, and no instruction that writes memory
// visible to the caller, spawns, defers or sends. Calls are allowed (they appear as events).
func effectFree(fn *ssa.Function, maxBlocks int) bool {
	if len(fn.Blocks) == 0 || len(fn.Blocks) > maxBlocks || fn.Recover != nil {
		return false
	}
	for _, b := range fn.Blocks {
		for _, s := range b.Succs {
			if s.Dominates(b) {
				return false
			}
		}
		for _, in := range b.Instrs {
			switch x := in.(type) {
			case *ssa.Store:
				// stores into the callee's own locals are fine
				if !localAddr(x.Addr) {
					return false
				}
			case *ssa.MapUpdate, *ssa.Go, *ssa.Defer, *ssa.Send, *ssa.Select, *ssa.Panic:
				return false
			case *ssa.Call:
				if f := x.Call.StaticCallee(); f == fn {
					return false
				}
			}
		}
	}
	return true
}

func localAddr(a ssa.Value) bool {
	for {
		switch x := a.(type) {
		case *ssa.Alloc:
			return !x.Heap || true
		case *ssa.FieldAddr:
			a = x.X
		case *ssa.IndexAddr:
			a = x.X
		default:
			return false
		}
	}
}

// inlinablePred reports whether a call in a branch condition can be expanded.
func inlinablePred(f *ssa.Function) bool {
	if noInline || f == nil || anchored[f] || !isRepoFunc(f) {
		return false
	}
	if f.Parent() != nil && !readsFreeVarsOnly(f) {
		return false
	}
	if c := inlinableCache[f]; c != 0 {
		return c == 1
	}
	ok := false
	res := f.Signature.Results()
	if res.Len() == 1 {
		if b, isB := res.At(0).Type().Underlying().(*types.Basic); isB && b.Kind() == types.Bool {
			ok = effectFree(f, 24)
		}
	}
	if ok {
		inlinableCache[f] = 1
	} else {
		inlinableCache[f] = 2
	}
	return ok
}

// predCall: cond (under NOTs) is a call to an inlinable predicate.
func predCall(cond ssa.Value) (*ssa.Call, bool) {
	neg := false
	for {
		u, ok := cond.(*ssa.UnOp)
		if !ok || u.Op.String() != "!" {
			break
		}
		cond = u.X
		neg = !neg
	}
	c, ok := cond.(*ssa.Call)
	if !ok || c.Call.IsInvoke() {
		return nil, false
	}
	if !inlinablePred(c.Call.StaticCallee()) {
		return nil, false
	}
	return c, neg
}

// aliasParams renders the callee's parameters as the caller's argument terms.
func aliasParams(f *ssa.Function, args []ssa.Value) func() {
	return aliasParamsFV(f, args, nil)
}

// aliasParamsFV also renders the free variables of a closure as the cells it was built over.
func aliasParamsFV(f *ssa.Function, args []ssa.Value, closure ssa.Value) func() {
	var undo []func()
	if mc, ok := closure.(*ssa.MakeClosure); ok {
		for i, fv := range f.FreeVars {
			if i < len(mc.Bindings) {
				if _, had := termAlias[fv]; !had {
					undo = append(undo, alias(fv, Term(mc.Bindings[i])))
				}
			}
		}
	}
	for i, p := range f.Params {
		if i < len(args) {
			if _, had := termAlias[p]; had {
				continue
			}
			undo = append(undo, alias(p, Term(args[i])))
		}
	}
	return func() {
		for _, u := range undo {
			u()
		}
	}
}

// predPath is one way through an inlined predicate.
type predPath struct {
	events []Event // without the final return
	isK    bool    // returns a constant
	k      bool
	litT   string // literal for "returns true" when not constant
	litF   string
	ret    ssa.Value
}

func predPaths(call *ssa.Call, assume map[ssa.Value]string) ([]predPath, bool) {
	f := call.Call.StaticCallee()
	restore := aliasParamsFV(f, call.Call.Args, call.Call.Value)
	defer restore()
	as := map[ssa.Value]string{}
	for i, p := range f.Params {
		if i < len(call.Call.Args) {
			if k, ok := assume[call.Call.Args[i]]; ok {
				as[p] = k
			} else if c, ok := call.Call.Args[i].(*ssa.Const); ok {
				as[p] = constStr(c)
			}
		}
	}
	cps, complete := Paths(f, PathOpts{Cap: 128, Assume: as})
	if !complete {
		return nil, false
	}
	var out []predPath
	for _, cp := range cps {
		ret := cp.Return()
		if ret == nil {
			return nil, false
		}
		rv := cp.Resolve(returnedValues(ret)[0])
		pp := predPath{events: cp.Events[:len(cp.Events)-1], ret: rv}
		if c, ok := rv.(*ssa.Const); ok && c.Value != nil && c.Value.Kind() == constant.Bool {
			pp.isK, pp.k = true, constant.BoolVal(c.Value)
		} else {
			pp.litT, pp.litF = Lit(rv, true), Lit(rv, false)
		}
		out = append(out, pp)
	}
	return out, true
}

// predImplied: literals that hold whenever the predicate call evaluates to pol.
func predImplied(call *ssa.Call, pol bool) []string {
	pps, ok := predPaths(call, nil)
	if !ok {
		return nil
	}
	var common map[string]bool
	n := 0
	for _, pp := range pps {
		if pp.isK && pp.k != pol {
			continue
		}
		set := map[string]bool{}
		for _, e := range pp.events {
			if e.Kind == EvCond {
				set[e.Text] = true
			}
		}
		if !pp.isK {
			if pol {
				set[pp.litT] = true
			} else {
				set[pp.litF] = true
			}
			if phi, isPhi := pp.ret.(*ssa.Phi); isPhi {
				restore := aliasParamsFV(call.Call.StaticCallee(), call.Call.Args, call.Call.Value)
				for _, l := range expandBoolPhi(phi, pol) {
					set[l] = true
				}
				restore()
			}
		}
		n++
		if common == nil {
			common = set
			continue
		}
		for l := range common {
			if !set[l] {
				delete(common, l)
			}
		}
	}
	if n == 0 {
		return nil
	}
	return keys(common)
}

// transparentResult: for a call to a single-block effect-free repo function with one result,
// the value it returns (to be rendered with parameters aliased to the arguments).
func transparentResult(c *ssa.CallCommon) (ssa.Value, *ssa.Function) {
	if noInline || c.IsInvoke() {
		return nil, nil
	}
	f := c.StaticCallee()
	if f == nil || anchored[f] || !isRepoFunc(f) || f.Parent() != nil || len(f.Blocks) != 1 {
		return nil, nil
	}
	if f.Signature.Results().Len() != 1 || !effectFree(f, 1) {
		return nil, nil
	}
	// no calls at all: the result is an expression of parameters, constants and loads
	for _, in := range f.Blocks[0].Instrs {
		if _, isCall := in.(*ssa.Call); isCall {
			return nil, nil
		}
	}
	ret, ok := f.Blocks[0].Instrs[len(f.Blocks[0].Instrs)-1].(*ssa.Return)
	if !ok {
		return nil, nil
	}
	return ret.Results[0], f
}

// ---------------------------------------------------------------------------------------------
// ownership

// within reports whether fn is one of owners, a closure inside one, or an unexported,
// unanchored repository function whose every call site is static and lies within owners
// (transitively, to a small depth). A function with no call sites is not within anything.
func (w *World) within(fn *ssa.Function, owners ...*ssa.Function) bool {
	return w.withinDepth(fn, owners, 0, map[*ssa.Function]bool{})
}

func (w *World) withinDepth(fn *ssa.Function, owners []*ssa.Function, depth int, seen map[*ssa.Function]bool) bool {
	if fn == nil {
		return false
	}
	for _, o := range owners {
		if fn == o || (o != nil && rootFn(fn) == o) {
			return true
		}
	}
	if noInline || depth > 3 || seen[fn] {
		return false
	}
	seen[fn] = true
	r := rootFn(fn)
	if anchored[r] || !isRepoFunc(r) {
		return false
	}
	if r.Object() == nil || r.Object().Exported() {
		return false
	}
	sites := w.CallSites(r)
	if len(sites) == 0 {
		return false
	}
	for _, s := range sites {
		if s.Kind != "static" {
			return false
		}
		if !w.withinDepth(s.Caller, owners, depth+1, seen) {
			return false
		}
	}
	return true
}

// isBranchPredicate: c is a call to an inlinable predicate whose result is used (possibly
// negated) as a branch condition.
func isBranchPredicate(c *ssa.Call) bool {
	if c.Call.IsInvoke() || !inlinablePred(c.Call.StaticCallee()) || c.Referrers() == nil {
		return false
	}
	var isCond func(v ssa.Value, depth int) bool
	isCond = func(v ssa.Value, depth int) bool {
		refs := v.Referrers()
		if refs == nil || depth > 3 {
			return false
		}
		for _, r := range *refs {
			switch x := r.(type) {
			case *ssa.If:
				return true
			case *ssa.UnOp:
				if isCond(x, depth+1) {
					return true
				}
			}
		}
		return false
	}
	return isCond(c, 0)
}

// eachInlined calls visit(fn) and then visit(g) for every predicate helper g that path
// enumeration looks through from fn, with g's parameters rendered as the call's arguments
// while visit runs.
func eachInlined(fn *ssa.Function, visit func(*ssa.Function)) {
	var rec func(f *ssa.Function, depth int)
	rec = func(f *ssa.Function, depth int) {
		visit(f)
		if depth >= 3 {
			return
		}
		instrsOf(f, func(in ssa.Instruction) {
			if c, ok := in.(*ssa.Call); ok && isBranchPredicate(c) {
				g := c.Call.StaticCallee()
				restore := aliasParamsFV(g, c.Call.Args, c.Call.Value)
				rec(g, depth+1)
				restore()
			}
		})
	}
	rec(fn, 0)
}

// ---------------------------------------------------------------------------------------------
// lifting extracted helpers into their single owner

type liftInfo struct {
	owner *ssa.Function
	gen   int
}

var liftCache = map[*ssa.Function]liftInfo{}

// liftOwner: fn is an unanchored, unexported, loop-free, small repository function (not a
// closure) whose every call site is a static call lying, transitively through other such
// helpers, inside exactly one anchored function F — a piece of F that was given a name. The
// census then attributes fn's accesses and calls to F, and path enumeration over F splices
// fn's paths in at the call, so rules see the same effects as before the extraction. With a
// single call site fn's parameters are rendered as that call's argument terms.
func (w *World) liftOwner(fn *ssa.Function) *ssa.Function {
	if noInline || fn == nil || fn.Parent() != nil || anchored[fn] || !isRepoFunc(fn) {
		return nil
	}
	if li, ok := liftCache[fn]; ok && li.gen == len(anchored) {
		return li.owner
	}
	o := w.liftOwnerRec(fn, 0, map[*ssa.Function]bool{})
	liftCache[fn] = liftInfo{o, len(anchored)}
	if o != nil {
		if sites := w.CallSitesRaw(fn); len(sites) == 1 {
			if ci, ok := sites[0].Instr.(ssa.CallInstruction); ok {
				for i, p := range fn.Params {
					if i < len(ci.Common().Args) {
						if _, had := termAlias[p]; !had {
							termAlias[p] = Term(ci.Common().Args[i])
						}
					}
				}
			}
		}
	}
	return o
}

func (w *World) liftOwnerRec(fn *ssa.Function, depth int, seen map[*ssa.Function]bool) *ssa.Function {
	if depth > 2 || seen[fn] {
		return nil
	}
	seen[fn] = true
	if fn.Object() == nil || fn.Object().Exported() || len(fn.Blocks) > 24 || fn.Recover != nil {
		return nil
	}
	for _, b := range fn.Blocks {
		for _, s := range b.Succs {
			if s.Dominates(b) {
				return nil
			}
		}
		for _, in := range b.Instrs {
			switch in.(type) {
			case *ssa.Go, *ssa.Defer, *ssa.Select:
				return nil
			}
		}
	}
	sites := w.CallSitesRaw(fn)
	if len(sites) == 0 {
		return nil
	}
	var owner *ssa.Function
	for _, s := range sites {
		if s.Kind != "static" {
			return nil
		}
		c := rootFn(s.Caller)
		var o *ssa.Function
		if anchored[c] {
			o = c
		} else if c.Parent() == nil && !anchored[c] {
			o = w.liftOwnerRec(c, depth+1, seen)
		}
		if o == nil || (owner != nil && o != owner) {
			return nil
		}
		owner = o
	}
	return owner
}

// ownedBy: fn is one of owners, or an extracted helper of one of them (liftOwner).
func (w *World) ownedBy(fn *ssa.Function, owners ...*ssa.Function) bool {
	return w.ownerAmong(fn, owners...) != nil
}

// ownerAmong returns the owner (one of owners) that fn is or is an extracted helper of.
func (w *World) ownerAmong(fn *ssa.Function, owners ...*ssa.Function) *ssa.Function {
	for _, o := range owners {
		if fn == o {
			return o
		}
	}
	if fn == nil {
		return nil
	}
	if lo := w.liftOwner(fn); lo != nil {
		for _, o := range owners {
			if lo == o {
				return o
			}
		}
	}
	return nil
}

// storesNothing: f is a repository function that writes no memory visible to its caller —
// it stores only into its own locals, updates no map, and calls only builtins and functions
// that store nothing either (to a small depth). Loops are allowed.
func storesNothing(f *ssa.Function, depth int) bool {
	if f == nil || !isRepoFunc(f) || depth > 3 || f.Recover != nil {
		return false
	}
	for _, b := range f.Blocks {
		for _, in := range b.Instrs {
			switch x := in.(type) {
			case *ssa.Store:
				if !localAddr(x.Addr) {
					return false
				}
			case *ssa.MapUpdate, *ssa.Go, *ssa.Defer, *ssa.Send, *ssa.Select:
				return false
			case *ssa.Call:
				if _, isB := x.Call.Value.(*ssa.Builtin); isB {
					if n := x.Call.Value.Name(); n == "delete" || n == "copy" || n == "append" {
						return false
					}
					continue
				}
				g := x.Call.StaticCallee()
				if g == f || !storesNothing(g, depth+1) {
					return false
				}
			}
		}
	}
	return true
}

// readsFreeVarsOnly: a closure that never stores through its free variables.
func readsFreeVarsOnly(f *ssa.Function) bool {
	ok := true
	instrsOf(f, func(in ssa.Instruction) {
		if st, isSt := in.(*ssa.Store); isSt {
			a := st.Addr
			for {
				switch x := a.(type) {
				case *ssa.FieldAddr:
					a = x.X
					continue
				case *ssa.IndexAddr:
					a = x.X
					continue
				}
				break
			}
			if _, isFV := a.(*ssa.FreeVar); isFV {
				ok = false
			}
		}
	})
	return ok
}

// paramCell: the Alloc is the cell go/ssa creates for a parameter that a closure captures: it
// is stored exactly once, with the parameter, in the entry block, and is otherwise only loaded
// or bound into closures that do not store through it. Such a cell is the parameter.
func paramCell(a *ssa.Alloc) *ssa.Parameter {
	refs := a.Referrers()
	if refs == nil {
		return nil
	}
	var par *ssa.Parameter
	stores := 0
	for _, rf := range *refs {
		switch x := rf.(type) {
		case *ssa.Store:
			if x.Addr != ssa.Value(a) {
				return nil
			}
			stores++
			p, ok := x.Val.(*ssa.Parameter)
			if !ok || x.Block().Index != 0 {
				return nil
			}
			par = p
		case *ssa.UnOp:
		case *ssa.MakeClosure:
			fn, ok := x.Fn.(*ssa.Function)
			if !ok {
				return nil
			}
			for i, b := range x.Bindings {
				if b == ssa.Value(a) && (i >= len(fn.FreeVars) || !freeVarOnlyLoaded(fn.FreeVars[i], 0)) {
					return nil
				}
			}
		case *ssa.DebugRef:
		default:
			return nil
		}
	}
	if stores != 1 {
		return nil
	}
	return par
}

// freeVarOnlyLoaded: the cell a closure captured is only ever loaded there (and in the closures
// it is passed on to): nothing stores to the cell itself or lets its address escape. Storing
// through the value it holds (`r.field = …` with r a captured pointer) leaves the cell alone.
func freeVarOnlyLoaded(fv *ssa.FreeVar, depth int) bool {
	if depth > 3 {
		return false
	}
	refs := fv.Referrers()
	if refs == nil {
		return true
	}
	for _, rf := range *refs {
		switch x := rf.(type) {
		case *ssa.UnOp:
			if x.Op != token.MUL {
				return false
			}
		case *ssa.DebugRef:
		case *ssa.MakeClosure:
			fn, ok := x.Fn.(*ssa.Function)
			if !ok {
				return false
			}
			for i, b := range x.Bindings {
				if b == ssa.Value(fv) && (i >= len(fn.FreeVars) || !freeVarOnlyLoaded(fn.FreeVars[i], depth+1)) {
					return false
				}
			}
		default:
			return false
		}
	}
	return true
}
