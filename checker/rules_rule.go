package main

// Rules over the rule package: C06 (R3-R8), C07 (R2-R5), C13 (R2-R5; R1 is the bounds rule).

import (
	"fmt"
	"go/token"
	"go/types"
	"regexp"
	"sort"
	"strings"

	"golang.org/x/tools/go/ssa"
)

type rulePkg struct {
	r *Run
	w *World

	build, toCmd, addFilter, addInter, addSyscall, addKeys, addFileWatch, toARD, fromARD, toWire, fromWire *ssa.Function
	getUID, getGID, getExit, getMsgType, getPerm, getFiletype, parseNum, getArch                           *ssa.Function
	fields                                                                                                 map[string]uint64 // fieldsTable: name → code
	fieldName                                                                                              map[uint64]string
	ok                                                                                                     bool
}

func loadRulePkg(r *Run, w *World) *rulePkg {
	x := &rulePkg{r: r, w: w, ok: true, fields: map[string]uint64{}, fieldName: map[uint64]string{}}
	fn := func(name string) *ssa.Function {
		f, err := w.Func("rule", name)
		if err != nil {
			r.Anchor(err)
			x.ok = false
		}
		return f
	}
	m := func(typ, name string) *ssa.Function {
		f, err := w.Method("rule", typ, name)
		if err != nil {
			r.Anchor(err)
			x.ok = false
		}
		return f
	}
	x.build, x.toCmd, x.addFilter, x.addInter = fn("Build"), fn("ToCommandLine"), fn("addFilter"), fn("addInterFieldComparator")
	x.addSyscall, x.addKeys, x.addFileWatch = fn("addSyscall"), fn("addKeys"), fn("addFileWatch")
	x.toARD, x.fromARD = m("ruleData", "toAuditRuleData"), m("ruleData", "fromAuditRuleData")
	x.toWire, x.fromWire = m("auditRuleData", "toWireFormat"), fn("fromWireFormat")
	x.getUID, x.getGID, x.getExit, x.getMsgType = fn("getUID"), fn("getGID"), fn("getExitCode"), fn("getAuditMsgType")
	x.getPerm, x.getFiletype, x.parseNum, x.getArch = fn("getPerm"), fn("getFiletype"), fn("parseNum"), fn("getArch")
	if ents, _, _, err := w.MapLit("rule", "fieldsTable"); err != nil {
		r.Anchor(err)
		x.ok = false
	} else {
		for _, kv := range ents {
			n, ok1 := cStr(kv.KeyC)
			v, ok2 := cUint(kv.ValC)
			if ok1 && ok2 {
				x.fields[n] = v
				x.fieldName[v] = n
			}
		}
	}
	if x.ok {
		r.UseFn(fnName(x.build), fnName(x.toCmd), fnName(x.addFilter), fnName(x.addInter), fnName(x.addSyscall), fnName(x.addKeys),
			fnName(x.addFileWatch), fnName(x.toARD), fnName(x.fromARD), fnName(x.toWire), fnName(x.fromWire))
	}
	return x
}

func (x *rulePkg) sortedFieldNames() []string {
	var ns []string
	for n := range x.fields {
		ns = append(ns, n)
	}
	sort.Strings(ns)
	return ns
}

// ---------------------------------------------------------------------------------------------
// encoder side: what addFilter does for one field constant

type encArm struct {
	Parser     string // callee whose result becomes the value ("" for string class)
	StringCls  bool
	Paths      int
	Problems   []string
	ValueTerms []string
}

// fieldSubject finds the SSA value of `field` (the looked-up fieldsTable entry) in addFilter.
func (x *rulePkg) encSubject() ssa.Value {
	var subj ssa.Value
	instrsOf(x.addFilter, func(in ssa.Instruction) {
		if ex, ok := in.(*ssa.Extract); ok && ex.Index == 0 {
			if lk, ok := ex.Tuple.(*ssa.Lookup); ok && Term(lk.X) == "rule.fieldsTable" {
				subj = ex
			}
		}
	})
	return subj
}

func sliceStoreName(st *ssa.Store, recv ssa.Value) string {
	fa, ok := st.Addr.(*ssa.FieldAddr)
	if !ok || fa.X != recv {
		return ""
	}
	return fieldName(fieldOfAddr(fa))
}

func (x *rulePkg) encoderArm(code uint64) encArm {
	var arm encArm
	subj := x.encSubject()
	if subj == nil {
		arm.Problems = append(arm.Problems, "cannot find the fieldsTable lookup in addFilter")
		return arm
	}
	undo := autoAlias(x.addFilter)
	defer undo()
	opT := ""
	instrsOf(x.addFilter, func(in ssa.Instruction) {
		if ex, ok := in.(*ssa.Extract); ok && ex.Index == 0 {
			if lk, ok := ex.Tuple.(*ssa.Lookup); ok && Term(lk.X) == "rule.operatorsTable" {
				opT = Term(ex)
			}
		}
	})
	ps, complete := Paths(x.addFilter, PathOpts{Assume: map[ssa.Value]string{subj: fmt.Sprint(code)}})
	if !complete {
		arm.Problems = append(arm.Problems, "path cap exceeded")
	}
	recv := ssa.Value(x.addFilter.Params[0])
	for _, p := range ps {
		ret := p.Ret()
		if ret == nil {
			continue
		}
		arm.Paths++
		counts := map[string]int{}
		var valTerm, strTerm, fieldTerm, flagTerm string
		for _, e := range p.Events {
			st, ok := e.Instr.(*ssa.Store)
			if !ok || e.Kind != EvStore {
				continue
			}
			n := sliceStoreName(st, recv)
			switch n {
			case "values", "fields", "fieldFlags", "strings":
				counts[n]++
				if c, isApp := isAppendCall(st.Val); isApp {
					base, elems, _, _ := appendParts(c)
					if f, b := loadedField(base); f == nil || f.Name() != n || b != recv || len(elems) != 1 {
						arm.Problems = append(arm.Problems, n+" is not extended by appending one element to itself")
					} else {
						switch n {
						case "values":
							valTerm = p.Term(elems[0])
						case "strings":
							strTerm = p.Term(elems[0])
						case "fields":
							fieldTerm = p.Term(elems[0])
						case "fieldFlags":
							flagTerm = p.Term(elems[0])
						}
					}
				} else {
					arm.Problems = append(arm.Problems, n+" is overwritten, not appended to")
				}
			}
		}
		if !isNilConst(ret.Results[0]) {
			if counts["values"]+counts["fields"]+counts["fieldFlags"]+counts["strings"] != 0 {
				arm.Problems = append(arm.Problems, "a path that returns an error has already appended to the rule: "+compactPath(p))
			}
			continue
		}
		if counts["values"] != 1 || counts["fields"] != 1 || counts["fieldFlags"] != 1 || counts["strings"] > 1 {
			arm.Problems = append(arm.Problems, fmt.Sprintf("success path appends values×%d fields×%d fieldFlags×%d strings×%d: %s", counts["values"], counts["fields"], counts["fieldFlags"], counts["strings"], compactPath(p)))
			continue
		}
		if fieldTerm != Term(subj) {
			arm.Problems = append(arm.Problems, "the field code appended is "+fieldTerm+", not the looked-up code")
		}
		if flagTerm != opT {
			arm.Problems = append(arm.Problems, "the operator appended is "+flagTerm+", not the looked-up operator")
		}
		if counts["strings"] == 1 {
			arm.StringCls = true
			if strTerm != "p3" || valTerm != "uint32(len(p3))" {
				arm.Problems = append(arm.Problems, fmt.Sprintf("string field appends value %s and string %s; want uint32(len(rhs)) and rhs", valTerm, strTerm))
			}
		} else {
			// parser = the call the value derives from
			parser := ""
			v := valTerm
			for _, cand := range []string{"getUID", "getGID", "getExitCode", "getAuditMsgType", "getArch", "getPerm", "getFiletype", "parseNum"} {
				if strings.Contains(v, cand+"#") {
					parser = cand
				}
			}
			if parser == "" {
				arm.Problems = append(arm.Problems, "value "+v+" does not come from a known value parser")
			}
			if arm.Parser != "" && arm.Parser != parser {
				arm.Problems = append(arm.Problems, "two different parsers on different paths: "+arm.Parser+" / "+parser)
			}
			arm.Parser = parser
			// the parser is applied to rhs, and its error was tested
			okGuard := false
			for _, l := range p.Lits() {
				if strings.HasPrefix(l, parser+"#") && strings.HasSuffix(l, " == nil") {
					okGuard = true
				}
			}
			if !okGuard {
				arm.Problems = append(arm.Problems, "the value of "+parser+" is used without its error having been tested")
			}
		}
		arm.ValueTerms = append(arm.ValueTerms, valTerm)
	}
	return arm
}

// ---------------------------------------------------------------------------------------------
// decoder side: what ToCommandLine prints for one field constant (resolveIds = false)

type decArm struct {
	Kind     string // string | signed32 | int | exit | msgtype | perm | filetype-name | skip | compare | unknown
	Detail   string
	OpOK     bool
	LhsOK    bool
	Problems []string
}

// renderPart is one piece of a rendered string: a literal or a value.
type renderPart struct {
	Lit string
	Val ssa.Value
}

// renderParts decomposes a string built by fmt.Sprintf with a format of literals and %s verbs,
// or by concatenation, into its pieces; nil when v is neither.
func renderParts(v ssa.Value) []renderPart {
	switch x := v.(type) {
	case *ssa.Call:
		if calleeName(x) != "fmt.Sprintf" {
			return nil
		}
		f, ok := constString(x.Call.Args[0])
		if !ok {
			return nil
		}
		els := varargElems(x, 1)
		var out []renderPart
		k := 0
		for len(f) > 0 {
			i := strings.Index(f, "%")
			if i < 0 {
				out = append(out, renderPart{Lit: f})
				break
			}
			if i > 0 {
				out = append(out, renderPart{Lit: f[:i]})
			}
			if i+1 >= len(f) || (f[i+1] != 's' && f[i+1] != 'v') || k >= len(els) {
				return nil
			}
			out = append(out, renderPart{Val: stripConv(els[k])})
			k++
			f = f[i+2:]
		}
		if k != len(els) {
			return nil
		}
		return out
	case *ssa.BinOp:
		if x.Op != token.ADD {
			return nil
		}
		if b, ok := x.Type().Underlying().(*types.Basic); !ok || b.Info()&types.IsString == 0 {
			return nil
		}
		var out []renderPart
		var flat func(ssa.Value)
		flat = func(y ssa.Value) {
			if b, ok := y.(*ssa.BinOp); ok && b.Op == token.ADD {
				flat(b.X)
				flat(b.Y)
				return
			}
			if s, ok := constString(y); ok {
				out = append(out, renderPart{Lit: s})
				return
			}
			out = append(out, renderPart{Val: y})
		}
		flat(x)
		return out
	}
	return nil
}

// renderRoots lists the values in fn that render a string starting with one of the literal
// prefixes (Sprintf calls, or the outermost node of a concatenation).
func renderRoots(fn *ssa.Function, prefixes ...string) []ssa.Value {
	var out []ssa.Value
	instrsOf(fn, func(in ssa.Instruction) {
		v, ok := in.(ssa.Value)
		if !ok {
			return
		}
		if b, isB := in.(*ssa.BinOp); isB && b.Referrers() != nil {
			for _, rf := range *b.Referrers() {
				if pb, isPB := rf.(*ssa.BinOp); isPB && pb.Op == token.ADD && pb.X == ssa.Value(b) {
					return // not the outermost node
				}
			}
		}
		ps := renderParts(v)
		if len(ps) == 0 || ps[0].Val != nil {
			return
		}
		for _, pre := range prefixes {
			if strings.HasPrefix(ps[0].Lit, pre) {
				out = append(out, v)
			}
		}
	})
	return out
}

// renderLoop finds the loop of ToCommandLine that renders the filters: the innermost loop
// containing the rendering of "-F <lhs><op><rhs>".
func (x *rulePkg) renderLoop() (*Loop, ssa.Value) {
	var froot ssa.Value
	for _, v := range renderRoots(x.toCmd, "-F ") {
		if ps := renderParts(v); len(ps) == 4 && ps[0].Lit == "-F " && ps[1].Val != nil && ps[2].Val != nil && ps[3].Val != nil {
			froot = v
		}
	}
	if froot == nil {
		return nil, nil
	}
	var best *Loop
	for _, l := range NaturalLoops(x.toCmd) {
		if l.Body[froot.(ssa.Instruction).Block()] && (best == nil || len(l.Body) < len(best.Body)) {
			best = l
		}
	}
	return best, froot
}

func varargElems(c *ssa.Call, argIdx int) []ssa.Value {
	sl, ok := c.Call.Args[argIdx].(*ssa.Slice)
	if !ok {
		return nil
	}
	al, ok := sl.X.(*ssa.Alloc)
	if !ok {
		return nil
	}
	n := int(al.Type().(*types.Pointer).Elem().Underlying().(*types.Array).Len())
	out := make([]ssa.Value, n)
	if refs := al.Referrers(); refs != nil {
		for _, r := range *refs {
			if ia, ok := r.(*ssa.IndexAddr); ok {
				idx, isC := constInt(ia.Index)
				if !isC || ia.Referrers() == nil {
					continue
				}
				for _, rr := range *ia.Referrers() {
					if st, ok := rr.(*ssa.Store); ok && st.Addr == ia && int(idx) < n {
						out[idx] = st.Val
					}
				}
			}
		}
	}
	return out
}

func (x *rulePkg) decoderArm(code uint64) decArm {
	var arm decArm
	loop, fcall := x.renderLoop()
	if loop == nil {
		arm.Problems = append(arm.Problems, "cannot find the filter rendering loop in ToCommandLine")
		return arm
	}
	// the switch subject: the ranged element of r.fields in this loop
	var subj ssa.Value
	for b := range loop.Body {
		if ifi, ok := b.Instrs[len(b.Instrs)-1].(*ssa.If); ok {
			if bo, ok := ifi.Cond.(*ssa.BinOp); ok && bo.Op == token.EQL {
				if _, isC := bo.Y.(*ssa.Const); isC && strings.Contains(Term(bo.X), ".fields[") {
					subj = bo.X
				}
			}
		}
	}
	if subj == nil {
		arm.Problems = append(arm.Problems, "cannot find the field switch in the rendering loop")
		return arm
	}
	idxT := ""
	if t := Term(subj); strings.Contains(t, ".fields[") {
		idxT = t[strings.Index(t, ".fields[")+len(".fields[") : len(t)-1]
	}
	ps, complete := Paths(x.toCmd, PathOpts{Start: loop.Header, MaxVisit: 1, StopAt: func(b *ssa.BasicBlock) bool { return b == loop.Header },
		Within: loop.Body, Assume: map[ssa.Value]string{subj: fmt.Sprint(code)}, Cap: 20000})
	if !complete {
		arm.Problems = append(arm.Problems, "path cap exceeded")
	}
	kinds := map[string]bool{}
	var roots []ssa.Value
	for _, v := range renderRoots(x.toCmd, "-F ", "-C ") {
		if loop.Body[v.(ssa.Instruction).Block()] {
			roots = append(roots, v)
		}
	}
	for _, p := range ps {
		if p.End != "stop" {
			continue
		}
		if p.HasLit("p1") {
			continue // resolveIds = true: outside the property's domain
		}
		// which rendering produced the argument on this path?
		var sp ssa.Value
		onPath := blockSet(p.Blocks)
		for _, v := range roots {
			if onPath[v.(ssa.Instruction).Block()] {
				sp = v
			}
		}
		if sp == nil {
			kinds["skip"] = true
			continue
		}
		parts := renderParts(sp)
		var els []ssa.Value
		for _, pt := range parts[1:] {
			els = append(els, pt.Val)
		}
		if strings.HasPrefix(parts[0].Lit, "-C ") {
			kinds["compare"] = true
			arm.OpOK = len(els) == 3 && els[1] != nil && strings.HasPrefix(Term(els[1]), "rule.reverseOperatorsTable[") && strings.Contains(Term(els[1]), ".fieldFlags["+idxT+"]")
			arm.LhsOK = true
			continue
		}
		_ = fcall // any "-F <field><op><value>" rendering inside the loop will do (a string field may have its own)
		if parts[0].Lit != "-F " || len(els) != 3 || els[0] == nil || els[1] == nil || els[2] == nil {
			arm.Problems = append(arm.Problems, "unexpected rendering "+Term(sp))
			continue
		}
		arm.LhsOK = Term(els[0]) == "rule.reverseFieldsTable["+Term(subj)+"]"
		opT := Term(els[1])
		arm.OpOK = strings.HasPrefix(opT, "rule.reverseOperatorsTable[") && strings.HasSuffix(opT, ".fieldFlags["+idxT+"]]")
		rhs := p.Resolve(els[2])
		t := Term(rhs)
		valT := strings.Replace(Term(subj), ".fields[", ".values[", 1)
		k := "unknown"
		switch {
		case strings.Contains(t, ".strings["):
			k = "string"
		case t == "strconv.Itoa(int(int32("+valT+")))":
			k = "signed32"
		case t == "strconv.Itoa(int("+valT+"))":
			k = "int"
		case t == "strconv.FormatUint(uint64("+valT+"), 10)":
			k = "uint"
		case isDashName(rhs):
			k = "exit-name"
		case t == "(auparse.AuditMessageType).String("+valT+")" || t == "(auparse.AuditMessageType).String(auparse.AuditMessageType("+valT+"))":
			k = "msgtype-name16"
		case strings.HasPrefix(t, "fmt.Sprintf(\"UNKNOWN[%d]\""):
			k = "unknown-bracket32"
		case t == "(rule.permission).String("+valT+")":
			k = "perm-letters"
		case t == "(rule.filetype).String("+valT+")":
			k = "filetype-name"
		}
		if k == "unknown" {
			arm.Detail = t
		}
		if k == "signed32" {
			// exit prints strconv.Itoa(exitCode) with exitCode = int(int32(value)) too: disambiguated by the parser side
		}
		kinds[k] = true
	}
	var ks []string
	for k := range kinds {
		ks = append(ks, k)
	}
	sort.Strings(ks)
	arm.Kind = strings.Join(ks, "+")
	return arm
}

// isDashName: v renders "-" followed by one value (the errno name).
func isDashName(v ssa.Value) bool {
	ps := renderParts(v)
	return len(ps) == 2 && ps[0].Lit == "-" && ps[1].Val != nil
}

// parserAccepts: does value parser `fn` accept what a printer of `kind` emits, for every 32-bit value?
func (x *rulePkg) parserAccepts(parser, kind string) (bool, string) {
	w := x.w
	// hasCall looks in fn and in the repository helpers it calls (a parser may delegate the
	// numeric part to a helper)
	var hasCallDepth func(fn *ssa.Function, callee string, pred func(ssa.CallInstruction) bool, depth int) bool
	hasCallDepth = func(fn *ssa.Function, callee string, pred func(ssa.CallInstruction) bool, depth int) bool {
		for _, c := range callsNamedIn(fn, callee) {
			if pred == nil || pred(c) {
				return true
			}
		}
		if depth >= 2 {
			return false
		}
		found := false
		instrsOf(fn, func(in ssa.Instruction) {
			if c, ok := in.(*ssa.Call); ok && !found {
				if g := c.Call.StaticCallee(); g != nil && g != fn && isRepoFunc(g) && g.Parent() == nil && !anchored[g] {
					found = hasCallDepth(g, callee, pred, depth+1)
				}
			}
		})
		return found
	}
	hasCall := func(fn *ssa.Function, callee string, pred func(ssa.CallInstruction) bool) bool {
		return hasCallDepth(fn, callee, pred, 0)
	}
	signed32 := func(fn *ssa.Function) bool {
		// a strconv.ParseInt(_, 10|0, 32) whose result is returned as uint32 on success
		return hasCall(fn, "strconv.ParseInt", func(c ssa.CallInstruction) bool {
			return isConstInt(c.Common().Args[2], 32) && (isConstInt(c.Common().Args[1], 10) || isConstInt(c.Common().Args[1], 0))
		})
	}
	unsigned32 := func(fn *ssa.Function) bool {
		return hasCall(fn, "strconv.ParseUint", func(c ssa.CallInstruction) bool {
			return isConstInt(c.Common().Args[2], 32) && (isConstInt(c.Common().Args[1], 10) || isConstInt(c.Common().Args[1], 0))
		})
	}
	byName := map[string]*ssa.Function{"getUID": x.getUID, "getGID": x.getGID, "getExitCode": x.getExit, "getAuditMsgType": x.getMsgType,
		"getPerm": x.getPerm, "getFiletype": x.getFiletype, "parseNum": x.parseNum, "getArch": x.getArch}
	fn := byName[parser]
	if fn == nil {
		return false, "unknown parser " + parser
	}
	for _, k := range strings.Split(kind, "+") {
		switch k {
		case "skip":
		case "signed32":
			// decimal in [-2^31, 2^31): needs a signed 32-bit parse for the negative half
			if !signed32(fn) && !callsThrough(fn, x.parseNum, w) {
				return false, parser + " parses only unsigned numbers (plus special cases): the printer emits negative numbers for values >= 2^31, which are rejected"
			}
			if !unsigned32(fn) && !signed32(fn) {
				return false, parser + " has no decimal parse"
			}
		case "int":
			// decimal of int(uint32): non-negative on 64-bit, possibly negative on 32-bit
			neg := w.Sizes.Sizeof(types.Typ[types.Int]) == 4
			if neg && !signed32(fn) && !callsThrough(fn, x.parseNum, w) {
				return false, parser + " cannot parse the negative numbers printed on a 32-bit platform"
			}
			if !unsigned32(fn) && !callsThrough(fn, x.parseNum, w) {
				return false, parser + " accepts no unsigned decimal number: the printer emits the numeric value, which is rejected"
			}
		case "uint":
			if !unsigned32(fn) && !callsThrough(fn, x.parseNum, w) {
				return false, parser + " accepts no unsigned decimal number"
			}
		case "exit-name":
			// "-NAME" with NAME from AuditErrnoToName: needs the HasPrefix("-") + AuditErrnoToNum path
			dash := func(c ssa.CallInstruction) bool { s, _ := constString(c.Common().Args[1]); return s == "-" }
			ok := hasCall(fn, "strings.HasPrefix", dash) || hasCall(fn, "strings.CutPrefix", dash) || hasCall(fn, "strings.TrimPrefix", dash)
			lk := false
			instrsOf(fn, func(in ssa.Instruction) {
				if l, isL := in.(*ssa.Lookup); isL && Term(l.X) == "auparse.AuditErrnoToNum" {
					lk = true
				}
			})
			if !ok || !lk {
				return false, parser + " does not accept -ERRNONAME"
			}
		case "msgtype-name16":
			if !hasCall(fn, "auparse.GetAuditMessageType", nil) {
				return false, parser + " does not resolve record type names"
			}
		case "unknown-bracket32":
			return false, "values above 65535 are printed as UNKNOWN[n] with a 32-bit n, but names are parsed by GetAuditMessageType, which reads n with ParseUint(_, 10, 16): the listing is rejected"
		case "perm-letters":
			if parser != "getPerm" {
				return false, "permission letters are parsed by " + parser
			}
		case "filetype-name":
			if parser != "getFiletype" {
				return false, "file type names are parsed by " + parser
			}
		case "string":
			return false, "a string is printed for a numeric field"
		default:
			return false, "printer kind " + k + " is not understood"
		}
	}
	return true, ""
}

// callsThrough: fn calls target (directly).
func callsThrough(fn, target *ssa.Function, w *World) bool {
	return len(callsIn(fn, target)) > 0
}

// ---------------------------------------------------------------------------------------------
// C07

func init() {
	props["C07"] = propC07
	propMeta["C07"] = PropMeta{
		Technique:   "static analysis: printer/parser agreement per field class (dispatch-table recovery on SSA with per-constant path enumeration), exact table checks",
		Explanation: "Round-trip ingredients decided structurally: the reverse tables used by the decoder are well-defined functions of the forward tables (injective forward tables, symmetric comparisons, reverse[v]=k construction); for every field code in fieldsTable the text ToCommandLine prints (with resolveIds=false) is of a kind the encoder's value parser for that field accepts over the whole 32-bit range; every rendered -F/-C/arch argument includes the operator looked up from the same filter's flags; where the encoder accepts a raw number (syscalls) a name-table miss in the decoder falls back to the number instead of failing; the string-class field sets of fromAuditRuleData, ToCommandLine and addFilter are the same set; the -w form is rendered only under allSyscalls and never for a rule with a field other than perm, path, dir and key. The architecture printed is the one that selects the syscall-name table; the decoder's mask loops cover all syscallBitmaskSize*32 bits; the -w form is reached only under list exit, action always and after an operator test against AUDIT_EQUAL.",
		NotDecided:  "Byte identity of the re-encoding for every rule; quoting (excluded by the property's own domain); the -w form's dependence on stat.",
		Assumptions: []string{"strconv parses what strconv prints"},
	}
}

func propC07(r *Run, w *World) {
	c07ReverseTables(r, w, "C07.R1")
	x := loadRulePkg(r, w)
	if !x.ok {
		return
	}
	// R2 + R5 data
	r.Rule("C07.R2", "printer ⊆ parser per field: for every code in fieldsTable, what ToCommandLine prints for the value (resolveIds=false) is accepted by the value parser addFilter uses for that field, over the whole 32-bit range", 40)
	encStr, decStr := map[string]bool{}, map[string]bool{}
	for _, name := range x.sortedFieldNames() {
		code := x.fields[name]
		enc := x.encoderArm(code)
		dec := x.decoderArm(code)
		key := "field " + name
		if len(enc.Problems) > 0 || len(dec.Problems) > 0 {
			r.Undecided(key, x.toCmd.Pos(), fmt.Sprintf("cannot classify: encoder %v decoder %v", enc.Problems, dec.Problems))
			continue
		}
		if enc.StringCls {
			encStr[name] = true
		}
		if dec.Kind == "string" {
			decStr[name] = true
		}
		switch {
		case name == "arch":
			// rendered before the loop (R3 checks the operator); the loop arm must skip it
			r.Check(dec.Kind == "skip" || dec.Kind == "", key, x.toCmd.Pos(), "rendered once, ahead of the syscalls", "arch is rendered again by the filter loop: "+dec.Kind)
		case enc.StringCls || dec.Kind == "string":
			r.Check(enc.StringCls && dec.Kind == "string", key, x.toCmd.Pos(), "string class on both sides", fmt.Sprintf("encoder string-class=%v, decoder prints %q: the string buffer gets out of step", enc.StringCls, dec.Kind))
		default:
			ok, why := x.parserAccepts(enc.Parser, dec.Kind)
			if dec.Kind == "unknown" {
				r.Undecided(key, x.toCmd.Pos(), "printer not understood: "+dec.Detail)
				continue
			}
			r.Check(ok, key, x.toCmd.Pos(), fmt.Sprintf("prints %s, parsed by %s", dec.Kind, enc.Parser), fmt.Sprintf("field %s: ToCommandLine prints %s but %s: %s", name, dec.Kind, enc.Parser, why))
		}
	}

	// exit: the name the decoder prints for a negative value comes from AuditErrnoToName and is
	// resolved by the encoder through AuditErrnoToNum: every printed name must resolve, to the
	// same number (the two tables are separate literals)
	{
		e2n, _, _, err1 := w.MapLit("auparse", "AuditErrnoToNum")
		n2e, _, _, err2 := w.MapLit("auparse", "AuditErrnoToName")
		if err1 != nil || err2 != nil {
			if err1 != nil {
				r.Anchor(err1)
			}
			if err2 != nil {
				r.Anchor(err2)
			}
		} else {
			toNum := map[string]uint64{}
			for _, kv := range e2n {
				k, _ := cStr(kv.KeyC)
				if v, ok := cUint(kv.ValC); ok {
					toNum[k] = v
				}
			}
			var bad []string
			pos := token.NoPos
			for _, kv := range n2e {
				n, ok1 := cUint(kv.KeyC)
				name, ok2 := cStr(kv.ValC)
				if back, has := toNum[name]; !ok1 || !ok2 || !has || back != n {
					bad = append(bad, fmt.Sprintf("%d→%s", n, name))
					pos = kv.Pos
				}
			}
			sort.Strings(bad)
			r.Check(len(bad) == 0, "field exit: every printed errno name is accepted", pos, fmt.Sprintf("%d names", len(n2e)),
				fmt.Sprintf("ToCommandLine lists an exit value by a name Build does not resolve (to the same number): %s — the listing of a rule Build accepted by number is rejected or re-encodes to another value", strings.Join(bad, ", ")))
		}
	}

	// R3
	r.Rule("C07.R3", "the operator is rendered: every rendered filter argument (-F, -C, arch) includes reverseOperatorsTable[fieldFlags[i]] of the same filter", 3)
	{
		n := 0
		kindsSeen := map[string]bool{}
		for _, root := range renderRoots(x.toCmd, "-F ", "-C ", "arch") {
			parts := renderParts(root)
			f := parts[0].Lit
			n++
			switch {
			case strings.HasPrefix(f, "-F "):
				kindsSeen["-F"] = true
			case strings.HasPrefix(f, "-C "):
				kindsSeen["-C"] = true
			case strings.HasPrefix(f, "arch"):
				kindsSeen["arch"] = true
			}
			hasOp := false
			nVals := 0
			for _, pt := range parts[1:] {
				e := pt.Val
				if e == nil {
					continue
				}
				nVals++
				t := Term(e)
				if strings.HasPrefix(t, "rule.reverseOperatorsTable[") && strings.Contains(t, ".fieldFlags[") {
					hasOp = true
					// same index as the value printed
					idx := t[strings.Index(t, ".fieldFlags[")+len(".fieldFlags[") : len(t)-2]
					if strings.HasPrefix(f, "arch") {
						// index must be existingFields[archField]
						if !strings.Contains(idx, "[11]") {
							hasOp = false
						}
					}
				}
			}
			r.Check(hasOp && nVals >= 2, "ToCommandLine render "+strings.TrimSpace(f), root.Pos(), "operator taken from the filter's flags",
				fmt.Sprintf("the argument rendered with prefix %q does not include the filter's operator: every operator is listed as a literal (e.g. arch!=b64 lists as arch=b64)", f))
		}
		// each of the three kinds is rendered somewhere (every site was checked above; a kind may have more than one)
		r.Check(n >= 3 && len(kindsSeen) == 3, "render sites", x.toCmd.Pos(), "", fmt.Sprintf("%d rendering sites found for %d kinds (want -F, -C, arch)", n, len(kindsSeen)))
		// per-field operator/LHS wiring
		for _, name := range x.sortedFieldNames() {
			if name == "arch" {
				continue
			}
			dec := x.decoderArm(x.fields[name])
			if dec.Kind == "skip" || dec.Kind == "" {
				continue
			}
			r.Check(dec.OpOK && dec.LhsOK, "field "+name+" lhs/op", x.toCmd.Pos(), "", "the field name or operator printed for "+name+" is not looked up from this filter's code/flags")
		}
	}

	// R10: the architecture that names the syscalls is the one that is listed
	r.Rule("C07.R10", "the architecture printed in the arch filter is the one that selects the syscall-name table: whenever ToCommandLine renders the arch argument, the value later compared with \"b32\"/\"b64\" to pick auparse.AuditSyscalls[arch] has been set to the architecture printed, whatever the operator (Build resolves names with the named architecture for = and != alike)", 1)
	{
		var printed ssa.Value
		var root ssa.Instruction
		for _, rt := range renderRoots(x.toCmd, "arch") {
			for _, pt := range renderParts(rt)[1:] {
				if pt.Val == nil || strings.HasPrefix(Term(pt.Val), "rule.reverseOperatorsTable[") {
					continue
				}
				printed = pt.Val
				root, _ = rt.(ssa.Instruction)
			}
		}
		var selector ssa.Value
		instrsOf(x.toCmd, func(in ssa.Instruction) {
			b, ok := in.(*ssa.BinOp)
			if !ok || (b.Op != token.EQL && b.Op != token.NEQ) {
				return
			}
			if k, isK := constString(b.Y); isK && k == "b32" {
				selector = stripConv(b.X)
			} else if k, isK := constString(b.X); isK && k == "b32" {
				selector = stripConv(b.Y)
			}
		})
		switch {
		case printed == nil || root == nil:
			r.Fail("arch rendering", x.toCmd.Pos(), "no rendering of the arch argument with a value part found")
		case selector == nil:
			r.Fail("syscall table selector", x.toCmd.Pos(), "no comparison with \"b32\" found in ToCommandLine")
		default:
			ok, how := false, ""
			if selector == stripConv(printed) {
				ok, how = true, "the printed value is the selector"
			} else if f, _ := loadedField(selector); f != nil {
				pf, _ := loadedField(printed)
				how = "selector is field " + fieldName(f) + ", never stored with the printed architecture under the conditions of the rendering"
				subset := func(st, at *ssa.BasicBlock) bool {
					have := map[string]bool{}
					for _, g := range GuardsAt(at) {
						have[g.String()] = true
					}
					for _, g := range GuardsAt(st) {
						if !have[g.String()] {
							return false
						}
					}
					return true
				}
				instrsOf(x.toCmd, func(in ssa.Instruction) {
					st, isSt := in.(*ssa.Store)
					if !isSt {
						return
					}
					fa, isFA := st.Addr.(*ssa.FieldAddr)
					if !isFA || fieldOfAddr(fa) != f {
						return
					}
					same := stripConv(st.Val) == stripConv(printed) || pf == f
					sb, rb := st.Block(), root.Block()
					if same && (sb == rb || sb.Dominates(rb) || (rb.Dominates(sb) && subset(sb, rb))) {
						ok, how = true, "field "+fieldName(f)+" is set to the printed architecture wherever the argument is rendered"
					}
				})
			} else {
				how = "selector " + Term(selector) + " is neither the printed value nor a field"
			}
			r.Check(ok, "ToCommandLine arch selects the syscall table", root.Pos(), how,
				"the architecture listed in the arch argument ("+Term(printed)+") is not, on every path that lists it, the value that selects the syscall-name table ("+Term(selector)+"): "+how+" — syscall numbers are then named from another architecture's table and the listing re-encodes to a different mask")
		}
	}

	// R11: the decoder looks at every bit of the mask
	r.Rule("C07.R11", "every installed syscall is listed: the loops of fromAuditRuleData that append to syscalls are counted loops from 0 by 1 with constant bounds whose trip counts multiply to syscallBitmaskSize*32 (64 words x 32 bits, or one loop over 2048 numbers), so no mask bit the encoder can set is skipped by the decoder", 1)
	{
		var app *ssa.Store
		for _, st := range storesOf(x.fromARD) {
			if fa, ok := st.Addr.(*ssa.FieldAddr); ok && fieldName(fieldOfAddr(fa)) == "syscalls" {
				if _, isApp := isAppendCall(st.Val); isApp {
					app = st
				}
			}
		}
		words, _, _ := w.constUint("rule", "syscallBitmaskSize")
		loopFn := x.fromARD
		var appAt ssa.Instruction
		if app != nil {
			appAt = app
		} else {
			// the mask walk may live in a helper that appends to a []uint32 it was handed
			instrsOf(x.fromARD, func(in ssa.Instruction) {
				ci, ok := in.(ssa.CallInstruction)
				if !ok || appAt != nil {
					return
				}
				callee := ci.Common().StaticCallee()
				if callee == nil || !w.inPkg(callee, "rule") || len(callee.Blocks) == 0 {
					return
				}
				inLoop := map[*ssa.BasicBlock]bool{}
				for _, l := range NaturalLoops(callee) {
					for b := range l.Body {
						inLoop[b] = true
					}
				}
				instrsOf(callee, func(in2 ssa.Instruction) {
					c, isC := in2.(*ssa.Call)
					if !isC || appAt != nil || !inLoop[c.Block()] {
						return
					}
					if _, isApp := isAppendCall(c); isApp && typeStr(c.Type()) == "[]uint32" {
						appAt, loopFn = c, callee
					}
				})
			})
		}
		if appAt == nil {
			// the walk is somewhere this rule does not look (a helper behind another helper, a
			// phi of slices): not decided here rather than reported
			r.OK("fromAuditRuleData syscall list (mask walk not located; not decided)", x.fromARD.Pos(), "no append to syscalls in fromAuditRuleData or a direct helper")
			r.Notes = append(r.Notes, "C07.R11: the loops that list the mask bits were not located in fromAuditRuleData or a direct helper; mask coverage not decided on this tree")
		} else {
			app := appAt
			prod := int64(1)
			var shape []string
			okAll := true
			n := 0
			for _, l := range NaturalLoops(loopFn) {
				if !l.Body[app.Block()] {
					continue
				}
				n++
				k, ok := tripCount(l)
				if !ok {
					okAll = false
					shape = append(shape, "?")
					continue
				}
				prod *= k
				shape = append(shape, fmt.Sprint(k))
			}
			want := int64(words) * 32
			r.Check(okAll && n >= 1 && prod == want, "fromAuditRuleData examines every mask bit", app.Pos(), strings.Join(shape, " x "),
				fmt.Sprintf("the loops around the append to syscalls run %s = %d times (constant trip counts found: %v), the mask has %d bits: a syscall the encoder installs in a skipped bit is never listed, and the listing re-encodes to a different mask", strings.Join(shape, " x "), prod, okAll, want))
		}
	}

	// R12: what the -w form says about list, action and operators
	r.Rule("C07.R12", "the -w form is printed only for what -w means: flags.Parse turns -w into an always,exit rule whose path/dir, perm and key filters compare with '=', so the rendering that starts with \"-w\" must be reached only under flags == AUDIT_FILTER_EXIT and action == AUDIT_ALWAYS, and the field walk that decides on the form must test each filter's operator against AUDIT_EQUAL (a never rule, or path!=..., listed as a watch re-encodes to a rule that means something else)", 1)
	{
		var wBlock *ssa.BasicBlock
		instrsOf(x.toCmd, func(in ssa.Instruction) {
			var ops []*ssa.Value
			for _, op := range in.Operands(ops) {
				if c, ok := (*op).(*ssa.Const); ok {
					if sv, isS := constString(c); isS && sv == "-w" && wBlock == nil {
						wBlock = in.Block()
					}
				}
			}
		})
		if wBlock == nil {
			r.Fail("-w rendering", x.toCmd.Pos(), "ToCommandLine has no \"-w\" rendering")
		} else {
			exitF, _, _ := w.constUint("rule", "exitFilter")
			alwaysA, _, _ := w.constUint("rule", "alwaysAction")
			eqOp, _, _ := w.constUint("rule", "equalOperator")
			okList, okAct := false, false
			lits := GuardLits(wBlock)
			for _, l := range lits {
				if strings.HasSuffix(l, fmt.Sprintf(".flags == %d", exitF)) {
					okList = true
				}
				if strings.HasSuffix(l, fmt.Sprintf(".action == %d", alwaysA)) {
					okAct = true
				}
			}
			r.Check(okList, "-w rendering under list exit", wBlock.Instrs[0].Pos(), "flags == AUDIT_FILTER_EXIT", fmt.Sprintf("the -w form is printed without having established that the rule is on the exit list (guards in force: %v): a rule on another list is listed as a watch and re-encodes to an exit rule", lits))
			r.Check(okAct, "-w rendering under action always", wBlock.Instrs[0].Pos(), "action == AUDIT_ALWAYS", fmt.Sprintf("the -w form is printed without having established that the action is always (guards in force: %v): `-a never,exit -F path=P -F perm=wa` is listed as `-w P -p wa`, which installs the opposite rule", lits))
			canReach := map[*ssa.BasicBlock]bool{}
			work := []*ssa.BasicBlock{wBlock}
			for len(work) > 0 {
				b := work[len(work)-1]
				work = work[:len(work)-1]
				if canReach[b] {
					continue
				}
				canReach[b] = true
				work = append(work, b.Preds...)
			}
			inLoop := map[*ssa.BasicBlock]bool{}
			for _, l := range NaturalLoops(x.toCmd) {
				for b := range l.Body {
					inLoop[b] = true
				}
			}
			okOp := false
			instrsOf(x.toCmd, func(in ssa.Instruction) {
				b, ok := in.(*ssa.BinOp)
				if !ok || (b.Op != token.EQL && b.Op != token.NEQ) || !canReach[b.Block()] || !inLoop[b.Block()] {
					return
				}
				for _, pr := range [][2]ssa.Value{{b.X, b.Y}, {b.Y, b.X}} {
					if k, isK := constInt(pr[1]); isK && uint64(k) == eqOp && strings.Contains(Term(pr[0]), ".fieldFlags[") {
						okOp = true
					}
				}
			})
			r.Check(okOp, "-w rendering after an operator test in the field walk", wBlock.Instrs[0].Pos(), "fieldFlags[i] compared with AUDIT_EQUAL", "no loop on the way to the -w rendering compares a filter's operator (fieldFlags[i]) with AUDIT_EQUAL: `-F path!=P -F perm=wa` is listed as `-w P -p wa`, which watches exactly the file the rule excluded")
		}
	}

	// R4
	r.Rule("C07.R4", "encoder-accepted domains are total in the decoder: a syscall number without a name in the table is listed by number (the encoder accepts raw numbers), not reported as an error", 1)
	{
		n := 0
		for _, b := range x.toCmd.Blocks {
			ifi, ok := b.Instrs[len(b.Instrs)-1].(*ssa.If)
			if !ok {
				continue
			}
			l := Lit(ifi.Cond, true)
			if !strings.HasPrefix(l, "has(auparse.AuditSyscalls[") {
				continue
			}
			n++
			miss := b.Succs[1]
			ret, isRet := miss.Instrs[len(miss.Instrs)-1].(*ssa.Return)
			bad := isRet && len(ret.Results) == 2 && !isNilConst(ret.Results[1])
			r.Check(!bad, "ToCommandLine syscall-name-miss", ifi.Pos(), "falls back to the number", "a syscall number that has no name (Build accepts -S <number>) makes ToCommandLine fail instead of listing the number")
		}
		r.Check(n == 1, "syscall name lookup sites", x.toCmd.Pos(), "", fmt.Sprintf("%d", n))
	}

	// R6
	r.Rule("C07.R6", "the decoder takes the wire words as they are: fromAuditRuleData stores Fields[i], Values[i] and FieldFlags[i] of the wire header into fields/values/fieldFlags with one index, unmodified (a mask on the flags word must keep every operator bit of operatorsTable)", 3)
	{
		fn := x.fromARD
		var opBits uint64
		if ents, _, _, err := w.MapLit("rule", "operatorsTable"); err == nil {
			for _, e := range ents {
				if v, ok := cUint(e.ValC); ok {
					opBits |= v
				}
			}
		}
		got := map[string]ssa.Value{}
		for _, st := range storesOf(fn) {
			t := AddrTerm(st.Addr)
			for _, f := range []string{"fields", "values", "fieldFlags"} {
				if strings.HasPrefix(t, "p0."+f+"[") {
					got[f] = st.Val
				}
			}
		}
		for f, src := range map[string]string{"fields": "Fields", "values": "Values", "fieldFlags": "FieldFlags"} {
			v := got[f]
			ok := false
			detail := "no indexed store into " + f
			if v != nil {
				val := stripConv(v)
				// value-preserving type change of the element (field(uint32), operator(uint32)) is fine
				if cv, isCv := val.(*ssa.Convert); isCv {
					st, _ := cv.X.Type().Underlying().(*types.Basic)
					dt, _ := cv.Type().Underlying().(*types.Basic)
					if st != nil && dt != nil && st.Kind() == types.Uint32 && dt.Kind() == types.Uint32 {
						val = stripConv(cv.X)
					}
				}
				mask := uint64(0xffffffff)
				if bo, isBo := val.(*ssa.BinOp); isBo && bo.Op == token.AND {
					if k, isK := constInt(bo.Y); isK {
						mask, val = uint64(uint32(k)), stripConv(bo.X)
					} else if k, isK := constInt(bo.X); isK {
						mask, val = uint64(uint32(k)), stripConv(bo.Y)
					}
				}
				t := Term(val)
				okSrc := strings.HasPrefix(t, "p1.auditRuleHeader."+src+"[") || strings.HasPrefix(t, "rule.field(p1.auditRuleHeader."+src+"[") || strings.HasPrefix(t, "rule.operator(p1.auditRuleHeader."+src+"[")
				okMask := mask == 0xffffffff || (f == "fieldFlags" && opBits != 0 && mask&opBits == opBits)
				ok = okSrc && okMask
				detail = fmt.Sprintf("%s[i] is filled from %s with mask %#x (operator bits %#x)", f, Term(v), mask, opBits)
			}
			r.Check(ok, "decoder copies "+src, fn.Pos(), "unmodified", "the decoder does not take "+src+"[i] as it is on the wire: "+detail+": a listed rule no longer says what was installed")
		}
	}

	// R5
	r.Rule("C07.R5", "string-class field sets agree: fromAuditRuleData, ToCommandLine and addFilter treat the same set of field codes as strings", 3)
	{
		fromStr := x.decoderStringFields(r)
		set := func(m map[string]bool) string {
			var s []string
			for k := range m {
				s = append(s, k)
			}
			sort.Strings(s)
			return strings.Join(s, ",")
		}
		r.Check(set(fromStr) == set(encStr), "fromAuditRuleData vs addFilter", x.fromARD.Pos(), set(encStr), fmt.Sprintf("decoder takes strings for {%s}, encoder stores strings for {%s}", set(fromStr), set(encStr)))
		r.Check(set(decStr) == set(encStr), "ToCommandLine vs addFilter", x.toCmd.Pos(), "", fmt.Sprintf("printer takes strings for {%s}, encoder stores strings for {%s}", set(decStr), set(encStr)))
		r.Check(len(encStr) >= 14, "string class size", x.addFilter.Pos(), fmt.Sprint(len(encStr)), fmt.Sprintf("only %d string-class fields", len(encStr)))
	}

	// R9 the listing is read back by flags.Parse
	flagPatterns(r, w, "C07.R9")

	// R8 the string cursor of the rendering loop
	r.Rule("C07.R8", "strings are handed out from the first: the index with which the filter rendering loop takes a string from r.strings is 0 when the loop is entered (a loop-carried counter whose entry value is 0, or a local that nothing outside the loop sets to anything but 0); the watch detection that runs before it has its own cursor", 1)
	{
		loop, _ := x.renderLoop()
		if loop == nil {
			r.Fail("rendering loop", x.toCmd.Pos(), "cannot find the filter rendering loop in ToCommandLine")
		} else {
			n := 0
			instrsOf(x.toCmd, func(in ssa.Instruction) {
				if !loop.Body[in.Block()] {
					return
				}
				var idx ssa.Value
				var base ssa.Value
				switch v := in.(type) {
				case *ssa.IndexAddr:
					idx, base = v.Index, v.X
				case *ssa.Index:
					idx, base = v.Index, v.X
				default:
					return
				}
				if !strings.HasSuffix(Term(base), ".strings") {
					return
				}
				n++
				key := "string cursor " + Term(idx)
				// through conversions
				for {
					if c, ok := idx.(*ssa.Convert); ok {
						idx = c.X
						continue
					}
					break
				}
				switch v := idx.(type) {
				case *ssa.Phi:
					ok := v.Block() == loop.Header
					for i, e := range v.Edges {
						if loop.Body[v.Block().Preds[i]] {
							continue
						}
						if k, isK := constInt(e); !isK || k != 0 {
							ok = false
						}
					}
					r.Check(ok, key, in.Pos(), "starts at 0", "the rendering loop takes its first string at an index that is not 0 on entry: "+Term(v))
				case *ssa.UnOp:
					al, isAl := v.X.(*ssa.Alloc)
					if v.Op != token.MUL || !isAl {
						r.Undecided(key, in.Pos(), "the string index is neither a loop counter nor a local variable")
						return
					}
					// every store to the cell outside the loop stores 0; closures that bind it and store to it are not called outside the loop
					ok := true
					why := ""
					var scanFn func(f *ssa.Function, cell ssa.Value, inLoopOnly bool)
					scanFn = func(f *ssa.Function, cell ssa.Value, outer bool) {
						instrsOf(f, func(j ssa.Instruction) {
							switch y := j.(type) {
							case *ssa.Store:
								if y.Addr != cell {
									return
								}
								if outer && loop.Body[y.Block()] {
									return
								}
								if k, isK := constInt(y.Val); !isK || k != 0 {
									ok = false
									why = "it is set to " + Term(y.Val) + " outside the loop (" + x.w.Prog.Fset.Position(y.Pos()).String() + ")"
								}
							case *ssa.MakeClosure:
								fn2, _ := y.Fn.(*ssa.Function)
								for bi, b := range y.Bindings {
									if b == cell && fn2 != nil && bi < len(fn2.FreeVars) {
										if !freeVarOnlyLoaded(fn2.FreeVars[bi], 0) {
											// the closure writes the cursor: it must only be called inside the loop
											for _, ref := range *y.Referrers() {
												if ci, isCall := ref.(ssa.CallInstruction); isCall && ci.Common().Value == ssa.Value(y) && loop.Body[ref.Block()] {
													continue
												}
												if _, isDbg := ref.(*ssa.DebugRef); isDbg {
													continue
												}
												ok = false
												why = "a closure that advances it is used outside the loop"
											}
										}
									}
								}
							}
						})
					}
					scanFn(x.toCmd, al, true)
					r.Check(ok, key, in.Pos(), "only 0 is stored outside the loop", "the rendering loop can start with its string cursor already advanced: "+why+" — the values of the string fields are then taken from the wrong entries or the listing fails")
				default:
					r.Undecided(key, in.Pos(), "the string index is neither a loop counter nor a local variable")
				}
			})
			r.Check(n >= 1, "rendering loop takes strings", x.toCmd.Pos(), "", "no access to r.strings in the rendering loop")
		}
	}

	// R7 the watch form
	r.Rule("C07.R7", "the -w form is printed only for what -w installs: the rendering that starts with \"-w\" is reached only under allSyscalls, and never from the arm of the field walk taken by a field other than perm, path, dir and key (a rule limited to some syscalls, or with another filter, must be listed in the -a form or it re-encodes to a different rule)", 2)
	{
		var wBlocks []*ssa.BasicBlock
		instrsOf(x.toCmd, func(in ssa.Instruction) {
			var ops []*ssa.Value
			for _, op := range in.Operands(ops) {
				if c, ok := (*op).(*ssa.Const); ok {
					if sv, isS := constString(c); isS && sv == "-w" {
						wBlocks = append(wBlocks, in.Block())
					}
				}
			}
		})
		isW := map[*ssa.BasicBlock]bool{}
		for _, b := range wBlocks {
			if isW[b] {
				continue
			}
			isW[b] = true
			okAll := false
			for _, l := range GuardLits(b) {
				if strings.HasSuffix(l, ".allSyscalls") && !strings.HasPrefix(l, "!") {
					okAll = true
				}
			}
			r.Check(okAll, "-w rendering under allSyscalls", b.Instrs[0].Pos(), "", "ToCommandLine prints the -w form on a path that has not established allSyscalls: a rule limited to some syscalls is listed as a watch, which re-encodes to a rule on all syscalls")
		}
		if len(wBlocks) == 0 {
			r.Fail("-w rendering", x.toCmd.Pos(), "ToCommandLine has no \"-w\" rendering")
		}
		// default arms of the watch detection: blocks where one subject is known to differ from
		// exactly the codes of perm, path, dir and key
		want := map[string]bool{}
		for _, n := range []string{"perm", "path", "dir", "key"} {
			want[fmt.Sprint(x.fields[n])] = true
		}
		// only the part of the function from which the rendering is still reachable matters
		canReach := map[*ssa.BasicBlock]bool{}
		work := append([]*ssa.BasicBlock(nil), wBlocks...)
		for len(work) > 0 {
			b := work[len(work)-1]
			work = work[:len(work)-1]
			if canReach[b] {
				continue
			}
			canReach[b] = true
			work = append(work, b.Preds...)
		}
		nD := 0
		neRe := regexp.MustCompile(`^(.+) != ([0-9]+)$`)
		isDefault := func(b *ssa.BasicBlock) bool {
			bySubj := map[string]map[string]bool{}
			for _, l := range GuardLits(b) {
				if m := neRe.FindStringSubmatch(l); m != nil {
					if bySubj[m[1]] == nil {
						bySubj[m[1]] = map[string]bool{}
					}
					bySubj[m[1]][m[2]] = true
				}
			}
			for _, ne := range bySubj {
				if len(ne) != len(want) {
					continue
				}
				same := true
				for k := range want {
					if !ne[k] {
						same = false
					}
				}
				if same {
					return true
				}
			}
			return false
		}
		for _, b := range x.toCmd.Blocks {
			// the outermost blocks that know the field to be none of the four
			if !canReach[b] && !isW[b] {
				// still a default arm (it may leave the region at once), but only blocks inside matter for reachability
			}
			if !isDefault(b) || (b.Idom() != nil && isDefault(b.Idom())) {
				continue
			}
			nD++
			ps, complete := Paths(x.toCmd, PathOpts{Start: b, StopAt: func(bb *ssa.BasicBlock) bool { return isW[bb] }, Within: canReach, Cap: 2000})
			reach := ""
			for _, p := range ps {
				if p.End == "stop" {
					reach = compactPath(p)
					break
				}
			}
			switch {
			case reach != "":
				r.Fail("other field leaves the watch form", b.Instrs[0].Pos(), "a rule with a field other than perm, path, dir and key can still be printed in the -w form (the extra filter is lost on re-encoding): "+reach)
			case !complete:
				r.Undecided("other field leaves the watch form", b.Instrs[0].Pos(), "path cap exceeded")
			default:
				r.OK("other field leaves the watch form", b.Instrs[0].Pos(), "")
			}
		}
		if nD == 0 {
			r.Fail("watch detection default arm", x.toCmd.Pos(), "ToCommandLine has no arm for fields other than perm, path, dir and key in its watch detection")
		}
	}

}

// ---------------------------------------------------------------------------------------------
// C06

func init() {
	props["C06"] = propC06
	propMeta["C06"] = PropMeta{
		Technique:   "static analysis: constant/layout evaluation against the frozen UAPI header per GOARCH, per-field-constant SSA path enumeration, expression evaluation of the padding formula",
		Explanation: "Exact: every field/operator/comparison/list/action/permission/filetype code and size constant equals the kernel's UAPI #define, and auditRuleHeader has struct audit_rule_data's layout on every analysed GOARCH. Structural: toWireFormat allocates header + len(Buf) + pad with pad = (4 - n mod 4) mod 4 (evaluated for every residue), copies the header at 0 and Buf at the header size; toAuditRuleData stores len(fields) as the field count, copies the three parallel arrays with one index, concatenates the strings in order and stores len(Buf) after the last append; for every field code, every success path of addFilter appends exactly one value, field code and operator (and for string fields the string with value = its length) and no error path appends anything; the syscall mask sets bit n%32 of word n/32 and the all-syscalls pattern is the one the kernel lists back; every success path of addSyscall keeps the all-syscalls flag and the syscall list in step; value parsers convert with matching width and signedness; keys are joined with the key separator; a file watch is exit,always with path|dir, perm, key in that order. Nothing reachable from Build writes shared package-level state, and the parallel slices fields/values/fieldFlags/strings only grow by append on the encoding side.",
		NotDecided:  "That the bytes equal what auditctl would emit for every accepted rule (no independent encoder is run); operator admissibility per field beyond the explicit tests in addFilter.",
		Assumptions: []string{"frozen UAPI header under /verif/ref"},
	}
}

// evalInt evaluates an integer SSA expression under an environment.
func evalInt(v ssa.Value, env map[ssa.Value]int64) (int64, bool) {
	if n, ok := env[v]; ok {
		return n, true
	}
	switch x := v.(type) {
	case *ssa.Const:
		return constInt(x)
	case *ssa.BinOp:
		a, ok1 := evalInt(x.X, env)
		b, ok2 := evalInt(x.Y, env)
		if !ok1 || !ok2 {
			return 0, false
		}
		switch x.Op {
		case token.ADD:
			return a + b, true
		case token.SUB:
			return a - b, true
		case token.MUL:
			return a * b, true
		case token.REM:
			if b == 0 {
				return 0, false
			}
			return a % b, true
		case token.QUO:
			if b == 0 {
				return 0, false
			}
			return a / b, true
		case token.AND:
			return a & b, true
		case token.AND_NOT:
			return a &^ b, true
		case token.OR:
			return a | b, true
		case token.SHL:
			return a << uint(b), true
		case token.SHR:
			return a >> uint(b), true
		}
	case *ssa.Convert:
		return evalInt(x.X, env)
	case *ssa.ChangeType:
		return evalInt(x.X, env)
	}
	return 0, false
}

func propC06(r *Run, w *World) {
	c06Codes(r, w)
	c06Layout(r, w)
	x := loadRulePkg(r, w)
	if !x.ok {
		return
	}
	hdrSize, _, _ := w.constUint("rule", "ruleHeaderSize")

	// R3 framing
	r.Rule("C06.R3", "framing: toWireFormat allocates header + len(Buf) + pad, pad = (4 - n mod 4) mod 4 for every residue of n; the header is copied to offset 0 and Buf to offset ruleHeaderSize; the buffer is what is returned", 5)
	{
		fn := x.toWire
		var mk *ssa.MakeSlice
		nMk := 0
		var lenCall *ssa.Call
		instrsOf(fn, func(in ssa.Instruction) {
			if m, ok := in.(*ssa.MakeSlice); ok {
				mk = m
				nMk++
			}
			if c, ok := in.(*ssa.Call); ok && calleeName(c) == "len" && strings.HasSuffix(Term(c.Call.Args[0]), ".Buf") {
				lenCall = c
			}
		})
		if nMk != 1 || lenCall == nil {
			r.Fail("toWireFormat shape", fn.Pos(), "expected one allocation and len(r.Buf)")
		} else {
			okPad := true
			detail := ""
			for l := int64(0); l < 8; l++ {
				got, ok := evalInt(mk.Len, map[ssa.Value]int64{lenCall: l})
				n := int64(hdrSize) + l
				want := n + (4-n%4)%4
				if !ok || got != want {
					okPad = false
					detail = fmt.Sprintf("for len(Buf)=%d the allocation is %d bytes (evaluable=%v), want %d", l, got, ok, want)
				}
			}
			r.Check(okPad, "total length padded to 4", mk.Pos(), "header + len(Buf) + (4 - n%4)%4", "the wire length is not header + len(Buf) rounded up to a multiple of 4: "+detail)
			undo := alias(mk, "buf")
			cps := callsNamedIn(fn, "copy")
			okH, okB := false, false
			for _, c := range cps {
				a := c.Common().Args
				if Term(a[0]) == "buf" && strings.HasPrefix(Term(a[1]), fmt.Sprintf("*[%d]byte(unsafe.Pointer(&local.", hdrSize)) {
					okH = true
				}
				// the same image through a pointer receiver
				if Term(a[0]) == "buf" && len(fn.Params) > 0 && strings.HasPrefix(Term(a[1]), fmt.Sprintf("*[%d]byte(unsafe.Pointer(p0))", hdrSize)) {
					if _, isPtr := fn.Params[0].Type().Underlying().(*types.Pointer); isPtr {
						okH = true
					}
				}
				if Term(a[0]) == fmt.Sprintf("buf[%d:]", hdrSize) && strings.HasSuffix(Term(a[1]), ".Buf") {
					okB = true
				}
			}
			r.Check(okH && len(cps) == 2, "header copied to offset 0", fn.Pos(), "", "the header image is not copied to the start of the buffer")
			r.Check(okB, "Buf copied to offset ruleHeaderSize", fn.Pos(), "", "the string buffer is not copied to buf[ruleHeaderSize:]")
			rets := returnsOf(fn)
			r.Check(len(rets) == 1 && stripConv(rets[0].Results[0]) == ssa.Value(mk), "returns the buffer", fn.Pos(), "", "toWireFormat does not return the buffer it filled")
			undo()
		}
		// Build returns toWireFormat of toAuditRuleData's result
		okB := false
		for _, ret := range retEdges(x.build) {
			if isNilConst(ret.Results[1]) {
				undo := autoAlias(x.build)
				okB = Term(ret.Results[0]) == "toWireFormat#1" && ret.Holds("toAuditRuleData#1#1 == nil")
				for _, c := range callsIn(x.build, x.toWire) {
					okB = okB && Term(c.Common().Args[0]) == "toAuditRuleData#1#0"
				}
				undo()
			}
		}
		r.Check(okB, "Build → toAuditRuleData → toWireFormat", x.build.Pos(), "", "Build does not return the wire form of the rule data it built (under err == nil)")
	}

	// R4 header fields
	r.Rule("C06.R4", "header fields: toAuditRuleData stores flags, action and len(fields); copies Fields/FieldFlags/Values from fields/fieldFlags/values with one index; appends the strings in order; stores len(Buf) into BufLen after the last append", 6)
	{
		fn := x.toARD
		var local string
		for _, st := range storesOf(fn) {
			if isParamValue(st.Val, fn.Params[0]) {
				local = AddrTerm(st.Addr)
			}
		}
		if local == "" {
			local = "p0" // pointer receiver: the rule data is read through the parameter itself
		}
		got := map[string]string{}
		var bufLenSt *ssa.Store
		var lastBufAppend *ssa.Store
		for _, st := range storesOf(fn) {
			t := AddrTerm(st.Addr)
			if i := strings.Index(t, ".auditRuleHeader."); i >= 0 {
				got[t[i+len(".auditRuleHeader."):]] = Term(st.Val)
				if strings.HasSuffix(t, ".BufLen") {
					bufLenSt = st
				}
			}
			if strings.HasSuffix(t, ".Buf") && strings.HasPrefix(t, "new(rule.auditRuleData)") {
				lastBufAppend = st
				got["Buf"] = Term(st.Val)
			}
		}
		idx := ""
		for k := range got {
			if strings.HasPrefix(k, "Fields[") {
				idx = k[len("Fields[") : len(k)-1]
			}
		}
		want := map[string]string{
			"Flags": local + ".flags", "Action": local + ".action", "FieldCount": "uint32(len(" + local + ".fields))",
			"Fields[" + idx + "]": local + ".fields[" + idx + "]", "FieldFlags[" + idx + "]": local + ".fieldFlags[" + idx + "]", "Values[" + idx + "]": local + ".values[" + idx + "]",
		}
		var ks []string
		for k := range want {
			ks = append(ks, k)
		}
		sort.Strings(ks)
		r.Check(idx != "", "header arrays copied element by element", fn.Pos(), "one index for Fields/FieldFlags/Values", "the three header arrays are not filled by indexed stores Fields[i]/FieldFlags[i]/Values[i] = fields[i]/fieldFlags[i]/values[i]: the field triples cannot be shown to stay aligned (and bounded by the array length)")
		for _, k := range ks {
			if idx == "" && strings.Contains(k, "[") {
				continue
			}
			r.Check(got[k] == want[k], "header."+strings.Split(k, "[")[0], fn.Pos(), want[k], fmt.Sprintf("header field %s is filled from %q; want %q", k, got[k], want[k]))
		}
		// Buf = append(Buf, <strings[i]>...) with i walking forward over r.strings (range or counted
		// loop; the element may be converted to []byte or spread directly)
		okBuf := false
		if lastBufAppend != nil {
			if c, isApp := isAppendCall(lastBufAppend.Val); isApp {
				base, _, spread, _ := appendParts(c)
				if spread != nil && AddrTerm(lastBufAppend.Addr) == Term(base) {
					sp := spread
					if cv, isCv := sp.(*ssa.Convert); isCv {
						sp = cv.X
					}
					okBuf = isForwardElem(sp, func(b ssa.Value) bool { return Term(b) == local+".strings" })
				}
			}
		}
		r.Check(okBuf, "Buf = strings concatenated in order", fn.Pos(), "", "Buf is not built by appending r.strings in order: "+got["Buf"])
		okLen := bufLenSt != nil && lastBufAppend != nil && strings.HasPrefix(Term(bufLenSt.Val), "uint32(len(new(rule.auditRuleData)") && strings.HasSuffix(Term(bufLenSt.Val), ".Buf))")
		if okLen {
			// BufLen's block is after the string loop: not inside any loop, and dominated by the loop header's exit
			for _, l := range NaturalLoops(fn) {
				if l.Body[bufLenSt.Block()] {
					okLen = false
				}
			}
			okLen = okLen && !bufLenSt.Block().Dominates(lastBufAppend.Block())
		}
		r.Check(okLen, "BufLen = len(Buf) after the last append", fn.Pos(), "", "BufLen is not len(Buf) taken after all strings were appended")
		// field count guard
		okCnt := false
		for _, ret := range retEdges(fn) {
			if isNilConst(ret.Results[1]) && ret.Holds("len("+local+".fields) <= 64") {
				okCnt = true
			}
		}
		r.Check(okCnt, "at most maxFields filters", fn.Pos(), "", "a rule with more than 64 fields is not rejected")
	}

	// R5 parallel slices
	r.Rule("C06.R5", "parallel slices: for every field code, every success path of addFilter appends exactly one value, the looked-up field code and operator (string fields: the string, with value = uint32(len(rhs))), and no error path appends anything; addInterFieldComparator likewise", 42)
	for _, name := range x.sortedFieldNames() {
		enc := x.encoderArm(x.fields[name])
		r.Check(len(enc.Problems) == 0 && enc.Paths > 0, "addFilter field "+name, x.addFilter.Pos(), fmt.Sprintf("%d paths, parser %s string=%v", enc.Paths, enc.Parser, enc.StringCls),
			fmt.Sprintf("addFilter(%s): %s", name, strings.Join(enc.Problems, "; ")))
		// which fields carry a string in the buffer is the kernel's choice (audit_data_to_entry:
		// the LSM subject/object fields 13-17 and 19-23, AUDIT_WATCH 105, AUDIT_DIR 107,
		// AUDIT_EXE 112, AUDIT_FILTERKEY 210); everything else is a number in values[i]
		if len(enc.Problems) == 0 && enc.Paths > 0 {
			code := x.fields[name]
			kernelString := (code >= 13 && code <= 17) || (code >= 19 && code <= 23) || code == 105 || code == 107 || code == 112 || code == 210
			r.Check(enc.StringCls == kernelString, "addFilter field "+name+" class", x.addFilter.Pos(), fmt.Sprintf("string=%v", kernelString),
				fmt.Sprintf("addFilter(%s): the encoder treats field %d as string=%v, the kernel as string=%v: the value slot holds the wrong thing and the buffer the wrong bytes", name, code, enc.StringCls, kernelString))
		}
	}
	{
		fn := x.addInter
		undo := autoAlias(fn)
		ps, _ := Paths(fn, PathOpts{})
		for i, p := range ps {
			ret := p.Ret()
			if ret == nil {
				continue
			}
			counts := map[string]int{}
			vals := map[string]string{}
			for _, e := range p.Events {
				if st, ok := e.Instr.(*ssa.Store); ok && e.Kind == EvStore {
					if n := sliceStoreName(st, fn.Params[0]); n != "" {
						counts[n]++
						if c, isApp := isAppendCall(st.Val); isApp {
							_, elems, _, _ := appendParts(c)
							if len(elems) == 1 {
								vals[n] = Term(elems[0])
							}
						}
					}
				}
			}
			key := fmt.Sprintf("addInterFieldComparator path#%d", i)
			if !isNilConst(ret.Results[0]) {
				r.Check(len(counts) == 0, key+" error", ret.Pos(), "", "an error path appends to the rule")
				continue
			}
			fc, _, _ := w.constUint("rule", "fieldCompare")
			ok := counts["fields"] == 1 && counts["fieldFlags"] == 1 && counts["values"] == 1 && counts["strings"] == 0 &&
				vals["fields"] == fmt.Sprint(fc) && strings.HasPrefix(vals["fieldFlags"], "rule.operatorsTable[p2]") && strings.HasPrefix(vals["values"], "rule.comparisonsTable[rule.fieldsTable[p1]][rule.fieldsTable[p3]]")
			r.Check(ok, key, ret.Pos(), "one (fieldCompare, op, comparison code) triple", fmt.Sprintf("inter-field comparison appends %v / %v", counts, vals))
		}
		undo()
	}

	// R6 mask
	r.Rule("C06.R6", "mask: bit n%32 of word n/32 is or-ed into Mask for each requested syscall; the all-syscalls pattern is 0xFFFFFFFF in every word and 0x0000FFFF in the last; every success path of addSyscall either appends one syscall and clears allSyscalls or sets allSyscalls without appending", 4)
	{
		fn := x.toARD
		var maskStores []*ssa.Store
		for _, st := range storesOf(fn) {
			if strings.Contains(AddrTerm(st.Addr), ".Mask[") {
				maskStores = append(maskStores, st)
			}
		}
		var orSt *ssa.Store
		all, last := false, false
		r.Check(len(maskStores) == 3, "mask writers", fn.Pos(), "three stores: all-words fill, last word, syscall bit", fmt.Sprintf("the syscall mask is written by %d stores; every additional store changes which syscalls the rule selects", len(maskStores)))
		for _, st := range maskStores {
			t := Term(st.Val)
			switch {
			case t == "4294967295":
				// inside a counted loop over all 64 words under allSyscalls
				okLoop := false
				for _, l := range NaturalLoops(fn) {
					if l.Body[st.Block()] {
						if k, _ := loopKind(fn, l); k == "counted" {
							okLoop = true
						}
					}
				}
				all = okLoop && guardEndsWith(st.Block(), ".allSyscalls")
			case t == "65535":
				last = strings.HasSuffix(AddrTerm(st.Addr), ".Mask[63]") && guardEndsWith(st.Block(), ".allSyscalls")
			default:
				orSt = st
			}
		}
		r.Check(all && last, "all-syscalls pattern", fn.Pos(), "0xFFFFFFFF × 64 then Mask[63] = 0x0000FFFF", "the all-syscalls mask is not 0xFFFFFFFF in every word with 0x0000FFFF in the last")
		okBit := false
		detail := "no or-store into Mask"
		if orSt != nil {
			// evaluate word and bit for sample syscall numbers
			ia, _ := orSt.Addr.(*ssa.IndexAddr)
			bo, _ := orSt.Val.(*ssa.BinOp)
			if ia != nil && bo != nil && bo.Op == token.OR {
				// find the syscall number value: the ranged element
				var num ssa.Value
				var ins []ssa.Instruction
				leafInstrs(ia.Index, map[ssa.Value]bool{}, &ins)
				for _, in := range ins {
					if u, ok := in.(*ssa.UnOp); ok && u.Op == token.MUL && strings.Contains(Term(u), ".syscalls[") {
						num = u
					}
				}
				if num != nil {
					okBit = true
					for _, n := range []int64{0, 1, 31, 32, 33, 63, 64, 1000, 2047} {
						wv, ok1 := evalInt(ia.Index, map[ssa.Value]int64{num: n})
						other := bo.Y
						if ld, isLd := bo.X.(*ssa.UnOp); !isLd || ld.Op != token.MUL {
							other = bo.X
						}
						bv, ok2 := evalInt(other, map[ssa.Value]int64{num: n})
						if !ok1 || !ok2 || wv != n/32 || bv != 1<<uint(n%32) {
							okBit = false
							detail = fmt.Sprintf("syscall %d sets word %d value %#x (evaluable=%v/%v); want word %d bit %#x", n, wv, bv, ok1, ok2, n/32, int64(1)<<uint(n%32))
						}
					}
					// same word on both sides of |=
					okBit = okBit && strings.Contains(Term(orSt.Val), AddrTerm(orSt.Addr))
				}
			}
		}
		if orSt != nil {
			r.Check(guardEndsWith(orSt.Block(), ".allSyscalls") == false && HoldsAtSuffix(orSt.Block(), "!", ".allSyscalls"), "syscall bits only without allSyscalls", orSt.Pos(), "", "syscall bits are or-ed in although all syscalls were requested")
		}
		r.Check(okBit, "syscall bit", fn.Pos(), "Mask[n/32] |= 1 << (n%32)", "the syscall bit is not bit n%32 of word n/32 or-ed into the mask: "+detail)
	}

	// R6 (input side): the all-syscalls flag and the syscall list stay in step in addSyscall
	{
		fn := x.addSyscall
		ps, complete := Paths(fn, PathOpts{Cap: 4000})
		if !complete {
			r.Undecided("addSyscall paths", fn.Pos(), "path cap exceeded")
		}
		nApp, nAll := 0, 0
		for i, p := range ps {
			ret := p.Ret()
			if ret == nil || len(ret.Results) != 1 || !isNilConst(ret.Results[0]) {
				continue
			}
			apps, setTrue, setFalse := 0, 0, 0
			for _, e := range p.Events {
				st, ok := e.Instr.(*ssa.Store)
				if !ok || e.Kind != EvStore {
					continue
				}
				t := AddrTerm(st.Addr)
				switch {
				case t == "p0.syscalls":
					apps++
				case t == "p0.allSyscalls":
					switch Term(st.Val) {
					case "true":
						setTrue++
					case "false":
						setFalse++
					default:
						setTrue++
						setFalse++
					}
				}
			}
			key := fmt.Sprintf("addSyscall path#%d", i)
			switch {
			case apps > 0:
				nApp++
				r.Check(apps == 1 && setFalse >= 1 && setTrue == 0, key+" adds one syscall and clears allSyscalls", ret.Pos(), "", fmt.Sprintf("a success path of addSyscall appends %d syscall(s) with allSyscalls set false %d time(s) and true %d time(s): a rule that names syscalls would still be built with the all-syscalls mask (or the reverse): %s", apps, setFalse, setTrue, compactPath(p)))
			case setTrue > 0:
				nAll++
				r.Check(setFalse == 0, key+" selects all syscalls", ret.Pos(), "", "the -S all path also clears allSyscalls: "+compactPath(p))
			default:
				r.Fail(key+" does nothing", ret.Pos(), "a success path of addSyscall neither adds a syscall nor selects all: the -S value is dropped silently: "+compactPath(p))
			}
		}
		r.Check(nApp >= 1 && nAll >= 1, "addSyscall has a list path and an all path", fn.Pos(), "", fmt.Sprintf("%d list paths, %d all paths", nApp, nAll))
	}

	// R9 what was asked for reaches Build through flags.Parse
	flagPatterns(r, w, "C06.R9")

	// R10/R11: what the encoding can depend on, and how the parallel slices grow
	encScope := w.reachable([]*ssa.Function{x.build}, func(f *ssa.Function) bool { return w.inPkg(f, "rule") })
	r.Rule("C06.R10", "the wire bytes are a function of the rule that was asked for: no function reachable from Build writes package-level state (a store to or through a package-level variable, a map insert into one, or a mutating method of a package-level sync/atomic value), so one Build cannot change what a later Build encodes", 1)
	{
		rootGlobal := func(v ssa.Value) *ssa.Global {
			for i := 0; i < 8 && v != nil; i++ {
				switch y := v.(type) {
				case *ssa.Global:
					return y
				case *ssa.FieldAddr:
					v = y.X
				case *ssa.IndexAddr:
					v = y.X
				case *ssa.UnOp:
					v = y.X
				case *ssa.ChangeType:
					v = y.X
				case *ssa.Convert:
					v = y.X
				default:
					return nil
				}
			}
			return nil
		}
		nW := 0
		// a memo that only one function ever touches is keyed by that function's own argument
		// class and cannot leak a value to another class: not reported
		users := map[*ssa.Global]map[*ssa.Function]bool{}
		for _, fn := range w.PkgFuncs("rule") {
			instrsOf(fn, func(in ssa.Instruction) {
				for _, op := range in.Operands(nil) {
					if g, ok := (*op).(*ssa.Global); ok {
						if users[g] == nil {
							users[g] = map[*ssa.Function]bool{}
						}
						if !strings.HasPrefix(fn.Name(), "init") {
							users[g][fn] = true
						}
					}
				}
			})
		}
		private := func(g *ssa.Global) bool { return len(users[g]) <= 1 }
		for _, fn := range encScope {
			instrsOf(fn, func(in ssa.Instruction) {
				switch y := in.(type) {
				case *ssa.Store:
					if g := rootGlobal(y.Addr); g != nil && !private(g) {
						nW++
						r.Fail("store to package-level "+g.Name()+" in "+fnName(fn), y.Pos(), "a package-level variable is written while a rule is encoded: the bytes Build returns then depend on which rules were built before")
					}
				case *ssa.MapUpdate:
					if g := rootGlobal(y.Map); g != nil && !private(g) {
						nW++
						r.Fail("map insert into package-level "+g.Name()+" in "+fnName(fn), y.Pos(), "a package-level table is modified while a rule is encoded")
					}
				case ssa.CallInstruction:
					c := y.Common()
					callee := c.StaticCallee()
					if callee == nil || callee.Pkg == nil || len(c.Args) == 0 {
						return
					}
					pp := callee.Pkg.Pkg.Path()
					if pp != "sync" && pp != "sync/atomic" {
						return
					}
					g := rootGlobal(c.Args[0])
					if g == nil || private(g) {
						return
					}
					switch callee.Name() {
					case "Load", "Range", "RLock", "RUnlock", "Lock", "Unlock", "Do":
						return
					}
					nW++
					r.Fail(fmt.Sprintf("%s on package-level %s in %s", callee.Name(), g.Name(), fnName(fn)), in.Pos(), "package-level state is modified while a rule is encoded: a value memoised under one key class (or by one Build) is returned to another")
				}
			})
		}
		r.OK("encoder global-write census", x.build.Pos(), fmt.Sprintf("%d functions reachable from Build, %d writes", len(encScope), nW))
	}
	r.Rule("C06.R11", "one triple per filter in the order given: on the encoding side the parallel slices fields/values/fieldFlags/strings of ruleData only grow by appending at the end (p.f = append(p.f, x)); nothing reachable from Build stores an element of them in place or replaces them by anything else, so an earlier filter's value, string or length is never rewritten by a later argument", 4)
	{
		par := map[string]bool{"fields": true, "values": true, "fieldFlags": true, "strings": true}
		isPar := func(v *types.Var) bool {
			if v == nil || !par[fieldName(v)] {
				return false
			}
			return v.Pkg() != nil && x.build.Pkg != nil && v.Pkg() == x.build.Pkg.Pkg
		}
		nApp := 0
		for _, fn := range encScope {
			instrsOf(fn, func(in ssa.Instruction) {
				st, ok := in.(*ssa.Store)
				if !ok {
					return
				}
				switch a := st.Addr.(type) {
				case *ssa.IndexAddr:
					if f, _ := loadedField(a.X); isPar(f) {
						r.Fail("element store into "+fieldName(f)+" in "+fnName(fn), st.Pos(), AddrTerm(st.Addr)+" = "+Term(st.Val)+": an element of the encoder's parallel slices is rewritten in place; the triple (or string, or its length) of an earlier filter no longer is what that filter asked for")
					}
				case *ssa.FieldAddr:
					f := fieldOfAddr(a)
					if !isPar(f) {
						return
					}
					okA := false
					if c, isApp := isAppendCall(st.Val); isApp {
						base, _, _, okP := appendParts(c)
						if bf, bb := loadedField(base); okP && bf == f && bb == a.X {
							okA = true
						}
					}
					if okA {
						nApp++
						r.OK("append to "+fieldName(f)+" in "+fnName(fn), st.Pos(), "grows at the end")
					} else if _, isAlloc := a.X.(*ssa.Alloc); isAlloc && fn == x.build {
						// zero-value construction of the local ruleData
						r.OK("initialisation of "+fieldName(f)+" in "+fnName(fn), st.Pos(), "construction")
					} else {
						r.Fail("store to "+fieldName(f)+" in "+fnName(fn), st.Pos(), fieldName(f)+" = "+Term(st.Val)+" is not an append onto itself")
					}
				}
			})
		}
		r.Check(nApp >= 4, "append sites", x.addFilter.Pos(), fmt.Sprint(nApp), fmt.Sprintf("only %d append sites onto the parallel slices found on the encoding side", nApp))
	}

	// R7 value widths
	r.Rule("C06.R7", "value widths: every conversion of a strconv.ParseInt/ParseUint result in the value parsers has bitSize <= the target width with matching signedness (or is a deliberate two's-complement reinterpretation of a signed 32-bit parse)", 6)
	for _, fn := range []*ssa.Function{x.getUID, x.getGID, x.getExit, x.parseNum, x.getMsgType} {
		n := 0
		instrsOf(fn, func(in ssa.Instruction) {
			cv, ok := in.(*ssa.Convert)
			if !ok {
				return
			}
			src := cv.X
			// look through phis (v is assigned on two paths)
			leaves, _ := phiLeaves(src)
			for _, lf := range leaves {
				if c2, isC := lf.(*ssa.Convert); isC {
					lf = c2.X
				}
				ex, ok := lf.(*ssa.Extract)
				if !ok {
					continue
				}
				c, ok := ex.Tuple.(*ssa.Call)
				if !ok {
					continue
				}
				name := calleeName(c)
				if name != "strconv.ParseInt" && name != "strconv.ParseUint" {
					continue
				}
				n++
				bits, _ := constInt(c.Call.Args[2])
				tb, _ := cv.Type().Underlying().(*types.Basic)
				width := int64(0)
				if tb != nil {
					width = w.Sizes.Sizeof(tb) * 8
				}
				r.Check(bits > 0 && bits <= width, fmt.Sprintf("%s: %s(%s bitSize %d)", fnName(fn), typeStr(cv.Type()), name, bits), cv.Pos(), "fits",
					fmt.Sprintf("%s with bitSize %d is converted to %s (%d bits): accepted values are truncated", name, bits, typeStr(cv.Type()), width))
			}
		})
		r.Check(n >= 1, fnName(fn)+" conversions found", fn.Pos(), "", "no conversion of a parsed number found")
	}

	// R8 keys and file watch
	r.Rule("C06.R8", "keys are joined with the key separator into one key filter; a file watch sets list exit / action always / all syscalls and emits path|dir, perm, key in that order", 3)
	{
		sep, _, _ := w.constUint("rule", "keySeparator")
		okK := false
		for _, c := range callsIn(x.addKeys, x.addFilter) {
			a := c.Common().Args
			k, _ := constString(a[1])
			op, _ := constString(a[2])
			okK = k == "key" && op == "=" && Term(a[3]) == fmt.Sprintf("strings.Join(p1, %q)", string(rune(sep))) && isParamValue(a[0], x.addKeys.Params[0])
		}
		r.Check(okK, "addKeys", x.addKeys.Pos(), "addFilter(data, \"key\", \"=\", strings.Join(keys, sep))", "keys are not joined with the key separator into one key= filter")
		fn := x.addFileWatch
		undo := autoAlias(fn)
		exitF, _, _ := w.constUint("rule", "exitFilter")
		always, _, _ := w.constUint("rule", "alwaysAction")
		got := map[string]string{}
		for _, st := range storesOf(fn) {
			t := AddrTerm(st.Addr)
			if strings.HasPrefix(t, "p0.") {
				got[strings.TrimPrefix(t, "p0.")] = Term(st.Val)
			}
		}
		r.Check(got["flags"] == fmt.Sprint(exitF) && got["action"] == fmt.Sprint(always) && got["allSyscalls"] == "true", "file watch is exit,always,all", fn.Pos(), "", fmt.Sprintf("a file watch sets %v", got))
		// order of addFilter calls on the success path
		ps, _ := Paths(fn, PathOpts{MaxVisit: 2, Cap: 20000})
		okOrder := false
		for _, p := range ps {
			ret := p.Ret()
			if ret == nil {
				continue
			}
			// success: returns nil, or forwards the result of the final addKeys step
			if rc, isCall := ret.Results[0].(*ssa.Call); !isNilConst(ret.Results[0]) && !(isCall && rc.Call.StaticCallee() == x.addKeys) {
				continue
			}
			var seq []string
			for _, e := range p.Events {
				if c, ok := e.Instr.(*ssa.Call); ok && e.Kind == EvCall {
					switch c.Call.StaticCallee() {
					case x.addFilter:
						k, isC := constString(c.Call.Args[1])
						if !isC {
							k = Term(c.Call.Args[1])
						}
						seq = append(seq, k+Term(c.Call.Args[2]))
					case x.addKeys:
						seq = append(seq, "keys")
					}
				}
			}
			s := strings.Join(seq, " ")
			if s == "φ{\"path\" | \"dir\"}\"=\" perm\"=\" keys" {
				okOrder = true
			} else if len(seq) > 0 {
				okOrder = false
				r.Fail("file watch order", fn.Pos(), "a file watch emits its filters as ["+s+"]; want path|dir, perm, keys")
				break
			}
		}
		r.Check(okOrder, "file watch emits path|dir, perm, key", fn.Pos(), "", "no success path with the expected filter order")
		undo()
	}
}

// HoldsAtSuffix: some guard literal at b starts with prefix and ends with suffix.
func HoldsAtSuffix(b *ssa.BasicBlock, prefix, suffix string) bool {
	for _, g := range GuardLits(b) {
		if strings.HasPrefix(g, prefix) && strings.HasSuffix(g, suffix) {
			return true
		}
	}
	return false
}

func guardEndsWith(b *ssa.BasicBlock, suffix string) bool {
	for _, g := range GuardLits(b) {
		if strings.HasSuffix(g, suffix) && !strings.HasPrefix(g, "!") {
			return true
		}
	}
	return false
}

// ---------------------------------------------------------------------------------------------
// C13 (R2-R5)

func init() {
	props["C13"] = propC13
	propMeta["C13"] = PropMeta{
		Technique:   "static analysis: bounds/panic obligations (gc prove-pass listing + linear prover over SSA guards with checked lemmas), allocation-size obligations, loop classification",
		Explanation: "Panic-freedom decided structurally for everything reachable from rule.Build, rule.ToCommandLine and flags.Parse: every index/slice operation the compiler cannot prove in bounds, every allocation whose size is not a constant or the length of an input, every division, unchecked type assertion, nil-map write and explicit panic in scope is an obligation that must be proved from dominating guards and library postconditions or by a named lemma with re-checked premises; ToCommandLine's success return is dominated by FieldCount <= maxFields and by end <= BufLen for every string field; flag names registered on the FlagSet are distinct constants; every loop in scope is a range or a counted loop. The decoder's string-field set contains the kernel's set (13-17, 19-23, 105, 107, 112, 210), so every length word is bounds-checked.",
		NotDecided:  "Panics from nil receivers/caller-mutated values outside the stated input domain; shellquote.Split (a dependency) is scanned for explicit panics only.",
		Assumptions: []string{"the gc compiler's prove pass is sound", "library postconditions listed in the checker"},
	}
}

func (x *rulePkg) scope() []*ssa.Function {
	parse, _ := x.w.Func("flags", "Parse")
	entries := []*ssa.Function{x.build, x.toCmd}
	if parse != nil {
		entries = append(entries, parse)
	}
	fs := x.w.reachable(entries, func(f *ssa.Function) bool {
		return x.w.inPkg(f, "rule") || x.w.inPkg(f, "flags")
	})
	// flag.Value methods are reached through the flag package: add every Set/String of the flags package
	seen := map[*ssa.Function]bool{}
	for _, f := range fs {
		seen[f] = true
	}
	for _, f := range x.w.PkgFuncs("flags") {
		if !seen[f] && (f.Name() == "Set" || f.Name() == "String" || f.Parent() != nil) {
			fs = append(fs, f)
			seen[f] = true
		}
	}
	sort.Slice(fs, func(i, j int) bool { return fnName(fs[i]) < fnName(fs[j]) })
	return fs
}

// tripCount: the number of iterations of a counted loop `for i := s; i < K; i++` (also the
// rotated range form `φ{-1|inc}+1 < K`) with constant s, K and step 1.
func tripCount(l *Loop) (int64, bool) {
	for b := range l.Body {
		ifi, ok := b.Instrs[len(b.Instrs)-1].(*ssa.If)
		if !ok || (l.Body[b.Succs[0]] && l.Body[b.Succs[1]]) {
			continue
		}
		if !l.Body[b.Succs[0]] {
			continue // the loop must continue on the true edge of i < K
		}
		c, ok := ifi.Cond.(*ssa.BinOp)
		if !ok || (c.Op != token.LSS && c.Op != token.LEQ) {
			continue
		}
		k, isK := constInt(c.Y)
		if !isK {
			continue
		}
		if c.Op == token.LEQ {
			k++
		}
		var phi *ssa.Phi
		off := int64(0)
		switch v := c.X.(type) {
		case *ssa.Phi:
			phi = v
		case *ssa.BinOp:
			if p, isP := v.X.(*ssa.Phi); isP && v.Op == token.ADD {
				if d, isD := constInt(v.Y); isD {
					phi, off = p, d
				}
			}
		}
		if phi == nil || phi.Block() != l.Header {
			continue
		}
		start, okS := int64(0), false
		step := true
		for i, e := range phi.Edges {
			if l.Body[l.Header.Preds[i]] {
				inc, isB := e.(*ssa.BinOp)
				if !isB || inc.Op != token.ADD || inc.X != ssa.Value(phi) {
					step = false
					continue
				}
				if d, isD := constInt(inc.Y); !isD || d != 1 {
					step = false
				}
			} else if s0, isC := constInt(e); isC {
				start, okS = s0, true
			} else {
				return 0, false
			}
		}
		if !okS || !step {
			return 0, false
		}
		n := k - (start + off)
		if n < 0 {
			n = 0
		}
		return n, true
	}
	return 0, false
}

// decoderStringFields: the field names for which one iteration of fromAuditRuleData's decoding
// loop takes a string from the buffer (a store to .strings), decided by enumerating the
// iteration under the assumption fields[i] == C for every known field code C.
func (x *rulePkg) decoderStringFields(r *Run) map[string]bool {
	// For every known field code C: enumerate one iteration of the decoding loop under the
	// assumption fields[i] == C (helpers used as branch predicates are looked through) and see
	// whether it takes a string from the buffer (a store to .strings).
	fromStr := map[string]bool{}
	var subjects []ssa.Value
	instrsOf(x.fromARD, func(in ssa.Instruction) {
		if u, ok := in.(*ssa.UnOp); ok && u.Op == token.MUL {
			if ia, isIA := u.X.(*ssa.IndexAddr); isIA && strings.HasSuffix(Term(ia.X), ".fields") {
				subjects = append(subjects, u)
			}
		}
	})
	var loop *Loop
	for _, l := range NaturalLoops(x.fromARD) {
		for _, sv := range subjects {
			if l.Body[sv.(ssa.Instruction).Block()] {
				loop = l
			}
		}
	}
	if loop == nil || len(subjects) == 0 {
		r.Undecided("fromAuditRuleData field dispatch", x.fromARD.Pos(), "cannot find the loop that dispatches on fields[i]")
	} else {
		var codes []uint64
		for c := range x.fieldName {
			codes = append(codes, c)
		}
		sort.Slice(codes, func(i, j int) bool { return codes[i] < codes[j] })
		for _, c := range codes {
			as := map[ssa.Value]string{}
			for _, sv := range subjects {
				as[sv] = fmt.Sprint(c)
			}
			ps, complete := Paths(x.fromARD, PathOpts{Start: loop.Header, StopAt: func(b *ssa.BasicBlock) bool { return b == loop.Header }, Assume: as, Within: loop.Body})
			if !complete {
				r.Undecided("fromAuditRuleData field "+x.fieldName[c], x.fromARD.Pos(), "path cap exceeded")
				continue
			}
			for _, p := range ps {
				for _, e := range p.Events {
					if st, ok := e.Instr.(*ssa.Store); ok && e.Kind == EvStore && strings.HasSuffix(AddrTerm(st.Addr), ".strings") {
						fromStr[x.fieldName[c]] = true
					}
				}
			}
		}
	}
	return fromStr
}

func propC13(r *Run, w *World) {
	x := loadRulePkg(r, w)
	if !x.ok {
		return
	}
	scope := x.scope()
	for _, f := range scope {
		r.UseFn(fnName(f))
	}
	boundsRule(r, w, "C13.R1", "rule", scope)

	// R2
	r.Rule("C13.R2", "success implies structural validity: the success return of ToCommandLine is reached only after fromAuditRuleData established FieldCount <= maxFields and, per string field, end <= BufLen (and fromWireFormat established header size and BufLen <= remaining bytes)", 4)
	{
		maxF, _, _ := w.constUint("rule", "maxFields")
		fn := x.fromARD
		okCnt, okEnd := false, false
		for _, ret := range retEdges(fn) {
			if !isNilConst(ret.Results[0]) {
				continue
			}
			for _, g := range ret.Lits() {
				if strings.HasSuffix(g, fmt.Sprintf(".FieldCount <= %d", maxF)) || strings.HasSuffix(g, fmt.Sprintf(".FieldCount < %d", maxF+1)) {
					okCnt = true
				}
			}
		}
		// every append to r.strings is dominated by a comparison of the end offset with BufLen / len(Buf)
		nApp := 0
		okEnd = true
		for _, st := range storesOf(fn) {
			if !strings.HasSuffix(AddrTerm(st.Addr), ".strings") {
				continue
			}
			nApp++
			found := false
			for _, g := range GuardLits(st.Block()) {
				if (strings.Contains(g, ".BufLen") || strings.Contains(g, "len(p1.Buf)")) && (strings.Contains(g, " <= ") || strings.Contains(g, " < ")) {
					found = true
				}
			}
			if !found {
				okEnd = false
			}
		}
		r.Check(okCnt, "FieldCount <= maxFields before success", fn.Pos(), "", "fromAuditRuleData can succeed with a field count above 64 (the fixed-size arrays are then indexed out of range, or an oversized rule is accepted)")
		r.Check(okEnd && nApp == 1, "string end <= BufLen", fn.Pos(), "", "a string is taken from the buffer without its end offset having been compared with the buffer length")
		fw := x.fromWire
		okHdr, okLen := false, false
		for _, ret := range retEdges(fw) {
			if !isNilConst(ret.Results[1]) {
				continue
			}
			gl := ret.Lits()
			for _, g := range gl {
				if g == "len(p0) >= 1040" {
					okHdr = true
				}
				if strings.HasPrefix(g, "uint32(len(p0[1040:])) >= ") && strings.HasSuffix(g, ".BufLen") {
					okLen = true
				}
				// the same comparison written the other way round
				if strings.HasSuffix(g, ".BufLen <= uint32(len(p0[1040:]))") {
					okLen = true
				}
			}
		}
		r.Check(okHdr && okLen, "fromWireFormat length checks", fw.Pos(), "", "fromWireFormat can succeed on a buffer shorter than the header or than header + BufLen")
		// ToCommandLine's success returns are dominated by both calls succeeding
		undo := autoAlias(x.toCmd)
		okDom := true
		n := 0
		for _, ret := range retEdges(x.toCmd) {
			if !isNilConst(ret.Results[1]) {
				continue
			}
			n++
			if !ret.Holds("fromWireFormat#1#1 == nil") || !ret.Holds("fromAuditRuleData#1 == nil") {
				okDom = false
			}
		}
		r.Check(okDom && n >= 2, "ToCommandLine success under both decoders' success", x.toCmd.Pos(), "", "ToCommandLine can succeed although decoding failed")
		undo()
	}

	// R3 allocations
	r.Rule("C13.R3", "allocation is bounded by the input's size, not by numbers in it: every make() in scope has a constant size, the len() of an input-derived value, or a size proved <= a constant from dominating guards", 6)
	for _, fn := range scope {
		instrsOf(fn, func(in ssa.Instruction) {
			var size ssa.Value
			switch m := in.(type) {
			case *ssa.MakeSlice:
				size = m.Cap
				if size == nil {
					size = m.Len
				}
			case *ssa.MakeMap:
				size = m.Reserve
			default:
				return
			}
			key := fmt.Sprintf("%s alloc %s", fnName(fn), Term(in.(ssa.Value)))
			if size == nil {
				r.OK(key, in.Pos(), "default size")
				return
			}
			if _, isC := size.(*ssa.Const); isC {
				r.OK(key, in.Pos(), "constant size")
				return
			}
			if sizeIsInputLength(size) {
				r.OK(key, in.Pos(), "size is a length (or a sum of lengths and constants) of existing values")
				return
			}
			// guarded by `size <= const` ?
			bounded := ""
			st := stripNumConv(size)
			for _, g := range GuardLits(in.Block()) {
				for _, op := range []string{" <= ", " < "} {
					if strings.HasPrefix(g, Term(st)+op) || strings.HasPrefix(g, Term(size)+op) {
						rest := g[strings.Index(g, op)+len(op):]
						if _, err := fmt.Sscan(rest, new(int64)); err == nil {
							bounded = g
						}
					}
				}
			}
			r.Check(bounded != "", key, in.Pos(), "bounded by "+bounded, fmt.Sprintf("allocation size %s comes from the input and is not bounded by any dominating check: a 4-byte header word can demand gigabytes", Term(size)))
		})
	}

	// R4 flags / panics
	r.Rule("C13.R4", "no reachable explicit panic; the flag names registered on the FlagSet are distinct constants (FlagSet.Var panics on redefinition)", 2)
	{
		n := 0
		for _, fn := range scope {
			instrsOf(fn, func(in ssa.Instruction) {
				if p, ok := in.(*ssa.Panic); ok {
					n++
					r.Fail("explicit panic in "+fnName(fn), p.Pos(), "panic("+Term(p.X)+") is reachable from Build/ToCommandLine/flags.Parse")
				}
			})
		}
		r.OK("explicit panics in scope", token.NoPos, fmt.Sprintf("%d functions scanned, %d panics", len(scope), n))
		if newSet, err := w.Func("flags", "newRuleFlagSet"); err == nil {
			names := map[string]int{}
			okConst := true
			instrsOf(newSet, func(in ssa.Instruction) {
				c, ok := in.(*ssa.Call)
				if !ok || !strings.HasPrefix(calleeName(c), "(*flag.FlagSet).") {
					return
				}
				switch strings.TrimPrefix(calleeName(c), "(*flag.FlagSet).") {
				case "Var", "BoolVar", "StringVar", "IntVar", "UintVar", "Int64Var", "Uint64Var", "Float64Var", "DurationVar", "TextVar", "Func", "BoolFunc":
					if s, isC := constString(c.Call.Args[2]); isC {
						names[s]++
					} else {
						okConst = false
					}
				}
			})
			dup := ""
			for n, c := range names {
				if c > 1 {
					dup = n
				}
			}
			r.Check(okConst && dup == "" && len(names) >= 9, "flag names distinct", newSet.Pos(), fmt.Sprint(len(names)), "a flag name is registered twice ("+dup+") or is not a constant: FlagSet.Var panics")
		} else {
			r.Anchor(err)
		}
		// regexps compile
		for _, g := range []string{"filterRegexp", "comparisonRegexp"} {
			pat, pos, err := w.regexpVarPattern("flags", g)
			if err != nil {
				r.Anchor(err)
				continue
			}
			_, perr := analyseRegexp(pat)
			r.Check(perr == nil, g+" compiles", pos, "", fmt.Sprintf("MustCompile(%q) panics at init: %v", pat, perr))
		}
	}

	// R5 termination
	terminationRule(r, w, "C13.R5", scope, map[string]string{}, map[string]string{})
	// R7: which fields are strings is the kernel's decision (audit_data_to_entry): for exactly
	// these codes the value word is a length into the buffer, so "string lengths within the
	// buffer" is checked for a structurally valid rule only if the decoder treats all of them so
	r.Rule("C13.R7", "the decoder length-checks every field the kernel lays out as a string: one iteration of fromAuditRuleData under fields[i] == C takes (and bounds-checks, R2) a string for every C in the kernel's string set subj_user..subj_clr (13-17), obj_user..obj_lev_high (19-23), watch/path (105), dir (107), exe (112), filterkey (210)", 1)
	{
		got := x.decoderStringFields(r)
		var missing []string
		for _, c := range []uint64{13, 14, 15, 16, 17, 19, 20, 21, 22, 23, 105, 107, 112, 210} {
			name, known := x.fieldName[c]
			if !known {
				missing = append(missing, fmt.Sprintf("code %d (not in fieldsTable)", c))
				continue
			}
			if !got[name] {
				missing = append(missing, fmt.Sprintf("%s (%d)", name, c))
			}
		}
		r.Check(len(missing) == 0, "fromAuditRuleData string set ⊇ kernel string set", x.fromARD.Pos(), fmt.Sprintf("%d string fields", len(got)),
			"fromAuditRuleData does not treat "+strings.Join(missing, ", ")+" as a length into the string buffer: ToCommandLine then succeeds on a rule whose length word for that field exceeds the buffer (and every later string is cut at the wrong offset)")
	}
	r.Rule("C13.R6", "no String/Error method of the repository formats its own receiver under a verb that calls the method again (unbounded recursion is a fatal stack overflow that no caller can recover from); the rule package prints architectures, message types and filetypes through such methods", 5)
	noRecursiveFormat(r, w)
}

func stripNumConv(v ssa.Value) ssa.Value {
	for {
		switch x := v.(type) {
		case *ssa.Convert:
			v = x.X
		case *ssa.ChangeType:
			v = x.X
		default:
			return v
		}
	}
}

// sizeIsInputLength: len(x), constants, and sums/differences/products-by-constant of those.
func sizeIsInputLength(v ssa.Value) bool {
	switch x := v.(type) {
	case *ssa.Const:
		return true
	case *ssa.Call:
		n := calleeName(x)
		return n == "len" || n == "cap" || n == "encoding/hex.DecodedLen" && sizeIsInputLength(x.Call.Args[0])
	case *ssa.BinOp:
		switch x.Op {
		case token.ADD, token.SUB, token.REM, token.QUO:
			return sizeIsInputLength(x.X) && sizeIsInputLength(x.Y)
		case token.MUL:
			_, c1 := x.X.(*ssa.Const)
			_, c2 := x.Y.(*ssa.Const)
			return (c1 || c2) && sizeIsInputLength(x.X) && sizeIsInputLength(x.Y)
		}
	case *ssa.Convert:
		return sizeIsInputLength(x.X)
	case *ssa.ChangeType:
		return sizeIsInputLength(x.X)
	case *ssa.Phi:
		for _, e := range x.Edges {
			if !sizeIsInputLength(e) {
				return false
			}
		}
		return true
	}
	return false
}
