package main

// A2 — constant and table evaluator (exact), and the frozen reference data.

import (
	"encoding/json"
	"fmt"
	"go/ast"
	"go/constant"
	"go/token"
	"go/types"
	"os"
	"path/filepath"

	"golang.org/x/tools/go/packages"
)

type UAPIField struct {
	Type  string `json:"type"`
	Name  string `json:"name"`
	Count int    `json:"count"`
}

type UAPIRef struct {
	Provenance    map[string]string `json:"provenance"`
	Defines       map[string]uint64 `json:"defines"`
	AuditStatus   []UAPIField       `json:"struct_audit_status"`
	AuditRuleData []UAPIField       `json:"struct_audit_rule_data"`
	StatModes     map[string]uint64 `json:"stat_modes"`
}

var uapiCache *UAPIRef

func loadUAPI() (*UAPIRef, error) {
	if uapiCache != nil {
		return uapiCache, nil
	}
	b, err := os.ReadFile(filepath.Join(verifDir(), "ref", "uapi_audit.json"))
	if err != nil {
		return nil, err
	}
	var r UAPIRef
	if err := json.Unmarshal(b, &r); err != nil {
		return nil, err
	}
	if len(r.Defines) < 300 {
		return nil, fmt.Errorf("uapi_audit.json: only %d defines", len(r.Defines))
	}
	uapiCache = &r
	return &r, nil
}

// constUint returns the value of a package-level constant as uint64.
func (w *World) constUint(pkg, name string) (uint64, token.Pos, error) {
	c, err := w.Const(pkg, name)
	if err != nil {
		return 0, token.NoPos, err
	}
	v := constant.ToInt(c.Val())
	if v.Kind() != constant.Int {
		return 0, c.Pos(), fmt.Errorf("%s.%s is not an integer constant", pkg, name)
	}
	if u, ok := constant.Uint64Val(v); ok {
		return u, c.Pos(), nil
	}
	if i, ok := constant.Int64Val(v); ok {
		return uint64(i), c.Pos(), nil
	}
	return 0, c.Pos(), fmt.Errorf("%s.%s out of range", pkg, name)
}

// KV is one entry of a composite literal read from the AST.
type KV struct {
	Key, Val       ast.Expr
	KeyC, ValC     constant.Value // constant values, if constant
	KeyObj, ValObj types.Object   // the named object the expression resolves to, if an identifier/selector
	Pos            token.Pos
}

func (kv KV) KeyStr() string {
	if kv.KeyC != nil {
		if kv.KeyC.Kind() == constant.String {
			return constant.StringVal(kv.KeyC)
		}
		return kv.KeyC.ExactString()
	}
	return "?"
}

func (kv KV) ValStr() string {
	if kv.ValC != nil {
		if kv.ValC.Kind() == constant.String {
			return constant.StringVal(kv.ValC)
		}
		return kv.ValC.ExactString()
	}
	return "?"
}

func objOf(p *packages.Package, e ast.Expr) types.Object {
	switch x := e.(type) {
	case *ast.Ident:
		return p.TypesInfo.Uses[x]
	case *ast.SelectorExpr:
		return p.TypesInfo.Uses[x.Sel]
	case *ast.ParenExpr:
		return objOf(p, x.X)
	}
	return nil
}

// LitEntries reads the key/value pairs of a map/array/slice composite literal.
func LitEntries(p *packages.Package, lit *ast.CompositeLit) []KV {
	var out []KV
	for _, el := range lit.Elts {
		kv := KV{Pos: el.Pos()}
		if kve, ok := el.(*ast.KeyValueExpr); ok {
			kv.Key, kv.Val = kve.Key, kve.Value
		} else {
			kv.Val = el
		}
		if kv.Key != nil {
			if tv, ok := p.TypesInfo.Types[kv.Key]; ok {
				kv.KeyC = tv.Value
			}
			kv.KeyObj = objOf(p, kv.Key)
		}
		if tv, ok := p.TypesInfo.Types[kv.Val]; ok {
			kv.ValC = tv.Value
		}
		kv.ValObj = objOf(p, kv.Val)
		out = append(out, kv)
	}
	return out
}

// MapLit returns the entries of the composite literal initialising package variable name.
func (w *World) MapLit(pkg, name string) ([]KV, *packages.Package, token.Pos, error) {
	e, p, err := w.VarDeclValue(pkg, name)
	if err != nil {
		return nil, nil, token.NoPos, err
	}
	lit, ok := e.(*ast.CompositeLit)
	if !ok {
		return nil, nil, e.Pos(), anchorErr{pkg + "." + name + " (initialiser is not a composite literal)"}
	}
	return LitEntries(p, lit), p, lit.Pos(), nil
}

func cUint(v constant.Value) (uint64, bool) {
	if v == nil {
		return 0, false
	}
	v = constant.ToInt(v)
	if v.Kind() != constant.Int {
		return 0, false
	}
	if u, ok := constant.Uint64Val(v); ok {
		return u, true
	}
	if i, ok := constant.Int64Val(v); ok {
		return uint64(i), true
	}
	return 0, false
}

func cStr(v constant.Value) (string, bool) {
	if v == nil || v.Kind() != constant.String {
		return "", false
	}
	return constant.StringVal(v), true
}

// structLayout describes a struct's fields with offsets for the loaded GOARCH.
type fieldLayout struct {
	Name   string
	Offset int64
	Size   int64
	Type   types.Type
}

func (w *World) structLayout(st *types.Struct) ([]fieldLayout, int64) {
	var fields []*types.Var
	for i := 0; i < st.NumFields(); i++ {
		fields = append(fields, st.Field(i))
	}
	offs := w.Sizes.Offsetsof(fields)
	var out []fieldLayout
	for i, f := range fields {
		out = append(out, fieldLayout{f.Name(), offs[i], w.Sizes.Sizeof(f.Type()), f.Type()})
	}
	return out, w.Sizes.Sizeof(st)
}
