package main

// A5 — census: who writes a field, who calls a function.

import (
	"go/types"

	"golang.org/x/tools/go/ssa"
)

type Access struct {
	Fn    *ssa.Function
	Instr ssa.Instruction
	Kind  string // store | load | mapupdate | delete | elemstore | escape | maplookup | len | range | slice | call-arg
	Addr  *ssa.FieldAddr
	Val   ssa.Value // stored value (store), map key (mapupdate/delete)
}

func fieldOfAddr(fa *ssa.FieldAddr) *types.Var {
	st := fa.X.Type().Underlying().(*types.Pointer).Elem().Underlying().(*types.Struct)
	return st.Field(fa.Field)
}

func fieldOfField(f *ssa.Field) *types.Var {
	st := f.X.Type().Underlying().(*types.Struct)
	return st.Field(f.Field)
}

// FieldAccesses lists every access to the given struct field in the repository's functions.
// Writes are classified precisely; any use of the field's address that is neither a direct load
// nor a direct store is an "escape" (the census can then no longer claim to know all writers).
func (w *World) FieldAccesses(fv *types.Var) []Access {
	var out []Access
	for _, fn := range w.SrcFuncs() {
		for _, b := range fn.Blocks {
			for _, in := range b.Instrs {
				switch x := in.(type) {
				case *ssa.FieldAddr:
					if fieldOfAddr(x) != fv {
						continue
					}
					out = append(out, classifyAddrUses(fn, x)...)
				case *ssa.Field:
					if fieldOfField(x) != fv {
						continue
					}
					out = append(out, classifyValueUses(fn, x, nil, x)...)
				}
			}
		}
	}
	return out
}

func classifyAddrUses(fn *ssa.Function, fa *ssa.FieldAddr) []Access {
	var out []Access
	refs := fa.Referrers()
	if refs == nil {
		return nil
	}
	for _, r := range *refs {
		switch u := r.(type) {
		case *ssa.Store:
			if u.Addr == fa {
				out = append(out, Access{Fn: fn, Instr: u, Kind: "store", Addr: fa, Val: u.Val})
			} else {
				out = append(out, Access{Fn: fn, Instr: u, Kind: "escape", Addr: fa})
			}
		case *ssa.UnOp:
			// load
			out = append(out, classifyValueUses(fn, u, fa, u)...)
		case *ssa.FieldAddr, *ssa.IndexAddr:
			// address of a sub-location (struct-typed or array-typed field): treat element stores
			out = append(out, classifySubAddr(fn, fa, u.(ssa.Value))...)
		case *ssa.DebugRef:
		case *ssa.Slice:
			// slicing an array-typed field through its address: a view of the storage
			out = append(out, Access{Fn: fn, Instr: u, Kind: "slice", Addr: fa})
		default:
			out = append(out, Access{Fn: fn, Instr: r, Kind: "escape", Addr: fa})
		}
	}
	return out
}

func classifySubAddr(fn *ssa.Function, fa *ssa.FieldAddr, sub ssa.Value) []Access {
	var out []Access
	refs := sub.Referrers()
	if refs == nil {
		return nil
	}
	for _, r := range *refs {
		switch u := r.(type) {
		case *ssa.Store:
			if u.Addr == sub {
				out = append(out, Access{Fn: fn, Instr: u, Kind: "elemstore", Addr: fa, Val: u.Val})
			} else {
				out = append(out, Access{Fn: fn, Instr: u, Kind: "escape", Addr: fa})
			}
		case *ssa.UnOp:
			out = append(out, Access{Fn: fn, Instr: u, Kind: "load", Addr: fa})
		case *ssa.FieldAddr, *ssa.IndexAddr:
			out = append(out, classifySubAddr(fn, fa, u.(ssa.Value))...)
		case *ssa.DebugRef:
		case ssa.CallInstruction:
			out = append(out, Access{Fn: fn, Instr: r, Kind: "call-arg", Addr: fa})
		default:
			out = append(out, Access{Fn: fn, Instr: r, Kind: "escape", Addr: fa})
		}
	}
	return out
}

// classifyValueUses: v is the loaded value of the field (a map, slice, scalar...). Writes through
// a map/slice value are writes to the container the field holds.
func classifyValueUses(fn *ssa.Function, v ssa.Value, fa *ssa.FieldAddr, at ssa.Instruction) []Access {
	out := []Access{{Fn: fn, Instr: at, Kind: "load", Addr: fa}}
	refs := v.Referrers()
	if refs == nil {
		return out
	}
	for _, r := range *refs {
		switch u := r.(type) {
		case *ssa.MapUpdate:
			if u.Map == v {
				out = append(out, Access{Fn: fn, Instr: u, Kind: "mapupdate", Addr: fa, Val: u.Key})
			}
		case *ssa.Call:
			if b, ok := u.Call.Value.(*ssa.Builtin); ok && b.Name() == "delete" && len(u.Call.Args) > 0 && u.Call.Args[0] == v {
				out = append(out, Access{Fn: fn, Instr: u, Kind: "delete", Addr: fa, Val: u.Call.Args[1]})
			} else {
				out = append(out, Access{Fn: fn, Instr: u, Kind: "valarg", Addr: fa})
			}
		case *ssa.Defer, *ssa.Go:
			out = append(out, Access{Fn: fn, Instr: r, Kind: "valarg", Addr: fa})
		case *ssa.Store:
			if u.Val == v {
				out = append(out, Access{Fn: fn, Instr: u, Kind: "alias", Addr: fa})
			}
		case *ssa.Phi, *ssa.MakeInterface, *ssa.MakeClosure:
			out = append(out, Access{Fn: fn, Instr: r, Kind: "alias", Addr: fa})
		case *ssa.Return:
			out = append(out, Access{Fn: fn, Instr: u, Kind: "returned", Addr: fa})
		case *ssa.Slice:
			out = append(out, Access{Fn: fn, Instr: u, Kind: "reslice", Addr: fa})
		case *ssa.IndexAddr:
			if u.X == v {
				if subrefs := u.Referrers(); subrefs != nil {
					for _, rr := range *subrefs {
						if st, ok := rr.(*ssa.Store); ok && st.Addr == u {
							out = append(out, Access{Fn: fn, Instr: st, Kind: "elemstore", Addr: fa, Val: st.Val})
						}
					}
				}
			}
		}
	}
	return out
}

// Writes filters accesses to those that modify the field or the container it holds.
func Writes(as []Access) []Access {
	var out []Access
	for _, a := range as {
		switch a.Kind {
		case "store", "mapupdate", "delete", "elemstore", "escape", "call-arg":
			out = append(out, a)
		}
	}
	return out
}

// ---------------------------------------------------------------------------------------------

type CallSite struct {
	Caller *ssa.Function
	Instr  ssa.Instruction // ssa.CallInstruction, or the instruction using the function as a value
	Kind   string          // static | invoke | value
}

// CallSites lists every place fn is called statically, may be the target of an interface
// invoke (CHA over the method name and signature), or is used as a value.
func (w *World) CallSites(fn *ssa.Function) []CallSite {
	return w.CallSitesRaw(fn)
}

// CallSitesRaw is CallSites without attributing helper code to its owner.
func (w *World) CallSitesRaw(fn *ssa.Function) []CallSite {
	var out []CallSite
	var recvT types.Type
	if fn.Signature.Recv() != nil {
		recvT = fn.Signature.Recv().Type()
	}
	for _, caller := range w.SrcFuncs() {
		for _, b := range caller.Blocks {
			for _, in := range b.Instrs {
				if ci, ok := in.(ssa.CallInstruction); ok {
					cc := ci.Common()
					if calleeOf(cc) == fn {
						out = append(out, CallSite{caller, in, "static"})
						continue
					}
					if cc.IsInvoke() && recvT != nil && cc.Method.Name() == fn.Name() {
						if types.Implements(recvT, cc.Value.Type().Underlying().(*types.Interface)) {
							out = append(out, CallSite{caller, in, "invoke"})
							continue
						}
					}
				}
				var ops []*ssa.Value
				for _, op := range in.Operands(ops) {
					if *op == ssa.Value(fn) {
						if ci, ok := in.(ssa.CallInstruction); ok && ci.Common().Value == ssa.Value(fn) {
							continue
						}
						out = append(out, CallSite{caller, in, "value"})
					}
				}
			}
		}
	}
	return out
}

// Invokes lists every interface-method invoke of the named method on the given interface type.
func (w *World) Invokes(iface *types.Named, method string) []CallSite {
	var out []CallSite
	for _, caller := range w.SrcFuncs() {
		for _, b := range caller.Blocks {
			for _, in := range b.Instrs {
				if ci, ok := in.(ssa.CallInstruction); ok {
					cc := ci.Common()
					if cc.IsInvoke() && cc.Method.Name() == method && types.Identical(cc.Value.Type(), iface) {
						out = append(out, CallSite{caller, in, "invoke"})
					}
				}
			}
		}
	}
	return out
}

// instrsOf iterates over all instructions of fn.
func instrsOf(fn *ssa.Function, f func(ssa.Instruction)) {
	for _, b := range fn.Blocks {
		for _, in := range b.Instrs {
			f(in)
		}
	}
}

// callsIn returns the call instructions in fn whose static callee is callee.
func callsIn(fn, callee *ssa.Function) []ssa.CallInstruction {
	var out []ssa.CallInstruction
	instrsOf(fn, func(in ssa.Instruction) {
		if ci, ok := in.(ssa.CallInstruction); ok && calleeOf(ci.Common()) == callee {
			out = append(out, ci)
		}
	})
	return out
}

// callsNamedIn returns call instructions in fn whose canonical callee name is name.
func callsNamedIn(fn *ssa.Function, name string) []ssa.CallInstruction {
	var out []ssa.CallInstruction
	instrsOf(fn, func(in ssa.Instruction) {
		if ci, ok := in.(ssa.CallInstruction); ok && calleeName(in) == name {
			out = append(out, ci)
		}
	})
	return out
}
