package main

// A5 — census: who writes a field, who calls a function.

import (
	"go/constant"
	"go/token"
	"go/types"

	"golang.org/x/tools/go/ssa"
)

type Access struct {
	Fn    *ssa.Function
	Instr ssa.Instruction
	Kind  string // store | load | mapupdate | delete | elemstore | escape | maplookup | len | range | slice | call-arg
	Addr  *ssa.FieldAddr
	Val   ssa.Value // stored value (store), map key (mapupdate/delete)
}

func fieldOfAddr(fa *ssa.FieldAddr) *types.Var {
	st := fa.X.Type().Underlying().(*types.Pointer).Elem().Underlying().(*types.Struct)
	return st.Field(fa.Field)
}

func fieldOfField(f *ssa.Field) *types.Var {
	st := f.X.Type().Underlying().(*types.Struct)
	return st.Field(f.Field)
}

// FieldAccesses lists every access to the given struct field in the repository's functions.
// Writes are classified precisely; any use of the field's address that is neither a direct load
// nor a direct store is an "escape" (the census can then no longer claim to know all writers).
func (w *World) FieldAccesses(fv *types.Var) []Access {
	var out []Access
	for _, fn := range w.SrcFuncs() {
		for _, b := range fn.Blocks {
			for _, in := range b.Instrs {
				switch x := in.(type) {
				case *ssa.FieldAddr:
					if fieldOfAddr(x) != fv {
						continue
					}
					out = append(out, classifyAddrUses(fn, x)...)
				case *ssa.Field:
					if fieldOfField(x) != fv {
						continue
					}
					out = append(out, classifyValueUses(fn, x, nil, x)...)
				}
			}
		}
	}
	return out
}

func classifyAddrUses(fn *ssa.Function, fa *ssa.FieldAddr) []Access {
	var out []Access
	refs := fa.Referrers()
	if refs == nil {
		return nil
	}
	for _, r := range *refs {
		switch u := r.(type) {
		case *ssa.Store:
			if u.Addr == fa {
				out = append(out, Access{Fn: fn, Instr: u, Kind: "store", Addr: fa, Val: u.Val})
			} else {
				out = append(out, Access{Fn: fn, Instr: u, Kind: "escape", Addr: fa})
			}
		case *ssa.UnOp:
			// load
			out = append(out, classifyValueUses(fn, u, fa, u)...)
		case *ssa.FieldAddr, *ssa.IndexAddr:
			// address of a sub-location (struct-typed or array-typed field): treat element stores
			out = append(out, classifySubAddr(fn, fa, u.(ssa.Value))...)
		case *ssa.DebugRef:
		case *ssa.Slice:
			// slicing an array-typed field through its address: a view of the storage
			out = append(out, Access{Fn: fn, Instr: u, Kind: "slice", Addr: fa})
		default:
			out = append(out, Access{Fn: fn, Instr: r, Kind: "escape", Addr: fa})
		}
	}
	return out
}

func classifySubAddr(fn *ssa.Function, fa *ssa.FieldAddr, sub ssa.Value) []Access {
	var out []Access
	refs := sub.Referrers()
	if refs == nil {
		return nil
	}
	for _, r := range *refs {
		switch u := r.(type) {
		case *ssa.Store:
			if u.Addr == sub {
				out = append(out, Access{Fn: fn, Instr: u, Kind: "elemstore", Addr: fa, Val: u.Val})
			} else {
				out = append(out, Access{Fn: fn, Instr: u, Kind: "escape", Addr: fa})
			}
		case *ssa.UnOp:
			out = append(out, Access{Fn: fn, Instr: u, Kind: "load", Addr: fa})
		case *ssa.FieldAddr, *ssa.IndexAddr:
			out = append(out, classifySubAddr(fn, fa, u.(ssa.Value))...)
		case *ssa.DebugRef:
		case ssa.CallInstruction:
			out = append(out, Access{Fn: fn, Instr: r, Kind: "call-arg", Addr: fa})
		default:
			out = append(out, Access{Fn: fn, Instr: r, Kind: "escape", Addr: fa})
		}
	}
	return out
}

// classifyValueUses: v is the loaded value of the field (a map, slice, scalar...). Writes through
// a map/slice value are writes to the container the field holds.
func classifyValueUses(fn *ssa.Function, v ssa.Value, fa *ssa.FieldAddr, at ssa.Instruction) []Access {
	out := []Access{{Fn: fn, Instr: at, Kind: "load", Addr: fa}}
	refs := v.Referrers()
	if refs == nil {
		return out
	}
	for _, r := range *refs {
		switch u := r.(type) {
		case *ssa.MapUpdate:
			if u.Map == v {
				out = append(out, Access{Fn: fn, Instr: u, Kind: "mapupdate", Addr: fa, Val: u.Key})
			}
		case *ssa.Call:
			if b, ok := u.Call.Value.(*ssa.Builtin); ok && b.Name() == "delete" && len(u.Call.Args) > 0 && u.Call.Args[0] == v {
				out = append(out, Access{Fn: fn, Instr: u, Kind: "delete", Addr: fa, Val: u.Call.Args[1]})
			} else {
				out = append(out, Access{Fn: fn, Instr: u, Kind: "valarg", Addr: fa})
			}
		case *ssa.Defer, *ssa.Go:
			out = append(out, Access{Fn: fn, Instr: r, Kind: "valarg", Addr: fa})
		case *ssa.Store:
			if u.Val == v {
				out = append(out, Access{Fn: fn, Instr: u, Kind: "alias", Addr: fa})
			}
		case *ssa.Phi, *ssa.MakeInterface, *ssa.MakeClosure:
			out = append(out, Access{Fn: fn, Instr: r, Kind: "alias", Addr: fa})
		case *ssa.Return:
			out = append(out, Access{Fn: fn, Instr: u, Kind: "returned", Addr: fa})
		case *ssa.Slice:
			out = append(out, Access{Fn: fn, Instr: u, Kind: "reslice", Addr: fa})
		case *ssa.IndexAddr:
			if u.X == v {
				if subrefs := u.Referrers(); subrefs != nil {
					for _, rr := range *subrefs {
						if st, ok := rr.(*ssa.Store); ok && st.Addr == u {
							out = append(out, Access{Fn: fn, Instr: st, Kind: "elemstore", Addr: fa, Val: st.Val})
						}
					}
				}
			}
		}
	}
	return out
}

// Writes filters accesses to those that modify the field or the container it holds.
func Writes(as []Access) []Access {
	var out []Access
	for _, a := range as {
		switch a.Kind {
		case "store", "mapupdate", "delete", "elemstore", "escape", "call-arg":
			out = append(out, a)
		}
	}
	return out
}

// ---------------------------------------------------------------------------------------------

type CallSite struct {
	Caller *ssa.Function
	Instr  ssa.Instruction // ssa.CallInstruction, or the instruction using the function as a value
	Kind   string          // static | invoke | value
}

// CallSites lists every place fn is called statically, may be the target of an interface
// invoke (CHA over the method name and signature), or is used as a value.
func (w *World) CallSites(fn *ssa.Function) []CallSite {
	return w.CallSitesRaw(fn)
}

// CallSitesRaw is CallSites without attributing helper code to its owner.
func (w *World) CallSitesRaw(fn *ssa.Function) []CallSite {
	var out []CallSite
	var recvT types.Type
	if fn.Signature.Recv() != nil {
		recvT = fn.Signature.Recv().Type()
	}
	for _, caller := range w.SrcFuncs() {
		for _, b := range caller.Blocks {
			for _, in := range b.Instrs {
				if ci, ok := in.(ssa.CallInstruction); ok {
					cc := ci.Common()
					if calleeOf(cc) == fn {
						out = append(out, CallSite{caller, in, "static"})
						continue
					}
					if cc.IsInvoke() && recvT != nil && cc.Method.Name() == fn.Name() {
						if types.Implements(recvT, cc.Value.Type().Underlying().(*types.Interface)) {
							out = append(out, CallSite{caller, in, "invoke"})
							continue
						}
					}
				}
				var ops []*ssa.Value
				for _, op := range in.Operands(ops) {
					if *op == ssa.Value(fn) {
						if ci, ok := in.(ssa.CallInstruction); ok && ci.Common().Value == ssa.Value(fn) {
							continue
						}
						out = append(out, CallSite{caller, in, "value"})
					}
				}
			}
		}
	}
	return out
}

// Invokes lists every interface-method invoke of the named method on the given interface type.
func (w *World) Invokes(iface *types.Named, method string) []CallSite {
	var out []CallSite
	for _, caller := range w.SrcFuncs() {
		for _, b := range caller.Blocks {
			for _, in := range b.Instrs {
				if ci, ok := in.(ssa.CallInstruction); ok {
					cc := ci.Common()
					if cc.IsInvoke() && cc.Method.Name() == method && types.Identical(cc.Value.Type(), iface) {
						out = append(out, CallSite{caller, in, "invoke"})
					}
				}
			}
		}
	}
	return out
}

// instrsOf iterates over all instructions of fn.
func instrsOf(fn *ssa.Function, f func(ssa.Instruction)) {
	dead := deadBlocks(fn)
	for _, b := range fn.Blocks {
		if dead[b] {
			continue
		}
		for _, in := range b.Instrs {
			f(in)
		}
	}
}

var deadBlocksCache = map[*ssa.Function]map[*ssa.BasicBlock]bool{}

// deadBlocks: blocks that no execution reaches because every way into them goes through a
// branch on a constant condition (a constant argument of an inlined helper selecting one arm of
// its switch). go/ssa does not fold these.
func deadBlocks(fn *ssa.Function) map[*ssa.BasicBlock]bool {
	if d, ok := deadBlocksCache[fn]; ok {
		return d
	}
	var constTruth func(v ssa.Value) (bool, bool)
	constTruth = func(v ssa.Value) (bool, bool) {
		switch x := v.(type) {
		case *ssa.Const:
			if x.Value != nil && x.Value.Kind() == constant.Bool {
				return constant.BoolVal(x.Value), true
			}
		case *ssa.UnOp:
			if x.Op == token.NOT {
				if t, ok := constTruth(x.X); ok {
					return !t, true
				}
			}
		case *ssa.BinOp:
			a, aok := x.X.(*ssa.Const)
			b, bok := x.Y.(*ssa.Const)
			if aok && bok && a.Value != nil && b.Value != nil && a.Value.Kind() == b.Value.Kind() {
				switch x.Op {
				case token.EQL, token.NEQ, token.LSS, token.LEQ, token.GTR, token.GEQ:
					if a.Value.Kind() == constant.Bool && x.Op != token.EQL && x.Op != token.NEQ {
						return false, false
					}
					return constant.Compare(a.Value, x.Op, b.Value), true
				}
			}
		}
		return false, false
	}
	live := map[*ssa.BasicBlock]bool{}
	var work []*ssa.BasicBlock
	if len(fn.Blocks) > 0 {
		work = append(work, fn.Blocks[0])
	}
	if fn.Recover != nil {
		work = append(work, fn.Recover)
	}
	any := false
	for len(work) > 0 {
		b := work[len(work)-1]
		work = work[:len(work)-1]
		if live[b] {
			continue
		}
		live[b] = true
		if ifi, ok := b.Instrs[len(b.Instrs)-1].(*ssa.If); ok && len(b.Succs) == 2 {
			if t, known := constTruth(ifi.Cond); known {
				any = true
				if t {
					work = append(work, b.Succs[0])
				} else {
					work = append(work, b.Succs[1])
				}
				continue
			}
		}
		work = append(work, b.Succs...)
	}
	var dead map[*ssa.BasicBlock]bool
	if any {
		dead = map[*ssa.BasicBlock]bool{}
		for _, b := range fn.Blocks {
			if !live[b] {
				dead[b] = true
			}
		}
	}
	deadBlocksCache[fn] = dead
	return dead
}

// callsIn returns the call instructions in fn whose static callee is callee.
func callsIn(fn, callee *ssa.Function) []ssa.CallInstruction {
	var out []ssa.CallInstruction
	instrsOf(fn, func(in ssa.Instruction) {
		if ci, ok := in.(ssa.CallInstruction); ok && calleeOf(ci.Common()) == callee {
			out = append(out, ci)
		}
	})
	return out
}

// callsNamedIn returns call instructions in fn whose canonical callee name is name.
func callsNamedIn(fn *ssa.Function, name string) []ssa.CallInstruction {
	var out []ssa.CallInstruction
	instrsOf(fn, func(in ssa.Instruction) {
		if ci, ok := in.(ssa.CallInstruction); ok && calleeName(in) == name {
			out = append(out, ci)
		}
	})
	return out
}
