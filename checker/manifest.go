package main

import (
	"encoding/json"
	"fmt"
	"os"
	"sort"
)

// manifestMain prints MANIFEST.json from the property table, so that the claims and the
// implementation cannot drift apart: a property is claimed iff a check for it is registered.
func manifestMain() {
	var ids []string
	for id := range props {
		ids = append(ids, id)
	}
	sort.Strings(ids)
	var checks []map[string]any
	for _, id := range ids {
		m := propMeta[id]
		checks = append(checks, map[string]any{
			"property_id":         id,
			"quick_cmd":           fmt.Sprintf("bin/vcheck -prop %s -tier quick", id),
			"thorough_cmd":        fmt.Sprintf("bin/vcheck -prop %s -tier thorough", id),
			"evidence_file":       fmt.Sprintf("/verif/evidence/%s.json", id),
			"replay_cmd_template": "bin/vcheck -explain {path}",
			"engine":              "vcheck",
			"technique":           m.technique(),
			"level_claimed": map[string]any{
				"category":   "other",
				"text":       "Static analysis of the resolved program (go/types + go/ssa): structural necessary conditions of the property, each decided on every path / writer / call site / table entry in scope. Decided: " + m.Explanation,
				"design_ref": "DESIGN.md section 4 (" + id + ") and section 10 (as built)",
			},
			"level_note": "Decides the structural part named above and not the behaviour as a whole. Not decided: " + m.NotDecided + " Trusted base: Go type checker, go/ssa (x/tools v0.29.0), the gc prove pass where bounds are involved, the checker's library-postcondition table, frozen reference data under /verif/ref (UAPI constants, sockaddr layout, known function and type lists used by the normalisation layer).",
		})
	}
	var na []map[string]string
	for i := 1; i <= 20; i++ {
		id := fmt.Sprintf("C%02d", i)
		if _, ok := props[id]; !ok {
			na = append(na, map[string]string{"property_id": id,
				"reason": "not built yet (planned, see DESIGN.md section 4); this is not a statement that static analysis cannot apply"})
		}
	}
	doc := map[string]any{
		"version":   1,
		"setup_cmd": "cd /verif/checker && env -u GOWORK GOFLAGS=-mod=vendor GOPROXY=off GOSUMDB=off GOTOOLCHAIN=local go build -o /verif/bin/vcheck . && cd /verif && bin/vcheck fixtures",
		"hooks": map[string]any{
			"guard":            "verif",
			"enable":           "none needed: the checks analyse /repo's source as it is (no instrumentation, no hook commits)",
			"baseline_off_cmd": "cd /repo && go test -vet=off -count=1 ./...",
			"source_commits":   []string{},
			"add_only":         true,
		},
		"engines": []map[string]any{{
			"name": "vcheck", "path": "/verif/checker", "serves_properties": ids,
			"kind_free_text": "repository-specific static analyser over go/packages + go/types + go/ssa (x/tools v0.29.0, vendored): source-level normalisation against a frozen reference of the tree (rename pairing, statement-level inlining of new helpers with exact positions), guard dominance, path conditions with phi resolution, writer/caller census, lockset with read/write classes, value origin, constant/table evaluation against frozen UAPI data, linear-arithmetic bounds prover (Fourier-Motzkin, induction) over the sites the compiler cannot prove",
		}},
		"checks":         checks,
		"not_applicable": na,
		"notes":          "All claims are at level 'other': each check decides named structural clauses of its property on the current source of /repo and reports a construct (file:line, function, path, table entry) as the violation. See DESIGN.md sections 4-6 and 10. The checker is tested both ways on every thorough run: 180 seeded breaking changes under /verif/seeded must be detected, each by the check of the property it was written against (the 40 of round 4 are refactorings that carry a defect, each kept with its behaviour-preserving twin benign.diff; DESIGN.md 10.4), 240 behaviour-preserving changes under /verif/benign are applied and 224 must stay silent (the other 16 are documented limits, DESIGN.md 10.5). known_findings.json lists genuine defects (open or fixed).",
	}
	if na == nil {
		doc["not_applicable"] = []map[string]string{}
	}
	b, _ := json.MarshalIndent(doc, "", " ")
	os.Stdout.Write(b)
	os.Stdout.WriteString("\n")
}

func (m PropMeta) technique() string {
	if m.Technique != "" {
		return m.Technique
	}
	return "static analysis: SSA path conditions, guard dominance and writer/caller census"
}
