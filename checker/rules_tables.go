package main

// Exact table/constant rules (A2): C06.R1-R2, C07.R1, C16.R1-R2, C20.

import (
	"fmt"
	"go/ast"
	"go/constant"
	"go/token"
	"go/types"
	"os"
	"regexp"
	"sort"
	"strconv"
	"strings"

	"golang.org/x/tools/go/packages"
	"golang.org/x/tools/go/ssa"
	"gopkg.in/yaml.v3"
)

// switchArm is one `case C:` of a switch lowered to a chain of `subject == C` tests.
type switchArm struct {
	Subject string
	Const   *ssa.Const
	If      *ssa.If
	Arm     *ssa.BasicBlock // block entered when subject == C
}

func switchArms(fn *ssa.Function) []switchArm {
	var out []switchArm
	for _, b := range fn.Blocks {
		ifi, ok := b.Instrs[len(b.Instrs)-1].(*ssa.If)
		if !ok {
			continue
		}
		bo, ok := ifi.Cond.(*ssa.BinOp)
		if !ok || bo.Op != token.EQL {
			continue
		}
		x, y := bo.X, bo.Y
		if _, xc := x.(*ssa.Const); xc {
			x, y = y, x
		}
		c, ok := y.(*ssa.Const)
		if !ok || c.Value == nil {
			continue
		}
		out = append(out, switchArm{Subject: Term(resolveUnderGuards(x, b)), Const: c, If: ifi, Arm: b.Succs[0]})
	}
	return out
}

func constKey(c *ssa.Const) string {
	if c.Value.Kind() == constant.String {
		return constant.StringVal(c.Value)
	}
	return c.Value.ExactString()
}

// armEffect: the first store value / return value reached from the arm block without branching,
// or the phi edge it feeds.
func armEffect(arm *ssa.BasicBlock, from *ssa.BasicBlock) (string, token.Pos) {
	b := arm
	prev := from
	for steps := 0; steps < 4; steps++ {
		for _, in := range b.Instrs {
			switch v := in.(type) {
			case *ssa.Store:
				if al, ok := v.Addr.(*ssa.IndexAddr); ok {
					if a, ok := al.X.(*ssa.Alloc); ok && a.Comment == "varargs" {
						continue
					}
				}
				return "store " + AddrTerm(v.Addr) + " = " + Term(v.Val), v.Pos()
			case *ssa.Return:
				var rs []string
				for _, r := range v.Results {
					rs = append(rs, Term(r))
				}
				return "ret " + strings.Join(rs, ", "), v.Pos()
			case *ssa.Phi:
				for i, p := range b.Preds {
					if p == prev {
						// render the edge with the phi itself written ↺
						tt := &termer{phis: map[*ssa.Phi]bool{v: true}}
						return "phi " + tt.val(v.Edges[i]), v.Pos()
					}
				}
			}
		}
		if len(b.Succs) != 1 {
			return "?", token.NoPos
		}
		prev = b
		b = b.Succs[0]
	}
	return "?", token.NoPos
}

func uapiCheck(r *Run, ref *UAPIRef, key string, pos token.Pos, got uint64, define string) {
	want, ok := ref.Defines[define]
	if !ok {
		r.Undecided(key, pos, "reference has no "+define)
		return
	}
	r.Check(got == want, key, pos, fmt.Sprintf("= %s (%d)", define, want), fmt.Sprintf("value %d differs from the kernel's %s = %d", got, define, want))
}

// ----------------------------------------------------------------------------------------------
// C16 R1/R2

var statusMaskDefines = map[string]string{
	"AuditStatusEnabled": "AUDIT_STATUS_ENABLED", "AuditStatusFailure": "AUDIT_STATUS_FAILURE", "AuditStatusPID": "AUDIT_STATUS_PID",
	"AuditStatusRateLimit": "AUDIT_STATUS_RATE_LIMIT", "AuditStatusBacklogLimit": "AUDIT_STATUS_BACKLOG_LIMIT",
	"AuditStatusBacklogWaitTime": "AUDIT_STATUS_BACKLOG_WAIT_TIME", "AuditStatusLost": "AUDIT_STATUS_LOST",
}

func c16Numbers(r *Run, w *World) {
	ref, err := loadUAPI()
	if err != nil {
		r.Rule("C16.R1", "reference data", 0)
		r.Undecided("reference", token.NoPos, err.Error())
		return
	}
	r.Rule("C16.R1", "exported names carry the kernel's numbers: GET/SET and rule message types, failure modes, status-mask bits, feature bits equal their UAPI values; WaitForReply != NoWait; every auparse AUDIT_* record type that the kernel header also defines has the header's value", 24)
	r.Rules["C16.R1"].Exact = true
	table := []struct{ pkg, name, define string }{
		{"libaudit", "AuditGet", "AUDIT_GET"}, {"libaudit", "AuditSet", "AUDIT_SET"},
		{"auparse", "AUDIT_LIST_RULES", "AUDIT_LIST_RULES"}, {"auparse", "AUDIT_ADD_RULE", "AUDIT_ADD_RULE"}, {"auparse", "AUDIT_DEL_RULE", "AUDIT_DEL_RULE"},
		{"libaudit", "SilentOnFailure", "AUDIT_FAIL_SILENT"}, {"libaudit", "LogOnFailure", "AUDIT_FAIL_PRINTK"}, {"libaudit", "PanicOnFailure", "AUDIT_FAIL_PANIC"},
		{"libaudit", "AuditFeatureBitmapBacklogLimit", "AUDIT_FEATURE_BITMAP_BACKLOG_LIMIT"},
		{"libaudit", "AuditFeatureBitmapBacklogWaitTime", "AUDIT_FEATURE_BITMAP_BACKLOG_WAIT_TIME"},
		{"libaudit", "AuditFeatureBitmapExecutablePath", "AUDIT_FEATURE_BITMAP_EXECUTABLE_PATH"},
		{"libaudit", "AuditFeatureBitmapExcludeExtend", "AUDIT_FEATURE_BITMAP_EXCLUDE_EXTEND"},
		{"libaudit", "AuditFeatureBitmapSessionIDFilter", "AUDIT_FEATURE_BITMAP_SESSIONID_FILTER"},
		{"libaudit", "AuditFeatureBitmapLostReset", "AUDIT_FEATURE_BITMAP_LOST_RESET"},
	}
	for n, d := range statusMaskDefines {
		table = append(table, struct{ pkg, name, define string }{"libaudit", n, d})
	}
	sort.Slice(table, func(i, j int) bool { return table[i].name < table[j].name })
	for _, e := range table {
		v, pos, err := w.constUint(e.pkg, e.name)
		if err != nil {
			r.Anchor(err)
			continue
		}
		uapiCheck(r, ref, fmt.Sprintf("const %s.%s=%d", e.pkg, e.name, v), pos, v, e.define)
	}
	// netlink group: enum AUDIT_NLGRP_READLOG = 1 (enum, not a #define; value fixed by the kernel ABI)
	if v, pos, err := w.constUint("libaudit", "NetlinkGroupReadLog"); err == nil {
		r.Check(v == 1, "const libaudit.NetlinkGroupReadLog", pos, "= AUDIT_NLGRP_READLOG (enum value 1)", fmt.Sprintf("NetlinkGroupReadLog = %d, kernel enum AUDIT_NLGRP_READLOG = 1", v))
	} else {
		r.Anchor(err)
	}
	wr, _, e1 := w.constUint("libaudit", "WaitForReply")
	nw, pos, e2 := w.constUint("libaudit", "NoWait")
	if e1 == nil && e2 == nil {
		r.Check(wr != nw, "WaitForReply != NoWait", pos, "", "the two wait modes have the same value")
	}
	// every AUDIT_* record type shared with the kernel header
	scope := w.Pkgs["auparse"].Types.Scope()
	amt, err := w.Named("auparse", "AuditMessageType")
	if err != nil {
		r.Anchor(err)
		return
	}
	n := 0
	for _, name := range scope.Names() {
		c, ok := scope.Lookup(name).(*types.Const)
		if !ok || !types.Identical(c.Type(), amt) {
			continue
		}
		want, has := ref.Defines[name]
		if !has {
			continue
		}
		got, _ := cUint(c.Val())
		n++
		r.Check(got == want, "record type "+name, c.Pos(), fmt.Sprintf("= %d", want), fmt.Sprintf("auparse.%s = %d, kernel header has %d", name, got, want))
	}
	r.Check(n >= 80, "record types shared with the kernel header", token.NoPos, fmt.Sprint(n), fmt.Sprintf("only %d record types could be compared", n))
}

func normName(s string) string {
	return strings.ToLower(strings.ReplaceAll(s, "_", ""))
}

func c16Layout(r *Run, w *World) {
	ref, err := loadUAPI()
	if err != nil {
		return
	}
	r.Rule("C16.R2", "layout: AuditStatus has the field order, offsets and size of struct audit_status (11 x __u32, 44 bytes); sizeofAuditStatus = 44; MinSizeofAuditStatus = 32 (through backlog); the unsafe byte views have exactly that length", 15)
	r.Rules["C16.R2"].Exact = true
	n, err := w.Named("libaudit", "AuditStatus")
	if err != nil {
		r.Anchor(err)
		return
	}
	st, ok := n.Underlying().(*types.Struct)
	if !ok {
		r.Fail("AuditStatus", n.Obj().Pos(), "not a struct")
		return
	}
	lay, size := w.structLayout(st)
	r.Check(len(lay) == len(ref.AuditStatus), "field count", n.Obj().Pos(), fmt.Sprint(len(lay)), fmt.Sprintf("AuditStatus has %d fields, struct audit_status has %d", len(lay), len(ref.AuditStatus)))
	for i, f := range lay {
		if i >= len(ref.AuditStatus) {
			break
		}
		u := ref.AuditStatus[i]
		ok := normName(f.Name) == normName(u.Name) && f.Offset == int64(4*i) && f.Size == 4
		r.Check(ok, "field #"+fmt.Sprint(i)+" "+f.Name, st.Field(i).Pos(), fmt.Sprintf("%s @%d", u.Name, f.Offset),
			fmt.Sprintf("field #%d is %s (offset %d, size %d); the kernel has %s %s at offset %d", i, f.Name, f.Offset, f.Size, u.Type, u.Name, 4*i))
	}
	want := int64(4 * len(ref.AuditStatus))
	r.Check(size == want, "sizeof(AuditStatus)", n.Obj().Pos(), fmt.Sprint(size), fmt.Sprintf("sizeof(AuditStatus) = %d, want %d", size, want))
	if v, pos, err := w.constUint("libaudit", "sizeofAuditStatus"); err == nil {
		r.Check(int64(v) == want, "sizeofAuditStatus", pos, fmt.Sprint(v), fmt.Sprintf("sizeofAuditStatus = %d, want %d", v, want))
	} else {
		r.Anchor(err)
	}
	if v, pos, err := w.constUint("libaudit", "MinSizeofAuditStatus"); err == nil {
		// through `backlog` (index 7): 8 words
		idx := -1
		for i, u := range ref.AuditStatus {
			if u.Name == "backlog" {
				idx = i
			}
		}
		r.Check(idx >= 0 && int64(v) == int64(4*(idx+1)), "MinSizeofAuditStatus", pos, fmt.Sprint(v), fmt.Sprintf("MinSizeofAuditStatus = %d, want %d (through backlog)", v, 4*(idx+1)))
	} else {
		r.Anchor(err)
	}
	// byte views
	for _, name := range []string{"toWireFormat", "FromWireFormat"} {
		fn, err := w.Method("libaudit", "AuditStatus", name)
		if err != nil {
			r.Anchor(err)
			continue
		}
		found := 0
		instrsOf(fn, func(in ssa.Instruction) {
			v, ok := in.(ssa.Value)
			if !ok {
				return
			}
			pt, ok := v.Type().Underlying().(*types.Pointer)
			if !ok {
				return
			}
			at, ok := pt.Elem().Underlying().(*types.Array)
			if !ok {
				return
			}
			if b, ok := at.Elem().Underlying().(*types.Basic); !ok || b.Kind() != types.Uint8 {
				return
			}
			if _, isConv := in.(*ssa.Convert); !isConv {
				if _, isCT := in.(*ssa.ChangeType); !isCT {
					return
				}
			}
			found++
			r.Check(at.Len() == size, name+" byte view", in.Pos(), fmt.Sprintf("*[%d]byte over a %d-byte struct", at.Len(), size), fmt.Sprintf("byte view of length %d over a struct of %d bytes", at.Len(), size))
		})
		r.Check(found == 1, name+" has one byte view", fn.Pos(), "", fmt.Sprintf("%d unsafe byte views", found))
	}
}

// ----------------------------------------------------------------------------------------------
// C06 R1/R2 and C07.R1

var fieldDefines = map[string]string{
	"auid": "AUDIT_LOGINUID", "arch": "AUDIT_ARCH", "a0": "AUDIT_ARG0", "a1": "AUDIT_ARG1", "a2": "AUDIT_ARG2", "a3": "AUDIT_ARG3",
	"devmajor": "AUDIT_DEVMAJOR", "devminor": "AUDIT_DEVMINOR", "dir": "AUDIT_DIR", "egid": "AUDIT_EGID", "euid": "AUDIT_EUID",
	"exe": "AUDIT_EXE", "exit": "AUDIT_EXIT", "fsgid": "AUDIT_FSGID", "fsuid": "AUDIT_FSUID", "filetype": "AUDIT_FILETYPE",
	"gid": "AUDIT_GID", "inode": "AUDIT_INODE", "key": "AUDIT_FILTERKEY", "msgtype": "AUDIT_MSGTYPE", "obj_gid": "AUDIT_OBJ_GID",
	"obj_lev_high": "AUDIT_OBJ_LEV_HIGH", "obj_lev_low": "AUDIT_OBJ_LEV_LOW", "obj_role": "AUDIT_OBJ_ROLE", "obj_type": "AUDIT_OBJ_TYPE",
	"obj_uid": "AUDIT_OBJ_UID", "obj_user": "AUDIT_OBJ_USER", "path": "AUDIT_WATCH", "pid": "AUDIT_PID", "ppid": "AUDIT_PPID",
	"perm": "AUDIT_PERM", "pers": "AUDIT_PERS", "saddr_fam": "AUDIT_SADDR_FAM", "sgid": "AUDIT_SGID", "suid": "AUDIT_SUID",
	"subj_clr": "AUDIT_SUBJ_CLR", "subj_role": "AUDIT_SUBJ_ROLE", "subj_sen": "AUDIT_SUBJ_SEN", "subj_type": "AUDIT_SUBJ_TYPE",
	"subj_user": "AUDIT_SUBJ_USER", "success": "AUDIT_SUCCESS", "uid": "AUDIT_UID",
	// names auditctl also knows, accepted if the table ever gains them
	"sessionid": "AUDIT_SESSIONID", "fstype": "AUDIT_FSTYPE", "field_compare": "AUDIT_FIELD_COMPARE",
}

var operatorDefines = map[string]string{
	"&": "AUDIT_BIT_MASK", "<": "AUDIT_LESS_THAN", ">": "AUDIT_GREATER_THAN", "!=": "AUDIT_NOT_EQUAL", "=": "AUDIT_EQUAL",
	"&=": "AUDIT_BIT_TEST", "<=": "AUDIT_LESS_THAN_OR_EQUAL", ">=": "AUDIT_GREATER_THAN_OR_EQUAL",
}

func c06Codes(r *Run, w *World) {
	ref, err := loadUAPI()
	if err != nil {
		r.Rule("C06.R1", "reference data", 0)
		r.Undecided("reference", token.NoPos, err.Error())
		return
	}
	r.Rule("C06.R1", "codes equal UAPI: every entry of fieldsTable, operatorsTable, comparisonsTable, the list/action/permission/filetype names and the size constants equals the #define of the corresponding kernel name", 120)
	r.Rules["C06.R1"].Exact = true
	// fieldsTable
	if ents, _, pos, err := w.MapLit("rule", "fieldsTable"); err != nil {
		r.Anchor(err)
	} else {
		r.Check(len(ents) >= 42, "fieldsTable size", pos, fmt.Sprint(len(ents)), fmt.Sprintf("fieldsTable has %d entries; 42 were confirmed", len(ents)))
		for _, kv := range ents {
			name, okK := cStr(kv.KeyC)
			val, okV := cUint(kv.ValC)
			if !okK || !okV {
				r.Undecided("fieldsTable entry", kv.Pos, "non-constant entry")
				continue
			}
			def, ok := fieldDefines[name]
			if !ok {
				r.Undecided("field "+name, kv.Pos, "no kernel name is recorded for this auditctl field name; add it to the correspondence table after checking auditctl's fieldtab.h")
				continue
			}
			uapiCheck(r, ref, "field "+name, kv.Pos, val, def)
		}
	}
	if v, pos, err := w.constUint("rule", "fieldCompare"); err == nil {
		uapiCheck(r, ref, "const fieldCompare", pos, v, "AUDIT_FIELD_COMPARE")
	} else {
		r.Anchor(err)
	}
	// operatorsTable
	if ents, _, pos, err := w.MapLit("rule", "operatorsTable"); err != nil {
		r.Anchor(err)
	} else {
		r.Check(len(ents) == 8, "operatorsTable size", pos, "8", fmt.Sprintf("operatorsTable has %d entries, the kernel has 8 operators", len(ents)))
		for _, kv := range ents {
			name, okK := cStr(kv.KeyC)
			val, okV := cUint(kv.ValC)
			if !okK || !okV {
				r.Undecided("operatorsTable entry", kv.Pos, "non-constant entry")
				continue
			}
			def, ok := operatorDefines[name]
			if !ok {
				r.Fail("operator "+name, kv.Pos, "not an audit operator")
				continue
			}
			uapiCheck(r, ref, "operator "+name, kv.Pos, val, def)
		}
	}
	// comparisonsTable: value = AUDIT_COMPARE_<A>_TO_<B> with {A,B} = {lhs,rhs}
	fieldNameOf := map[uint64]string{}
	if ents, _, _, err := w.MapLit("rule", "fieldsTable"); err == nil {
		for _, kv := range ents {
			n, _ := cStr(kv.KeyC)
			v, _ := cUint(kv.ValC)
			fieldNameOf[v] = n
		}
	}
	if e, p, err := w.VarDeclValue("rule", "comparisonsTable"); err != nil {
		r.Anchor(err)
	} else if lit, ok := e.(*ast.CompositeLit); ok {
		total := 0
		for _, outer := range LitEntries(p, lit) {
			lhsV, okL := cUint(outer.KeyC)
			inner, okI := outer.Val.(*ast.CompositeLit)
			if !okL || !okI {
				r.Undecided("comparisonsTable entry", outer.Pos, "unexpected shape")
				continue
			}
			for _, kv := range LitEntries(p, inner) {
				total++
				rhsV, okR := cUint(kv.KeyC)
				val, okV := cUint(kv.ValC)
				if !okR || !okV || kv.ValObj == nil {
					r.Undecided("comparisonsTable entry", kv.Pos, "non-constant entry")
					continue
				}
				cname := strings.TrimPrefix(kv.ValObj.Name(), "_")
				key := fmt.Sprintf("comparison %s~%s", fieldNameOf[lhsV], fieldNameOf[rhsV])
				want, has := ref.Defines[cname]
				if !has {
					r.Fail(key, kv.Pos, "no kernel constant "+cname)
					continue
				}
				a := strings.ToUpper(fieldNameOf[lhsV])
				b := strings.ToUpper(fieldNameOf[rhsV])
				okName := cname == "AUDIT_COMPARE_"+a+"_TO_"+b || cname == "AUDIT_COMPARE_"+b+"_TO_"+a
				r.Check(val == want && okName, key, kv.Pos, cname, fmt.Sprintf("comparisonsTable[%s][%s] = %s (%d): the kernel's %s is %d and compares other fields", fieldNameOf[lhsV], fieldNameOf[rhsV], cname, val, cname, want))
			}
		}
		r.Check(total >= 50, "comparisonsTable size", lit.Pos(), fmt.Sprint(total), fmt.Sprintf("only %d comparison entries", total))
	}
	// lists, actions (switches), permissions, filetypes
	swCheck := func(typ, meth, subject string, want map[string]string, store string) {
		var fn *ssa.Function
		var err error
		if typ != "" {
			fn, err = w.Method("rule", typ, meth)
		} else {
			fn, err = w.Func("rule", meth)
		}
		if err != nil {
			r.Anchor(err)
			return
		}
		seen := map[string]bool{}
		for _, arm := range switchArms(fn) {
			if arm.Subject != subject {
				continue
			}
			k := constKey(arm.Const)
			def, ok := want[k]
			if !ok {
				r.Fail(meth+" case "+k, arm.If.Pos(), "name not in the reviewed table")
				continue
			}
			seen[k] = true
			eff, pos := armEffect(arm.Arm, arm.If.Block())
			wantV := ref.Defines[def]
			if strings.HasPrefix(def, "S_IF") {
				wantV = ref.StatModes[def]
			}
			wantEff := fmt.Sprintf(store, wantV)
			r.Check(eff == wantEff, meth+" case "+k, pos, fmt.Sprintf("%s → %s (%d)", k, def, wantV), fmt.Sprintf("%q maps to [%s]; want [%s] (%s)", k, eff, wantEff, def))
		}
		// the same mapping written as a function-local table: m := map[K]V{...}; if v, ok := m[subject]; ok { <effect with v> }
		if len(seen) == 0 {
			instrsOf(fn, func(in ssa.Instruction) {
				lk, ok := in.(*ssa.Lookup)
				if !ok || !lk.CommaOk || Term(lk.Index) != subject {
					return
				}
				mk, ok := lk.X.(*ssa.MakeMap)
				if !ok || mk.Referrers() == nil {
					return
				}
				// the found branch produces the effect with the looked-up value
				var val, found ssa.Value
				if lk.Referrers() != nil {
					for _, rf := range *lk.Referrers() {
						if ex, ok := rf.(*ssa.Extract); ok {
							if ex.Index == 0 {
								val = ex
							} else {
								found = ex
							}
						}
					}
				}
				if val == nil || found == nil {
					return
				}
				effOK := false
				undo := alias(val, "%d")
				for _, b := range fn.Blocks {
					if HoldsAt(b, Lit(found, true)) {
						if eff, _ := armEffect(b, b.Idom()); eff == store {
							effOK = true
						}
					}
				}
				undo()
				// every other use of the map is this lookup or an insertion of a constant pair
				for _, rf := range *mk.Referrers() {
					switch u := rf.(type) {
					case *ssa.MapUpdate:
						kc, kIs := u.Key.(*ssa.Const)
						vc, vIs := stripConv(u.Value).(*ssa.Const)
						if !kIs || !vIs || kc.Value == nil || vc.Value == nil || u.Block() != mk.Block() {
							r.Fail(meth+" table entry", u.Pos(), "the local table is filled with a non-constant pair or outside its definition")
							continue
						}
						k := constKey(kc)
						def, ok := want[k]
						if !ok {
							r.Fail(meth+" case "+k, u.Pos(), "name not in the reviewed table")
							continue
						}
						seen[k] = true
						wantV := ref.Defines[def]
						if strings.HasPrefix(def, "S_IF") {
							wantV = ref.StatModes[def]
						}
						gotV, _ := constInt(vc)
						r.Check(effOK && uint64(gotV) == uint64(wantV), meth+" case "+k, u.Pos(), fmt.Sprintf("%s → %s (%d)", k, def, wantV),
							fmt.Sprintf("%q maps to %d (or the found branch does not produce [%s]); want %d (%s)", k, gotV, store, wantV, def))
					case *ssa.Lookup:
						if u != lk {
							r.Fail(meth+" table use", u.Pos(), "the local table is looked up a second time")
						}
					default:
						r.Fail(meth+" table use", rf.Pos(), "the local table escapes")
					}
				}
			})
		}
		for k := range want {
			if !seen[k] {
				r.Fail(meth+" case "+k, fn.Pos(), "the name "+k+" is no longer handled")
			}
		}
	}
	swCheck("ruleData", "setList", "p1", map[string]string{"exit": "AUDIT_FILTER_EXIT", "task": "AUDIT_FILTER_TASK", "user": "AUDIT_FILTER_USER", "exclude": "AUDIT_FILTER_EXCLUDE"}, "store p0.flags = %d")
	swCheck("ruleData", "setAction", "p1", map[string]string{"always": "AUDIT_ALWAYS", "never": "AUDIT_NEVER"}, "store p0.action = %d")
	swCheck("", "getPerm", "rangeval(range(p0))", map[string]string{"114": "AUDIT_PERM_READ", "119": "AUDIT_PERM_WRITE", "120": "AUDIT_PERM_EXEC", "97": "AUDIT_PERM_ATTR"}, "phi (%d | ↺)")
	swCheck("", "getFiletype", "strings.ToLower(p0)", map[string]string{"file": "S_IFREG", "dir": "S_IFDIR", "socket": "S_IFSOCK", "symlink": "S_IFLNK", "char": "S_IFCHR", "block": "S_IFBLK", "fifo": "S_IFIFO"}, "ret %d, nil")
	for _, e := range []struct{ name, def string }{
		{"syscallBitmaskSize", "AUDIT_BITMASK_SIZE"}, {"maxFields", "AUDIT_MAX_FIELDS"}, {"maxKeyLength", "AUDIT_MAX_KEY_LEN"},
		{"exitFilter", "AUDIT_FILTER_EXIT"}, {"alwaysAction", "AUDIT_ALWAYS"}, {"prependFilter", "AUDIT_FILTER_PREPEND"},
	} {
		if v, pos, err := w.constUint("rule", e.name); err == nil {
			uapiCheck(r, ref, "const "+e.name, pos, v, e.def)
		} else {
			r.Anchor(err)
		}
	}
	if v, pos, err := w.constUint("rule", "keySeparator"); err == nil {
		r.Check(v == 1, "const keySeparator", pos, "= AUDIT_KEY_SEPARATOR (0x01, audit userspace libaudit.h)", fmt.Sprintf("keySeparator = %d, want 1", v))
	} else {
		r.Anchor(err)
	}
}

func c06Layout(r *Run, w *World) {
	ref, err := loadUAPI()
	if err != nil {
		return
	}
	r.Rule("C06.R2", "layout: auditRuleHeader has the field order, offsets and size of struct audit_rule_data up to buf; the unsafe byte views have exactly that length; auditRuleData embeds the header at offset 0", 12)
	r.Rules["C06.R2"].Exact = true
	n, err := w.Named("rule", "auditRuleHeader")
	if err != nil {
		r.Anchor(err)
		return
	}
	st := n.Underlying().(*types.Struct)
	lay, size := w.structLayout(st)
	var want []UAPIField
	for _, f := range ref.AuditRuleData {
		if strings.HasPrefix(f.Name, "buf[") {
			continue
		}
		want = append(want, f)
	}
	goNames := map[string]string{"flags": "Flags", "action": "Action", "field_count": "FieldCount", "mask": "Mask", "fields": "Fields", "values": "Values", "fieldflags": "FieldFlags", "buflen": "BufLen"}
	r.Check(len(lay) == len(want), "field count", n.Obj().Pos(), fmt.Sprint(len(lay)), fmt.Sprintf("auditRuleHeader has %d fields, struct audit_rule_data has %d before buf", len(lay), len(want)))
	off := int64(0)
	for i, u := range want {
		if i >= len(lay) {
			break
		}
		sz := int64(4)
		if u.Count > 0 {
			sz = int64(4 * u.Count)
		}
		f := lay[i]
		ok := f.Name == goNames[u.Name] && f.Offset == off && f.Size == sz
		r.Check(ok, "field #"+fmt.Sprint(i)+" "+f.Name, st.Field(i).Pos(), fmt.Sprintf("%s @%d size %d", u.Name, off, sz),
			fmt.Sprintf("field #%d is %s (offset %d, size %d); the kernel has %s at offset %d, size %d", i, f.Name, f.Offset, f.Size, u.Name, off, sz))
		off += sz
	}
	r.Check(size == off, "sizeof(auditRuleHeader)", n.Obj().Pos(), fmt.Sprint(size), fmt.Sprintf("sizeof = %d, want %d", size, off))
	if v, pos, err := w.constUint("rule", "ruleHeaderSize"); err == nil {
		r.Check(int64(v) == off, "ruleHeaderSize", pos, fmt.Sprint(v), fmt.Sprintf("ruleHeaderSize = %d, want %d", v, off))
	} else {
		r.Anchor(err)
	}
	// auditRuleData: header embedded first
	if d, err := w.Named("rule", "auditRuleData"); err == nil {
		ds := d.Underlying().(*types.Struct)
		dl, _ := w.structLayout(ds)
		ok := len(dl) == 2 && dl[0].Offset == 0 && types.Identical(dl[0].Type, n) && dl[1].Name == "Buf"
		r.Check(ok, "auditRuleData = {header, Buf}", d.Obj().Pos(), "", "auditRuleData does not start with the header followed by Buf")
	} else {
		r.Anchor(err)
	}
	for _, spec := range []struct{ typ, name string }{{"auditRuleData", "toWireFormat"}, {"", "fromWireFormat"}} {
		var fn *ssa.Function
		var err error
		if spec.typ != "" {
			fn, err = w.Method("rule", spec.typ, spec.name)
		} else {
			fn, err = w.Func("rule", spec.name)
		}
		if err != nil {
			r.Anchor(err)
			continue
		}
		found := 0
		instrsOf(fn, func(in ssa.Instruction) {
			v, ok := in.(ssa.Value)
			if !ok {
				return
			}
			pt, ok := v.Type().Underlying().(*types.Pointer)
			if !ok {
				return
			}
			at, ok := pt.Elem().Underlying().(*types.Array)
			if !ok {
				return
			}
			if b, ok := at.Elem().Underlying().(*types.Basic); !ok || b.Kind() != types.Uint8 {
				return
			}
			if _, isConv := in.(*ssa.Convert); !isConv {
				if _, isCT := in.(*ssa.ChangeType); !isCT {
					return
				}
			}
			found++
			r.Check(at.Len() == size, spec.name+" byte view", in.Pos(), fmt.Sprintf("*[%d]byte", at.Len()), fmt.Sprintf("byte view of length %d over a header of %d bytes", at.Len(), size))
		})
		r.Check(found == 1, spec.name+" has one byte view", fn.Pos(), "", fmt.Sprintf("%d unsafe byte views", found))
	}
}

// injective checks that no two keys of a literal map share a value.
func injective(r *Run, ents []KV, what string) {
	seen := map[string]string{}
	for _, kv := range ents {
		v := kv.ValStr()
		k := kv.KeyStr()
		if kv.ValC == nil || kv.KeyC == nil {
			r.Undecided(what+" entry", kv.Pos, "non-constant entry")
			continue
		}
		if prev, dup := seen[v]; dup {
			r.Fail(what+" "+k, kv.Pos, fmt.Sprintf("%s: keys %q and %q both map to %s; the reverse table (built by ranging over a map) is not a function and depends on iteration order", what, prev, k, v))
		} else {
			seen[v] = k
			r.OK(what+" "+k, kv.Pos, "value unique")
		}
	}
}

func c07ReverseTables(r *Run, w *World, ruleID string) {
	r.Rule(ruleID, "reverse tables are functions: operatorsTable, fieldsTable, AuditArchNames and every per-arch syscall table are injective; comparisonsTable is symmetric; each buildReverse* stores reverse[v] = k for every ranged (k, v)", 2800)
	r.Rules[ruleID].Exact = true
	for _, t := range []struct{ pkg, name string }{{"rule", "operatorsTable"}, {"rule", "fieldsTable"}, {"auparse", "AuditArchNames"}} {
		ents, _, _, err := w.MapLit(t.pkg, t.name)
		if err != nil {
			r.Anchor(err)
			continue
		}
		injective(r, ents, t.name)
	}
	// syscall tables
	if e, p, err := w.VarDeclValue("auparse", "AuditSyscalls"); err != nil {
		r.Anchor(err)
	} else if lit, ok := e.(*ast.CompositeLit); ok {
		arches := 0
		for _, outer := range LitEntries(p, lit) {
			arch, _ := cStr(outer.KeyC)
			inner, ok := outer.Val.(*ast.CompositeLit)
			if !ok {
				r.Undecided("AuditSyscalls["+arch+"]", outer.Pos, "unexpected shape")
				continue
			}
			arches++
			injective(r, LitEntries(p, inner), "AuditSyscalls["+arch+"]")
		}
		r.Check(arches >= 7, "syscall tables", lit.Pos(), fmt.Sprint(arches), fmt.Sprintf("only %d architectures", arches))
	}
	// comparisonsTable symmetric
	if e, p, err := w.VarDeclValue("rule", "comparisonsTable"); err == nil {
		if lit, ok := e.(*ast.CompositeLit); ok {
			tab := map[string]string{}
			pos := map[string]token.Pos{}
			for _, outer := range LitEntries(p, lit) {
				inner, ok := outer.Val.(*ast.CompositeLit)
				if !ok {
					continue
				}
				for _, kv := range LitEntries(p, inner) {
					k := outer.KeyStr() + "," + kv.KeyStr()
					tab[k] = kv.ValStr()
					pos[k] = kv.Pos
				}
			}
			var ks []string
			for k := range tab {
				ks = append(ks, k)
			}
			sort.Strings(ks)
			for _, k := range ks {
				parts := strings.Split(k, ",")
				rev := parts[1] + "," + parts[0]
				r.Check(tab[rev] == tab[k], "comparison symmetric "+k, pos[k], "", fmt.Sprintf("comparisonsTable[%s]=%s but [%s]=%q: the first-wins reverse table over a randomly ordered map is then not deterministic", k, tab[k], rev, tab[rev]))
			}
			// the comparison codes determine the unordered pair
			pairs := map[string]string{}
			for _, k := range ks {
				parts := strings.Split(k, ",")
				sort.Strings(parts)
				pk := strings.Join(parts, ",")
				if prev, ok := pairs[tab[k]]; ok && prev != pk {
					r.Fail("comparison code "+tab[k], pos[k], fmt.Sprintf("comparison code %s is used for two different field pairs (%s and %s)", tab[k], prev, pk))
				}
				pairs[tab[k]] = pk
			}
		}
	} else {
		r.Anchor(err)
	}
	// wherever a reverse table is filled, each MapUpdate stores reverse[value] = key of the ranged
	// pair. The tables are found by the globals they end up in, not by the name of the function
	// that builds them: a map counts as reverse table G when it is loaded from G, or is a fresh
	// map of the same function that is stored into G (or into a map that is).
	globals := []string{"reverseOperatorsTable", "reverseFieldsTable", "reverseArch", "reverseSyscall"}
	feeds := func(m ssa.Value, fn *ssa.Function) string {
		var rec func(m ssa.Value, depth int) string
		rec = func(m ssa.Value, depth int) string {
			if depth > 3 {
				return ""
			}
			m = stripConv(m)
			if ld, ok := m.(*ssa.UnOp); ok && ld.Op == token.MUL {
				if g, ok := ld.X.(*ssa.Global); ok && containsStr(globals, g.Name()) {
					return g.Name()
				}
			}
			if refs := m.Referrers(); refs != nil {
				if _, isMk := m.(*ssa.MakeMap); isMk {
					for _, rf := range *refs {
						switch u := rf.(type) {
						case *ssa.Store:
							if g, ok := u.Addr.(*ssa.Global); ok && u.Val == m && containsStr(globals, g.Name()) {
								return g.Name()
							}
						case *ssa.MapUpdate:
							if u.Value == m {
								if g := rec(u.Map, depth+1); g != "" {
									return g
								}
							}
						case *ssa.Phi:
							if prefs := u.Referrers(); prefs != nil {
								for _, prf := range *prefs {
									if st, ok := prf.(*ssa.Store); ok && st.Val == ssa.Value(u) {
										if g, ok := st.Addr.(*ssa.Global); ok && containsStr(globals, g.Name()) {
											return g.Name()
										}
									}
								}
							}
						}
					}
				}
			}
			return ""
		}
		return rec(m, 0)
	}
	count := map[string]int{}
	for _, fn := range w.PkgFuncs("rule") {
		instrsOf(fn, func(in ssa.Instruction) {
			mu, ok := in.(*ssa.MapUpdate)
			if !ok {
				return
			}
			g := feeds(mu.Map, fn)
			if g == "" {
				return
			}
			k, v := Term(mu.Key), Term(mu.Value)
			if strings.HasPrefix(k, "rangekey(") && strings.HasPrefix(v, "make(") {
				return // reverseSyscall[arch] = archTable
			}
			count[g]++
			ok = strings.HasPrefix(k, "rangeval(") && strings.HasPrefix(v, "rangekey(") && strings.TrimPrefix(k, "rangeval(") == strings.TrimPrefix(v, "rangekey(")
			if !ok {
				// reverseArch[name] = uint32(arch): key is the ranged *value* (name), value the converted ranged *key*
				ok = strings.HasPrefix(k, "rangeval(") && strings.HasPrefix(v, "uint32(rangekey(") && strings.TrimPrefix(k, "rangeval(")+")" == strings.TrimPrefix(v, "uint32(rangekey(")
			}
			r.Check(ok, g+" stores reverse[v] = k", mu.Pos(), "", "reverse table entry is "+k+" → "+v+", not value → key")
		})
	}
	for _, g := range globals {
		if _, err := w.Global("rule", g); err != nil {
			r.Anchor(err)
			continue
		}
		r.Check(count[g] == 1, g+" has one reverse store", token.NoPos, "", fmt.Sprintf("%d stores fill %s", count[g], g))
	}
}

// ----------------------------------------------------------------------------------------------
// C20

func init() {
	props["C20"] = propC20
	propMeta["C20"] = PropMeta{
		Technique:   "static analysis: exhaustive evaluation of constant tables from the type-checked AST and of the embedded YAML data",
		Explanation: "Exhaustive over every table entry: record type name<->number maps are inverse bijections over the same constant set with upper-case names that cannot collide with the UNKNOWN[n] form (so all 65536 codes round-trip, text marshalling included); errno name->number->name is consistent for every entry, aliases resolving to one number; architecture names are injective and every architecture name used by the rule encoder/decoder exists; b32/b64 resolve to the runtime architecture or its 32-bit compat architecture and are listed back only for exactly those; errno names in exit filters resolve through the alias-complete table; per-architecture syscall tables map a name to one number; the rule field/operator/comparison tables have well-defined reverses; every record type and syscall named in the embedded normalizations.yaml exists in the parser's tables, no syscall appears in two normalisations and duplicate record types obey the loader's has_fields rule; categorisation is a pure function; selection does not depend on map iteration order.",
		NotDecided:  "Nothing material: the clause is finite and is enumerated completely.",
		Assumptions: []string{"Go map literal semantics", "yaml.v3 decodes anchors/merge keys as the library does (same decoder)"},
	}
}

type normYAML struct {
	Normalizations []struct {
		Action      string    `yaml:"action"`
		RecordTypes yaml.Node `yaml:"record_types"`
		Syscalls    yaml.Node `yaml:"syscalls"`
		HasFields   yaml.Node `yaml:"has_fields"`
		PathIndex   int       `yaml:"object_path_index"`
	} `yaml:"normalizations"`
}

func nodeStrings(n yaml.Node) []string {
	switch n.Kind {
	case yaml.ScalarNode:
		return []string{n.Value}
	case yaml.SequenceNode:
		var out []string
		for _, c := range n.Content {
			if c.Kind == yaml.AliasNode && c.Alias != nil {
				c = c.Alias
			}
			out = append(out, c.Value)
		}
		return out
	case yaml.AliasNode:
		if n.Alias != nil {
			return nodeStrings(*n.Alias)
		}
	}
	return nil
}

func embeddedYAML(w *World) ([]byte, string, error) {
	p := w.Pkgs["aucoalesce"]
	for _, f := range p.EmbedFiles {
		if strings.HasSuffix(f, "normalizations.yaml") {
			b, err := os.ReadFile(f)
			return b, f, err
		}
	}
	return nil, "", anchorErr{"aucoalesce: embedded normalizations.yaml"}
}

// recordTypeTables decides that the two record-type tables are inverse bijections (C20.R1; the
// header parser's "RecordType is exactly T" rests on it as well: C04.R6). Returns name → code.
func recordTypeTables(r *Run, w *World, ruleID string) map[string]uint64 {
	r.Rule(ruleID, "record types: auditMessageTypeToName and auditMessageNameToType are inverse bijections on the same constant set; names are [A-Z0-9_]+ (case round-trip) and none has the UNKNOWN[n] shape", 480)
	r.Rules[ruleID].Exact = true
	t2n, _, _, err1 := w.MapLit("auparse", "auditMessageTypeToName")
	n2t, _, _, err2 := w.MapLit("auparse", "auditMessageNameToType")
	nameRE := regexp.MustCompile(`^[A-Z0-9_]+$`)
	recordTypeNames := map[string]uint64{}
	if err1 != nil || err2 != nil {
		if err1 != nil {
			r.Anchor(err1)
		}
		if err2 != nil {
			r.Anchor(err2)
		}
	} else {
		fwd := map[uint64]string{}
		for _, kv := range t2n {
			k, ok1 := cUint(kv.KeyC)
			v, ok2 := cStr(kv.ValC)
			if !ok1 || !ok2 {
				r.Undecided("auditMessageTypeToName entry", kv.Pos, "non-constant entry")
				continue
			}
			if prev, dup := fwd[k]; dup {
				r.Fail("type "+fmt.Sprint(k), kv.Pos, "duplicate key (was "+prev+")")
			}
			fwd[k] = v
			r.Check(nameRE.MatchString(v), "name shape "+v, kv.Pos, "", "record type name "+v+" is not [A-Z0-9_]+: upper/lower-casing or the UNKNOWN[n] fallback would not round-trip")
		}
		rev := map[string]uint64{}
		for _, kv := range n2t {
			k, ok1 := cStr(kv.KeyC)
			v, ok2 := cUint(kv.ValC)
			if !ok1 || !ok2 {
				r.Undecided("auditMessageNameToType entry", kv.Pos, "non-constant entry")
				continue
			}
			rev[k] = v
			recordTypeNames[k] = v
			n, ok := fwd[v]
			r.Check(ok && n == k, "name→type→name "+k, kv.Pos, "", fmt.Sprintf("name %s → %d, but %d → %q", k, v, v, n))
		}
		for _, kv := range t2n {
			k, _ := cUint(kv.KeyC)
			v, _ := cStr(kv.ValC)
			back, ok := rev[v]
			r.Check(ok && back == k, "type→name→type "+v, kv.Pos, "", fmt.Sprintf("type %d → %s, but %s → %d (present=%v)", k, v, v, back, ok))
		}
	}
	return recordTypeNames
}

func propC20(r *Run, w *World) {
	// R1 record types
	recordTypeNames := recordTypeTables(r, w, "C20.R1")
	// String()/GetAuditMessageType fallbacks (shared with C04.R5)
	c04UnknownRoundTrip(r, w, "C20.R1b")

	// R2 errno
	r.Rule("C20.R2", "errno: every name → n has AuditErrnoToName[n] mapping back to n; every n → name has AuditErrnoToNum[name] == n", 260)
	r.Rules["C20.R2"].Exact = true
	e2n, _, _, err1 := w.MapLit("auparse", "AuditErrnoToNum")
	n2e, _, _, err2 := w.MapLit("auparse", "AuditErrnoToName")
	if err1 != nil || err2 != nil {
		if err1 != nil {
			r.Anchor(err1)
		}
		if err2 != nil {
			r.Anchor(err2)
		}
	} else {
		toNum := map[string]uint64{}
		toName := map[uint64]string{}
		for _, kv := range e2n {
			k, _ := cStr(kv.KeyC)
			v, ok := cUint(kv.ValC)
			if !ok {
				r.Undecided("AuditErrnoToNum entry", kv.Pos, "non-constant")
				continue
			}
			toNum[k] = v
		}
		for _, kv := range n2e {
			k, ok := cUint(kv.KeyC)
			v, _ := cStr(kv.ValC)
			if !ok {
				r.Undecided("AuditErrnoToName entry", kv.Pos, "non-constant")
				continue
			}
			if prev, dup := toName[k]; dup {
				r.Fail("errno "+fmt.Sprint(k), kv.Pos, "duplicate key (was "+prev+")")
			}
			toName[k] = v
		}
		for _, kv := range e2n {
			k, _ := cStr(kv.KeyC)
			n := toNum[k]
			name, ok := toName[n]
			r.Check(ok && toNum[name] == n, "errno name "+k, kv.Pos, "", fmt.Sprintf("%s → %d, AuditErrnoToName[%d] = %q (present=%v) which maps to %d", k, n, n, name, ok, toNum[name]))
		}
		for _, kv := range n2e {
			n, _ := cUint(kv.KeyC)
			name := toName[n]
			back, ok := toNum[name]
			r.Check(ok && back == n, "errno number "+fmt.Sprint(n), kv.Pos, "", fmt.Sprintf("%d → %s, but AuditErrnoToNum[%s] = %d (present=%v)", n, name, name, back, ok))
		}
	}

	// the consumers use these two tables (a private reverse table built from the number → name
	// map would lose the aliases EWOULDBLOCK and EDEADLOCK)
	for _, spec := range []struct{ pkg, fn, table, what string }{
		{"rule", "getExitCode", "auparse.AuditErrnoToNum", "errno names in -F exit= are resolved"},
	} {
		fn, err := w.Func(spec.pkg, spec.fn)
		if err != nil {
			r.Anchor(err)
			continue
		}
		n, other := 0, ""
		for _, f := range append([]*ssa.Function{fn}, fn.AnonFuncs...) {
			instrsOf(f, func(in ssa.Instruction) {
				lk, ok := in.(*ssa.Lookup)
				if !ok {
					return
				}
				mt, isMap := lk.X.Type().Underlying().(*types.Map)
				if !isMap {
					return
				}
				if b, isB := mt.Key().Underlying().(*types.Basic); !isB || b.Info()&types.IsString == 0 {
					return
				}
				if Term(lk.X) == spec.table {
					n++
				} else {
					other = Term(lk.X)
				}
			})
		}
		r.Check(n >= 1 && other == "", spec.fn+" uses "+spec.table, fn.Pos(), "", fmt.Sprintf("%s through %s, not through %s (every alias name of the table must resolve)", spec.what, other, spec.table))
	}

	// R3 arches
	r.Rule("C20.R3", "architectures: AuditArchNames is injective and agrees with the kernel's AUDIT_ARCH_* values; every architecture name used by getRuntimeArch/getArch/getDisplayArch/ToCommandLine is a value of it and has a syscall table where one is needed; the ppc aliases point at an existing table", 60)
	r.Rules["C20.R3"].Exact = true
	archNames := map[string]bool{}
	syscallArches := map[string]bool{}
	if ents, _, _, err := w.MapLit("auparse", "AuditArchNames"); err != nil {
		r.Anchor(err)
	} else {
		injective(r, ents, "AuditArchNames")
		ref, _ := loadUAPI()
		for _, kv := range ents {
			n, _ := cStr(kv.ValC)
			archNames[n] = true
			if kv.KeyObj != nil && ref != nil {
				if want, ok := ref.Defines[kv.KeyObj.Name()]; ok {
					got, _ := cUint(kv.KeyC)
					r.Check(got == want, "arch value "+kv.KeyObj.Name(), kv.Pos, "", fmt.Sprintf("%s = %#x, kernel header has %#x", kv.KeyObj.Name(), got, want))
				}
			}
		}
	}
	if e, p, err := w.VarDeclValue("auparse", "AuditSyscalls"); err == nil {
		if lit, ok := e.(*ast.CompositeLit); ok {
			for _, outer := range LitEntries(p, lit) {
				a, _ := cStr(outer.KeyC)
				syscallArches[a] = true
			}
		}
	}
	// aliases added in init
	for _, fn := range w.PkgFuncs("auparse") {
		if !strings.HasPrefix(fn.Name(), "init") {
			continue
		}
		instrsOf(fn, func(in ssa.Instruction) {
			mu, ok := in.(*ssa.MapUpdate)
			if !ok || Term(mu.Map) != "auparse.AuditSyscalls" {
				return
			}
			k, isC := constString(mu.Key)
			src := Term(mu.Value)
			okSrc := false
			for a := range syscallArches {
				if src == "auparse.AuditSyscalls[\""+a+"\"]" {
					okSrc = true
				}
			}
			r.Check(isC && okSrc, "syscall table alias "+k, mu.Pos(), "alias of an existing table", "alias "+k+" does not point at an existing syscall table: "+src)
			if isC {
				syscallArches[k] = true
			}
		})
	}
	// names used in the rule package
	for _, spec := range []struct {
		fn       string
		needsTab bool
	}{{"getRuntimeArch", true}, {"getArch", false}, {"ToCommandLine", true}} {
		fn, err := w.Func("rule", spec.fn)
		if err != nil {
			r.Anchor(err)
			continue
		}
		used := map[string]token.Pos{}
		instrsOf(fn, func(in ssa.Instruction) {
			if b, ok := in.(*ssa.BinOp); ok {
				_, xc := b.X.(*ssa.Const)
				_, yc := b.Y.(*ssa.Const)
				if xc && yc {
					return // constant-vs-constant test (switch on runtime.GOARCH): these are GOARCH names
				}
			}
			var ops []*ssa.Value
			for _, op := range in.Operands(ops) {
				if s, ok := constString(*op); ok && archLike(s, archNames) {
					used[s] = in.Pos()
				}
			}
		})
		var names []string
		for n := range used {
			names = append(names, n)
		}
		sort.Strings(names)
		for _, n := range names {
			if n == "b32" || n == "b64" {
				continue
			}
			ok := archNames[n]
			if spec.needsTab && ok {
				ok = syscallArches[n]
			}
			r.Check(ok, spec.fn+" uses arch "+n, used[n], "", fmt.Sprintf("architecture name %q used by %s is not in AuditArchNames (or has no syscall table)", n, spec.fn))
		}
	}

	// R10 b32/b64
	r.Rule("C20.R10", "b32/b64 resolve one way and back: getArch maps b64 to the runtime architecture on the four 64-bit ones only, and b32 to the runtime architecture itself on a 32-bit one or to its 32-bit compat architecture (aarch64→arm, x86_64→i386, ppc64→ppc, s390x→s390); getDisplayArch answers b64 only for the runtime architecture when it is one of the 64-bit ones and b32 only for a 32-bit runtime architecture itself or for exactly that compat pair", 12)
	archCompat(r, w)

	// R4 syscalls + R5 rule tables
	c07ReverseTables(r, w, "C20.R4")

	// R6 normalisation data
	r.Rule("C20.R6", "normalisation data: every record_types entry of the embedded YAML is a record type name the parser knows; every syscalls entry is '*' or a name in some architecture's table; no syscall in two normalisations; a record type in several only as the loader allows", 330)
	r.Rules["C20.R6"].Exact = true
	allSyscalls := map[string]bool{}
	if e, p, err := w.VarDeclValue("auparse", "AuditSyscalls"); err == nil {
		if lit, ok := e.(*ast.CompositeLit); ok {
			for _, outer := range LitEntries(p, lit) {
				if inner, ok := outer.Val.(*ast.CompositeLit); ok {
					for _, kv := range LitEntries(p, inner) {
						if s, ok := cStr(kv.ValC); ok {
							allSyscalls[s] = true
						}
					}
				}
			}
		}
	}
	if b, path, err := embeddedYAML(w); err != nil {
		r.Anchor(err)
	} else {
		var doc normYAML
		if err := yaml.Unmarshal(b, &doc); err != nil {
			r.Undecided("normalizations.yaml", token.NoPos, "cannot decode: "+err.Error())
		} else {
			rel := strings.TrimPrefix(path, w.Dir+"/")
			seenSys := map[string]int{}
			type rt struct{ idx, nHas int }
			seenRT := map[string][]rt{}
			for i, n := range doc.Normalizations {
				for _, s := range nodeStrings(n.Syscalls) {
					key := fmt.Sprintf("syscall %s", s)
					if prev, dup := seenSys[s]; dup {
						r.Fail(key+" duplicate", token.NoPos, fmt.Sprintf("%s: syscall %q is named by normalisations #%d and #%d", rel, s, prev, i))
						continue
					}
					seenSys[s] = i
					r.Check(s == "*" || allSyscalls[s], key, token.NoPos, "", fmt.Sprintf("%s: normalisation #%d (action %q) names syscall %q, which is in no architecture's syscall table: it can never be selected", rel, i, n.Action, s))
				}
				for _, t := range nodeStrings(n.RecordTypes) {
					key := fmt.Sprintf("record_type %s", t)
					_, ok := recordTypeNames[t]
					r.Check(ok, key+fmt.Sprintf(" (#%d)", i), token.NoPos, "", fmt.Sprintf("%s: normalisation #%d (action %q) names record type %q, which the parser never produces (not a key of auditMessageNameToType)", rel, i, n.Action, t))
					for _, prev := range seenRT[t] {
						if prev.nHas == 0 {
							r.Fail(key+" duplicate", token.NoPos, fmt.Sprintf("%s: record type %q appears again (#%d) after an unqualified entry (#%d)", rel, t, i, prev.idx))
						}
					}
					seenRT[t] = append(seenRT[t], rt{i, len(nodeStrings(n.HasFields))})
				}
				r.Check(n.PathIndex >= 0, fmt.Sprintf("object_path_index #%d", i), token.NoPos, "", fmt.Sprintf("%s: normalisation #%d has a negative object_path_index", rel, i))
			}
			r.Check(len(doc.Normalizations) >= 100, "normalisation count", token.NoPos, fmt.Sprint(len(doc.Normalizations)), fmt.Sprintf("only %d normalisations decoded", len(doc.Normalizations)))
		}
	}

	// R7 purity of categorisation
	r.Rule("C20.R7", "categorisation is a pure function: GetAuditEventType reads no package variable, calls nothing and writes nothing, so equal arguments give equal results", 1)
	if fn, err := w.Func("aucoalesce", "GetAuditEventType"); err != nil {
		r.Anchor(err)
	} else {
		pure := true
		why := ""
		instrsOf(fn, func(in ssa.Instruction) {
			switch v := in.(type) {
			case ssa.CallInstruction:
				// a helper that is itself a pure function of its arguments is fine
				if g := calleeOf(v.Common()); g != nil && pureOfArgs(g, 0) {
					return
				}
				pure, why = false, "calls "+calleeName(in)
			case *ssa.Store, *ssa.MapUpdate, *ssa.Send:
				pure, why = false, "writes memory"
			case *ssa.UnOp:
				if v.Op == token.MUL {
					pure, why = false, "reads memory: "+Term(v)
				}
			case *ssa.Lookup:
				pure, why = false, "reads a map"
			}
		})
		r.Check(pure, "GetAuditEventType", fn.Pos(), "comparisons on the parameter only", "GetAuditEventType is not a pure function of its argument: "+why)
		// note on empty ranges (information only)
	}

	// R8 deterministic selection
	c15Deterministic(r, w, "C20.R8")

	// R9 tables are what their literals say
	r.Rule("C20.R9", "the name/number tables are written only by their literals: every map update or delete on a package-level table of auparse, rule or aucoalesce (or on a map reached through one) is either the literal's own initialisation or one of the reviewed start-up writers (ppc64/ppc64le aliases of the ppc syscall table, the reverse tables of package rule, the normalisation index built from the YAML)", 2)
	{
		isTableGlobal := func(g *ssa.Global) bool {
			if g.Pkg == nil {
				return false
			}
			switch shortName(g.Pkg.Pkg.Path()) {
			case "auparse", "rule", "aucoalesce":
			default:
				return false
			}
			_, isMap := g.Type().(*types.Pointer).Elem().Underlying().(*types.Map)
			return isMap
		}
		// the global a map value derives from (loaded from it, looked up in it, ranged out of it)
		var origin func(v ssa.Value, depth int) *ssa.Global
		origin = func(v ssa.Value, depth int) *ssa.Global {
			if depth > 6 {
				return nil
			}
			switch x := stripConv(v).(type) {
			case *ssa.UnOp:
				if x.Op == token.MUL {
					if g, ok := x.X.(*ssa.Global); ok && isTableGlobal(g) {
						return g
					}
				}
			case *ssa.Lookup:
				return origin(x.X, depth+1)
			case *ssa.Extract:
				switch t := x.Tuple.(type) {
				case *ssa.Lookup:
					return origin(t.X, depth+1)
				case *ssa.Next:
					if rg, ok := t.Iter.(*ssa.Range); ok {
						return origin(rg.X, depth+1)
					}
				}
			case *ssa.Phi:
				for _, e := range x.Edges {
					if g := origin(e, depth+1); g != nil {
						return g
					}
				}
			}
			return nil
		}
		reviewed := func(fn *ssa.Function, g *ssa.Global, in ssa.Instruction) (bool, string) {
			name := g.Name()
			root := rootFn(fn)
			switch {
			case root.Synthetic != "" && strings.HasPrefix(root.Name(), "init"):
				return true, "the literal's own initialisation"
			case name == "AuditSyscalls" && strings.HasPrefix(root.Name(), "init"):
				// AuditSyscalls["ppc64"|"ppc64le"] = AuditSyscalls["ppc"]
				if mu, ok := in.(*ssa.MapUpdate); ok {
					k, isK := constString(mu.Key)
					src := origin(mu.Value, 0)
					if isK && (k == "ppc64" || k == "ppc64le") && src == g {
						if _, direct := stripConv(mu.Map).(*ssa.UnOp); direct {
							return true, "ppc64/ppc64le share the ppc table"
						}
					}
				}
			case strings.HasPrefix(name, "reverse"):
				return true, "reverse table (its contents are decided by the reverse-table rule)"
			case name == "syscallNorms" || name == "recordTypeNorms":
				return true, "normalisation index built from the embedded YAML (decided by R6 and R8)"
			}
			return false, ""
		}
		for _, fn := range w.SrcFuncs() {
			instrsOf(fn, func(in ssa.Instruction) {
				var m ssa.Value
				what := ""
				switch x := in.(type) {
				case *ssa.MapUpdate:
					m, what = x.Map, "updated"
				case *ssa.Call:
					if calleeName(x) == "delete" && len(x.Call.Args) == 2 {
						m, what = x.Call.Args[0], "deleted from"
					}
				}
				if m == nil {
					return
				}
				g := origin(m, 0)
				if g == nil {
					return
				}
				ok, why := reviewed(fn, g, in)
				key := fmt.Sprintf("%s.%s %s in %s", shortName(g.Pkg.Pkg.Path()), g.Name(), what, fnName(fn))
				r.Check(ok, key, in.Pos(), why, fmt.Sprintf("the table %s is %s after its literal was built (in %s): what the table says at run time is no longer what its literal says, and the exhaustive checks of the literal do not cover it", g.Name(), what, fnName(fn)))
			})
		}
	}
}

func archLike(s string, names map[string]bool) bool {
	if names[s] || s == "b32" || s == "b64" {
		return true
	}
	switch s {
	case "arm", "aarch64", "i386", "x86_64", "ppc", "ppc64", "ppc64le", "s390", "s390x":
		return true
	}
	return false
}

// c15Deterministic: no range over a map decides which normalisation is selected.
func c15Deterministic(r *Run, w *World, ruleID string) {
	r.Rule(ruleID, "selection is deterministic: applyNormalization contains no range over a map; the candidates for a record type are a slice walked in order", 1)
	fn, err := w.Func("aucoalesce", "applyNormalization")
	if err != nil {
		r.Anchor(err)
		return
	}
	nRange := 0
	instrsOf(fn, func(in ssa.Instruction) {
		if rg, ok := in.(*ssa.Range); ok {
			if _, isMap := rg.X.Type().Underlying().(*types.Map); isMap {
				nRange++
				r.Fail("range over map in applyNormalization", rg.Pos(), "a range over a map takes part in selecting/applying the normalisation; map iteration order is random")
			}
		}
	})
	if nRange == 0 {
		r.OK("applyNormalization has no map range", fn.Pos(), "")
	}
	// the loader appends in file order
	if ld, err := w.Func("aucoalesce", "LoadNormalizationConfig"); err == nil {
		instrsOf(ld, func(in ssa.Instruction) {
			if rg, ok := in.(*ssa.Range); ok {
				if _, isMap := rg.X.Type().Underlying().(*types.Map); isMap {
					r.Fail("range over map in LoadNormalizationConfig", rg.Pos(), "the loader ranges over a map while building the tables")
				}
			}
		})
	} else {
		r.Anchor(err)
	}
}

var _ = packages.NeedName

// pureOfArgs: a repository function that reads no memory (no loads, no map reads), writes
// nothing and calls only functions of the same kind — its result depends on its arguments only.
func pureOfArgs(f *ssa.Function, depth int) bool {
	if f == nil || !isRepoFunc(f) || depth > 3 || f.Recover != nil {
		return false
	}
	ok := true
	instrsOf(f, func(in ssa.Instruction) {
		switch v := in.(type) {
		case ssa.CallInstruction:
			if b, isB := v.Common().Value.(*ssa.Builtin); isB && (b.Name() == "len" || b.Name() == "cap") {
				return
			}
			g := calleeOf(v.Common())
			if g == f || !pureOfArgs(g, depth+1) {
				ok = false
			}
		case *ssa.Store, *ssa.MapUpdate, *ssa.Send, *ssa.Lookup, *ssa.Go, *ssa.Defer, *ssa.Select:
			ok = false
		case *ssa.UnOp:
			if v.Op == token.MUL || v.Op == token.ARROW {
				ok = false
			}
		}
	})
	return ok
}

// noRecursiveFormat: a String / Error / GoString method that hands its own receiver to a fmt
// formatting call under a verb that calls that same method again never returns (the stack
// overflow is fatal and cannot be recovered). Every such method of the repository is checked:
// the receiver (or a value-preserving conversion of it to the same named type) must not be an
// operand of Sprintf/Sprint/Errorf/... unless the verb for it does not consult the method.
func noRecursiveFormat(r *Run, w *World) {
	methodVerbs := map[string]string{"String": "svxXq", "Error": "svxXq", "GoString": "v"}
	for _, fn := range w.SrcFuncs() {
		verbs, ok := methodVerbs[fn.Name()]
		if !ok || fn.Signature.Recv() == nil || len(fn.Params) == 0 || fn.Parent() != nil {
			continue
		}
		recv := fn.Params[0]
		recvT := recv.Type()
		n := 0
		bad := ""
		instrsOf(fn, func(in ssa.Instruction) {
			c, ok := in.(*ssa.Call)
			if !ok {
				return
			}
			name := calleeName(c)
			fmtIdx := -1
			switch name {
			case "fmt.Sprintf", "fmt.Errorf":
				fmtIdx = 0
			case "fmt.Fprintf":
				fmtIdx = 1
			case "fmt.Sprint", "fmt.Sprintln":
			default:
				return
			}
			n++
			els := varargElems(c, len(c.Call.Args)-1)
			format := ""
			if fmtIdx >= 0 {
				format, _ = constString(c.Call.Args[fmtIdx])
			}
			// verbs in order
			var vs []byte
			for i := 0; i+1 < len(format); i++ {
				if format[i] != '%' {
					continue
				}
				j := i + 1
				for j < len(format) && strings.ContainsRune("+-# 0123456789.*[]", rune(format[j])) {
					j++
				}
				if j < len(format) {
					if format[j] != '%' {
						vs = append(vs, format[j])
					}
					i = j
				}
			}
			for k, e := range els {
				if e == nil {
					continue
				}
				v := e
				if mi, ok := v.(*ssa.MakeInterface); ok {
					v = mi.X
				}
				// the receiver itself, or the receiver re-typed to the same named type
				isSelf := v == ssa.Value(recv)
				if ct, ok := v.(*ssa.ChangeType); ok && ct.X == ssa.Value(recv) && types.Identical(ct.Type(), recvT) {
					isSelf = true
				}
				if ld, ok := v.(*ssa.UnOp); ok && ld.Op == token.MUL && ld.X == ssa.Value(recv) {
					// *ptrRecv: a value of the element type; its method set includes the value methods only
					if _, isPtr := recvT.(*types.Pointer); isPtr {
						isSelf = false
					}
				}
				if !isSelf {
					continue
				}
				verb := byte('v')
				if fmtIdx >= 0 {
					if k < len(vs) {
						verb = vs[k]
					}
				}
				if strings.ContainsRune(verbs, rune(verb)) {
					bad = fmt.Sprintf("%s passes its receiver to %s under %%%c, which calls %s again: unbounded recursion", fnName(fn), name, verb, fn.Name())
				}
			}
		})
		if n > 0 || bad != "" {
			r.Check(bad == "", fnName(fn)+" does not format itself", fn.Pos(), fmt.Sprintf("%d formatting calls, none re-enters the method", n), bad)
		}
	}
}

// archCompat decides C20.R10 (see the rule text). The pairing is stated by name; codes come from
// AuditArchNames.
func archCompat(r *Run, w *World) {
	compat := map[string]string{"aarch64": "arm", "x86_64": "i386", "ppc64": "ppc", "s390x": "s390"}
	self32 := map[string]bool{"arm": true, "i386": true, "ppc": true, "s390": true}
	nameOf := map[string]string{} // decimal code → name
	if ents, _, _, err := w.MapLit("auparse", "AuditArchNames"); err != nil {
		r.Anchor(err)
		return
	} else {
		for _, kv := range ents {
			n, _ := cStr(kv.ValC)
			k, _ := cUint(kv.KeyC)
			nameOf[fmt.Sprint(k)] = n
		}
	}
	// forward: getArch
	if ga, err := w.Func("rule", "getArch"); err != nil {
		r.Anchor(err)
	} else if archByPaths(r, w, ga, compat, self32) {
		// decided by enumerating getArch's paths for every (kind, runtime) pair
	} else {
		seen := map[string]bool{}
		for _, arm := range switchArms(ga) {
			if !strings.Contains(arm.Subject, "getRuntimeArch") {
				continue
			}
			kind := ""
			for _, l := range GuardLits(arm.If.Block()) {
				switch {
				case strings.HasSuffix(l, "== \"b64\""):
					kind = "b64"
				case strings.HasSuffix(l, "== \"b32\""):
					kind = "b32"
				}
			}
			rt := constKey(arm.Const)
			if kind == "" {
				r.Undecided("getArch arm "+rt, arm.If.Pos(), "a test of the runtime architecture that is under neither b64 nor b32")
				continue
			}
			eff, pos := armEffect(arm.Arm, arm.If.Block())
			want := ""
			switch {
			case kind == "b64" && compat[rt] != "":
				want = "phi " + arm.Subject
			case kind == "b32" && self32[rt]:
				want = "phi " + arm.Subject
			case kind == "b32" && compat[rt] != "":
				want = "phi \"" + compat[rt] + "\""
			}
			key := "getArch " + kind + " on " + rt
			seen[kind+"/"+rt] = true
			if want == "" {
				r.Fail(key, arm.If.Pos(), fmt.Sprintf("%s is accepted on runtime architecture %s, which has no such ABI: %s", kind, rt, eff))
				continue
			}
			// a self mapping may also be written as the constant itself
			okEff := eff == want || (strings.HasSuffix(want, arm.Subject) && eff == "phi \""+rt+"\"")
			r.Check(okEff, key, pos, eff, fmt.Sprintf("%s on %s resolves by [%s]; want [%s]", kind, rt, eff, want))
		}
		if len(seen) == 0 {
			// the same mapping as data: a read-only table table[kind][runtime] = real looked up
			// with the lower-cased argument and the runtime architecture
			var tbl *ssa.Global
			instrsOf(ga, func(in ssa.Instruction) {
				lk, ok := in.(*ssa.Lookup)
				if !ok {
					return
				}
				inner := lk.X
				if ex, isEx := inner.(*ssa.Extract); isEx {
					inner = ex.Tuple
				}
				l2, ok := inner.(*ssa.Lookup)
				if !ok {
					return
				}
				if ld, isLd := l2.X.(*ssa.UnOp); isLd && ld.Op == token.MUL {
					if g, isG := ld.X.(*ssa.Global); isG && strings.Contains(Term(lk.Index), "getRuntimeArch") {
						tbl = g
					}
				}
			})
			if tbl == nil || w.roTable(tbl) == nil {
				r.Undecided("getArch b32/b64 resolution", ga.Pos(), "getArch neither tests the runtime architecture arm by arm nor looks it up in a read-only table[kind][runtime]")
			} else if ents, p, _, err := w.MapLit(tbl.Pkg.Pkg.Name(), tbl.Name()); err != nil {
				r.Anchor(err)
			} else {
				for _, outer := range ents {
					kind, _ := cStr(outer.KeyC)
					lit, isLit := outer.Val.(*ast.CompositeLit)
					if (kind != "b64" && kind != "b32") || !isLit {
						r.Undecided("getArch table entry "+kind, outer.Pos, "not a b32/b64 entry with a literal value")
						continue
					}
					for _, kv := range LitEntries(p, lit) {
						rt, _ := cStr(kv.KeyC)
						real, isC := cStr(kv.ValC)
						want := ""
						switch {
						case kind == "b64" && compat[rt] != "":
							want = rt
						case kind == "b32" && self32[rt]:
							want = rt
						case kind == "b32" && compat[rt] != "":
							want = compat[rt]
						}
						seen[kind+"/"+rt] = true
						r.Check(isC && want != "" && real == want, "getArch "+kind+" on "+rt, kv.Pos, real, fmt.Sprintf("%s on %s resolves to %q; want %q", kind, rt, real, want))
					}
				}
			}
		}
		for rt := range compat {
			for _, kind := range []string{"b64", "b32"} {
				if !seen[kind+"/"+rt] {
					r.Fail("getArch "+kind+" on "+rt, ga.Pos(), fmt.Sprintf("getArch has no arm resolving %s on %s", kind, rt))
				}
			}
		}
	}
	// back: getDisplayArch
	gd, err := w.Func("rule", "getDisplayArch")
	if err != nil {
		r.Anchor(err)
		return
	}
	ps, complete := Paths(gd, PathOpts{Cap: 20000})
	if !complete {
		r.Undecided("getDisplayArch paths", gd.Pos(), "path cap exceeded")
		return
	}
	num := regexp.MustCompile(`^(.+) == ([0-9]+)$`)
	rtRe := regexp.MustCompile(`rule\.reverseArch\[rule\.getRuntimeArch\(\)#0\]`)
	hasRe := regexp.MustCompile(`^has\((rule\.\w+), (.+)\)$`)
	valRe := regexp.MustCompile(`^(.+) == rangeval\(range\((rule\.\w+)\)\)$`)
	idxRe := regexp.MustCompile(`^(.+) == (rule\.\w+)\[(.+)\]$`)
	seenB := map[string]bool{}
	for _, p := range ps {
		ret := p.Ret()
		if ret == nil || len(ret.Results) != 2 {
			continue
		}
		name, isC := constString(ret.Results[0])
		if !isC || (name != "b32" && name != "b64") {
			continue
		}
		reqK, rtK, rtTerm, eqRT := "", "", "", false
		lits := p.Lits()
		// the runtime architecture's term: the reverseArch lookup of getRuntimeArch's result
		for _, l := range lits {
			if m := rtRe.FindString(l); m != "" {
				rtTerm = m
			}
		}
		// sets and pairs read from read-only tables (a compat table instead of switches)
		var reqSet, rtSet map[string]bool
		var pairs [][2]string
		tableOf := func(tname string) ([]KV, bool) {
			i := strings.Index(tname, ".")
			if i < 0 {
				return nil, false
			}
			g, ok := r.globalOf("rule", tname[i+1:])
			if !ok || w.roTable(g) == nil {
				return nil, false
			}
			ents, _, _, err := w.MapLit("rule", tname[i+1:])
			return ents, err == nil
		}
		nm := func(c constant.Value) string {
			k, _ := cUint(c)
			return nameOf[fmt.Sprint(k)]
		}
		intersect := func(cur map[string]bool, add map[string]bool) map[string]bool {
			if cur == nil {
				return add
			}
			out := map[string]bool{}
			for k := range cur {
				if add[k] {
					out[k] = true
				}
			}
			return out
		}
		undecidedTable := false
		for _, l := range lits {
			if m := num.FindStringSubmatch(l); m != nil {
				if m[1] == "p0" {
					reqK = m[2]
				} else if m[1] == rtTerm {
					rtK = m[2]
				}
				continue
			}
			if rtTerm != "" && l == "p0 == "+rtTerm {
				eqRT = true
				continue
			}
			if m := hasRe.FindStringSubmatch(l); m != nil && (m[2] == "p0" || m[2] == rtTerm) {
				ents, ok := tableOf(m[1])
				if !ok {
					undecidedTable = true
					continue
				}
				set := map[string]bool{}
				for _, kv := range ents {
					set[nm(kv.KeyC)] = true
				}
				if m[2] == "p0" {
					reqSet = intersect(reqSet, set)
				} else {
					rtSet = intersect(rtSet, set)
				}
				continue
			}
			if m := valRe.FindStringSubmatch(l); m != nil && (m[1] == "p0" || m[1] == rtTerm) {
				ents, ok := tableOf(m[2])
				if !ok {
					undecidedTable = true
					continue
				}
				set := map[string]bool{}
				for _, kv := range ents {
					set[nm(kv.ValC)] = true
				}
				if m[1] == "p0" {
					reqSet = intersect(reqSet, set)
				} else {
					rtSet = intersect(rtSet, set)
				}
				continue
			}
			if m := idxRe.FindStringSubmatch(l); m != nil && m[1] == "p0" && m[3] == rtTerm {
				ents, ok := tableOf(m[2])
				if !ok {
					undecidedTable = true
					continue
				}
				for _, kv := range ents {
					pairs = append(pairs, [2]string{nm(kv.KeyC), nm(kv.ValC)})
				}
			}
		}
		req, rt := nameOf[reqK], nameOf[rtK]
		if eqRT {
			if req == "" {
				req = rt
			}
			rt = req
		}
		if (req == "" || rt == "") && !undecidedTable && (reqSet != nil || rtSet != nil || pairs != nil) {
			// every (runtime, requested) combination the tables allow on this path
			var cands [][2]string
			switch {
			case pairs != nil:
				for _, pr := range pairs {
					if (rtSet == nil || rtSet[pr[0]]) && (reqSet == nil || reqSet[pr[1]]) && (rt == "" || rt == pr[0]) && (req == "" || req == pr[1]) {
						cands = append(cands, pr)
					}
				}
			case eqRT:
				set := intersect(reqSet, rtSet)
				if reqSet == nil {
					set = rtSet
				} else if rtSet == nil {
					set = reqSet
				}
				for k := range set {
					cands = append(cands, [2]string{k, k})
				}
			default:
				rs, qs := rtSet, reqSet
				if rs == nil && rt != "" {
					rs = map[string]bool{rt: true}
				}
				if qs == nil && req != "" {
					qs = map[string]bool{req: true}
				}
				for a := range rs {
					for b := range qs {
						if a != b { // the path has requested != runtime
							cands = append(cands, [2]string{a, b})
						}
					}
				}
			}
			sort.Slice(cands, func(i, j int) bool { return cands[i][0]+cands[i][1] < cands[j][0]+cands[j][1] })
			if len(cands) > 0 {
				for _, c := range cands {
					k2 := fmt.Sprintf("getDisplayArch %s for %s on %s (table)", name, orQ(c[1]), orQ(c[0]))
					if seenB[k2] {
						continue
					}
					seenB[k2] = true
					if name == "b64" {
						r.Check(c[0] == c[1] && compat[c[0]] != "", k2, ret.Pos(), "", fmt.Sprintf("architecture %s on a %s runtime is listed as b64, which getArch resolves to the runtime architecture (and only on a 64-bit one)", c[1], c[0]))
					} else {
						r.Check((c[0] == c[1] && self32[c[0]]) || compat[c[0]] == c[1], k2, ret.Pos(), "", fmt.Sprintf("architecture %s on a %s runtime is listed as b32, which getArch resolves to %s there: the listed rule re-encodes to another architecture", c[1], c[0], orQ(compat[c[0]])))
					}
				}
				continue
			}
		}
		key := fmt.Sprintf("getDisplayArch %s for %s on %s", name, orQ(req), orQ(rt))
		if seenB[key] {
			continue
		}
		seenB[key] = true
		switch {
		case req == "" || rt == "":
			r.Undecided(key, ret.Pos(), "cannot read the (runtime, requested) architecture pair from the path conditions: "+compactPath(p))
		case name == "b64":
			r.Check(req == rt && compat[rt] != "", key, ret.Pos(), "", fmt.Sprintf("architecture %s on a %s runtime is listed as b64, which getArch resolves to the runtime architecture (and only on a 64-bit one)", req, rt))
		default:
			r.Check((req == rt && self32[rt]) || compat[rt] == req, key, ret.Pos(), "", fmt.Sprintf("architecture %s on a %s runtime is listed as b32, which getArch resolves to %s there: the listed rule re-encodes to another architecture", req, rt, orQ(compat[rt])))
		}
	}
}

func orQ(s string) string {
	if s == "" {
		return "?"
	}
	return s
}

// archByPaths decides the getArch half of C20.R10 whatever the shape of the code: for kind in
// {b64, b32} and every runtime architecture, the paths of getArch are enumerated with
// strings.ToLower(arch) pinned to the kind and getRuntimeArch's result pinned to the
// architecture; the name a success path returns must be the runtime architecture itself, its
// compat architecture, or there must be no success path. Returns false (nothing reported) when
// the outcome of some pair cannot be read from the paths (a table-driven getArch: the caller
// then reads the table).
func archByPaths(r *Run, w *World, ga *ssa.Function, compat map[string]string, self32 map[string]bool) bool {
	var lowers, rts []ssa.Value
	instrsOf(ga, func(in ssa.Instruction) {
		switch v := in.(type) {
		case *ssa.Call:
			if calleeName(v) == "strings.ToLower" && len(v.Call.Args) == 1 && isParamValue(v.Call.Args[0], ga.Params[0]) {
				lowers = append(lowers, v)
			}
		case *ssa.Extract:
			if c, ok := v.Tuple.(*ssa.Call); ok && v.Index == 0 && strings.HasSuffix(calleeName(c), "getRuntimeArch") {
				rts = append(rts, v)
			}
		}
	})
	if len(lowers) == 0 || len(rts) == 0 || ga.Signature.Results().Len() != 3 {
		return false
	}
	type outcome struct {
		key, got, want string
		pos            token.Pos
	}
	var outs []outcome
	for _, kind := range []string{"b64", "b32"} {
		for _, rt := range []string{"aarch64", "x86_64", "ppc64", "s390x", "arm", "i386", "s390"} {
			assume := map[ssa.Value]string{}
			for _, l := range lowers {
				assume[l] = strconv.Quote(kind)
			}
			for _, e := range rts {
				assume[e] = strconv.Quote(rt)
			}
			ps, complete := Paths(ga, PathOpts{Assume: assume, Cap: 4000})
			if !complete {
				return false
			}
			got := map[string]bool{}
			pos := ga.Pos()
			for _, p := range ps {
				ret := p.Ret()
				if ret == nil || len(ret.Results) != 3 || !isNilConst(ret.Results[2]) {
					continue
				}
				pos = ret.Pos()
				t := p.Term(ret.Results[0])
				isRT := false
				for _, e := range rts {
					if t == Term(e) {
						isRT = true
					}
				}
				switch {
				case isRT:
					got[rt] = true
				case strings.HasPrefix(t, "\"") && strings.HasSuffix(t, "\""):
					got[strings.Trim(t, "\"")] = true
				default:
					return false // not readable from the path: a table
				}
			}
			want := ""
			switch {
			case kind == "b64" && compat[rt] != "":
				want = rt
			case kind == "b32" && self32[rt]:
				want = rt
			case kind == "b32" && compat[rt] != "":
				want = compat[rt]
			}
			var gl []string
			for g := range got {
				gl = append(gl, g)
			}
			sort.Strings(gl)
			outs = append(outs, outcome{"getArch " + kind + " on " + rt, strings.Join(gl, ","), want, pos})
		}
	}
	for _, o := range outs {
		wantT := o.want
		if wantT == "" {
			wantT = "rejected"
		}
		gotT := o.got
		if gotT == "" {
			gotT = "rejected"
		}
		r.Check(o.got == o.want, o.key, o.pos, wantT, fmt.Sprintf("%s resolves to %s; want %s", strings.TrimPrefix(o.key, "getArch "), gotT, wantT))
	}
	return true
}
