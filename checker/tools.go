//go:build tools

package main

import (
	_ "golang.org/x/tools/go/callgraph/cha"
	_ "golang.org/x/tools/go/callgraph/vta"
	_ "golang.org/x/tools/go/cfg"
	_ "golang.org/x/tools/go/packages"
	_ "golang.org/x/tools/go/ssa"
	_ "golang.org/x/tools/go/ssa/ssautil"
	_ "golang.org/x/tools/go/types/typeutil"
	_ "gopkg.in/yaml.v3"
)
