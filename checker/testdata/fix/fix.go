// Package fix holds tiny positive/negative examples for the checker's analyses (vcheck fixtures).
package fix

import (
	"errors"
	"regexp"
	"strconv"
	"strings"
	"sync"
)

// --- A3 guard dominance ---------------------------------------------------------------------

func GuardGood(s []int, i int) int {
	if i < 0 || i >= len(s) {
		return 0
	}
	return s[i]
}

func GuardBad(s []int, i int) int {
	if i < 0 {
		return 0
	}
	return s[i]
}

func GuardAndGood(s string, a, b int) string {
	ok := a >= 0 && a <= b && b <= len(s)
	if !ok {
		return ""
	}
	return s[a:b]
}

// --- A4 paths --------------------------------------------------------------------------------

type counter struct{ n int }

func (c *counter) add() { c.n++ }

func PathOnceGood(c *counter, x int) {
	if x > 0 {
		c.add()
		return
	}
	c.add()
}

func PathOnceBad(c *counter, x int) {
	if x > 0 {
		c.add()
	}
	c.add()
}

func SwitchFeasible(k int) int {
	r := 0
	switch k {
	case 1, 2:
		r = 10
	case 3:
		r = 20
	}
	if k == 3 {
		r++ // reachable only with r == 20
	}
	return r
}

// --- A5 census -------------------------------------------------------------------------------

type box struct {
	items []int
	m     map[string]int
}

func (b *box) Put(v int)           { b.items = append(b.items, v) }
func (b *box) Set(k string, v int) { b.m[k] = v }
func (b *box) Sneak() *[]int       { return &b.items }

// --- A6 lockset ------------------------------------------------------------------------------

type guarded struct {
	mu sync.Mutex
	v  int
}

func (g *guarded) LockedGood() int {
	g.mu.Lock()
	defer g.mu.Unlock()
	return g.helper()
}

func (g *guarded) helper() int { return g.v }

func (g *guarded) UnlockedBad() int { return g.v }

func (g *guarded) EarlyUnlockBad() int {
	g.mu.Lock()
	g.mu.Unlock()
	return g.v
}

// --- A7 origin -------------------------------------------------------------------------------

type src struct{ data map[string]string }

func (s *src) Data() (map[string]string, error) { return s.data, nil }

func TaintBad(s *src) {
	d, _ := s.Data()
	delete(d, "k")
}

func TaintGood(s *src) map[string]string {
	d, _ := s.Data()
	out := map[string]string{}
	for k, v := range d {
		out[k] = v
	}
	delete(out, "k")
	return out
}

func TaintAppendBad(s []string) []string {
	out := s[:0]
	for _, x := range s {
		if x != "" {
			out = append(out, x)
		}
	}
	return out
}

// --- A8 bounds -------------------------------------------------------------------------------

func BoundsIndexGood(s string) string {
	i := strings.IndexByte(s, '=')
	if i == -1 {
		return ""
	}
	return s[i+1:]
}

func BoundsIndexBad(s string) string {
	i := strings.IndexByte(s, '=')
	return s[i+2:]
}

func BoundsLoopGood(a, b []int) int {
	n := 0
	if len(b) < len(a) {
		return 0
	}
	for i := 0; i < len(a); i++ {
		n += b[i]
	}
	return n
}

func BoundsLoopBad(a, b []int) int {
	n := 0
	for i := 0; i < len(a); i++ {
		n += b[i]
	}
	return n
}

func BoundsWrapBad(buf []byte, off, n uint32) []byte {
	end := off + n
	if end > uint32(len(buf)) {
		return nil
	}
	return buf[off:end]
}

func BoundsWrapGood(buf []byte, off, n uint32) []byte {
	end := uint64(off) + uint64(n)
	if end > uint64(len(buf)) {
		return nil
	}
	return buf[off:end]
}

func BoundsDivGood(src []byte) byte {
	var x byte
	for i := 0; i < len(src)/2; i++ {
		x ^= src[i*2+1]
	}
	return x
}

// --- A9 regexp -------------------------------------------------------------------------------

var (
	ReAnchored   = regexp.MustCompile(`^\s*(\w+)\s*(<=|=|<)(.+)$`)
	ReUnanchored = regexp.MustCompile(`(\w+)\s*(<=|=|<)(\S+)`)
	RePrefixBad  = regexp.MustCompile(`^(\w+)(<|<=|=)(.+)$`)
)

// --- source normalisation (functions whose name starts with "inl" are treated as new helpers) ---

// NormCheckedIndex: the bounds check lives in a new helper; after normalisation the access is
// proved from the helper's check (error phi pinned to its nil edge).
func NormCheckedIndex(s []int, i int) int {
	if err := inlCheckIndex(s, i); err != nil {
		return -1
	}
	return s[i]
}

func inlCheckIndex(s []int, i int) error {
	if i < 0 || i >= len(s) {
		return errors.New("index out of range")
	}
	return nil
}

// NormCheckedIndexBad: the helper's check is off by one.
func NormCheckedIndexBad(s []int, i int) int {
	if err := inlCheckIndexBad(s, i); err != nil {
		return -1
	}
	return s[i]
}

func inlCheckIndexBad(s []int, i int) error {
	if i < 0 || i > len(s) {
		return errors.New("index out of range")
	}
	return nil
}

// NormPredicate: a condition moved into a helper that decides with a switch; the paths of the
// caller still carry the three comparisons.
func NormPredicate(t int) int {
	if inlEnds(t) {
		return 1
	}
	return 0
}

func inlEnds(t int) bool {
	switch {
	case t == 1327:
		return true
	case t <= 1299:
		return true
	default:
		return t >= 2100
	}
}

// NormLockStep: two induction variables advancing in lock step.
func NormLockStep(src []byte) byte {
	var x byte
	n := len(src) / 2
	for i, j := 0, 0; i < n; i, j = i+1, j+2 {
		x ^= src[j+1]
	}
	return x
}

// NormSum: commutative sums are one term.
func NormSumA(a, b, c int) int { return (a + b) + c }
func NormSumB(a, b, c int) int { return c + (b + a) }

// --- round-4 primitives ---

// NormStrideGood: even length known, step two: s[i+1] is in range. NormStrideBad: the length is
// not known to be even when the access happens.
func NormStrideGood(s string) int {
	if len(s)%2 == 1 {
		return -1
	}
	n := 0
	for i := 0; i < len(s); i += 2 {
		n += int(s[i]) + int(s[i+1])
	}
	return n
}

func NormStrideBad(s string) int {
	n := 0
	for i := 0; i < len(s); i += 2 {
		n += int(s[i]) + int(s[i+1])
	}
	if len(s)%2 == 1 {
		return -1
	}
	return n
}

// NormEdgeGood: the hint is used only when it is in range, otherwise 0 (the list is not empty).
// NormEdgeBad: the comparison is off by one.
func NormEdgeGood(p []int, hint int) int {
	if len(p) == 0 || hint < 0 {
		return 0
	}
	if hint >= len(p) {
		hint = 0
	}
	return p[hint]
}

func NormEdgeBad(p []int, hint int) int {
	if len(p) == 0 || hint < 0 {
		return 0
	}
	if hint > len(p) {
		hint = 0
	}
	return p[hint]
}

// NormMode: a helper with a selector parameter inlined with a constant argument: only the
// selected arm is live.
type modeRec struct{ a, b, c int }

func NormMode(v int) modeRec {
	return inlSetMode(2, v)
}

func inlSetMode(which, v int) modeRec {
	var r modeRec
	switch which {
	case 1:
		r.a = v
	case 2:
		r.b = v
	case 3:
		r.c = v
	}
	return r
}

// NormTable: membership in a read-only table under a pinned key.
var normStringKinds = map[int]bool{3: true, 5: true}

func NormTable(k int) int {
	if normStringKinds[k] {
		return 1
	}
	return 0
}

// NormMergedErr: the check's verdict survives a later conditional overwrite of err.
func NormMergedErr(s []int, i int, w func() error) int {
	err := inlCheckIndex(s, i)
	if err == nil && w != nil {
		err = w()
	}
	if err != nil {
		return -1
	}
	return s[i]
}

// NormMergedErrBad: the overwrite is unconditional, the verdict is lost.
func NormMergedErrBad(s []int, i int, w func() error) int {
	err := inlCheckIndex(s, i)
	if w != nil {
		err = w()
	}
	if err != nil {
		return -1
	}
	return s[i]
}

// NormClone / NormCloneBad: clone idioms.
func NormClone(b []byte) []byte    { return append(b[:0:0], b...) }
func NormCloneBad(b []byte) []byte { return append(b[:0], b...) }

// TripFull / TripShort / TripNested: constant trip counts of counted loops (round 7).
func TripFull(m [4]uint32) (out []int) {
	for n := 0; n < 128; n++ {
		if m[n/32]&(1<<(n%32)) != 0 {
			out = append(out, n)
		}
	}
	return out
}

func TripShort(m [4]uint32) (out []int) {
	for n := 0; n < 127; n++ {
		if m[n/32]&(1<<(n%32)) != 0 {
			out = append(out, n)
		}
	}
	return out
}

func TripNested(m [4]uint32) (out []int) {
	for w, bits := range m {
		for b := 0; b < 32; b++ {
			if bits&(1<<b) != 0 {
				out = append(out, w*32+b)
			}
		}
	}
	return out
}

// NumLoopStops / NumLoopGoesOn: a loop counted by a number read from the input (round 6).
func NumLoopStops(m map[string]string, argc string) int {
	n, err := strconv.Atoi(argc)
	if err != nil {
		return -1
	}
	k := 0
	for i := 0; i < n; i++ {
		v, ok := m["a"+strconv.Itoa(i)]
		if !ok {
			return k
		}
		k += len(v)
	}
	return k
}

func NumLoopGoesOn(m map[string]string, argc string) int {
	n, err := strconv.Atoi(argc)
	if err != nil {
		return -1
	}
	k := 0
	for i := 0; i < n; i++ {
		v, ok := m["a"+strconv.Itoa(i)]
		if !ok {
			continue
		}
		k += len(v)
	}
	return k
}
