module fix

go 1.21
