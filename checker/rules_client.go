package main

// Rules over audit.go / netlink.go: C08, C16, C17, C18.

import (
	"fmt"
	"go/constant"
	"go/token"
	"go/types"
	"path/filepath"
	"sort"
	"strconv"
	"strings"

	"golang.org/x/tools/go/ssa"
)

type client struct {
	r *Run
	w *World

	getReply, set, waitACKs, closeFn, getStatus, getStatusAsync, getRules      *ssa.Function
	deleteRule, deleteRules, addRule, recvAudit, parseErr, parseMsg, serialize *ssa.Function
	nlSend, nlRecv, nlClose, newNetlink, toWire, fromWire, setPID              *ssa.Function
	fPending, fClearPID, fCloseOnce, fNetlink, fSeq, fPid, fReadBuf            *types.Var
	nsr                                                                        *types.Named
	serializeErr                                                               error
	ok                                                                         bool
	sysc                                                                       map[string]string // syscall constants by name
}

func loadClient(r *Run, w *World) *client {
	x := &client{r: r, w: w, ok: true, sysc: map[string]string{}}
	m := func(typ, name string) *ssa.Function {
		f, err := w.Method("libaudit", typ, name)
		if err != nil {
			r.Anchor(err)
			x.ok = false
		}
		return f
	}
	fn := func(name string) *ssa.Function {
		f, err := w.Func("libaudit", name)
		if err != nil {
			r.Anchor(err)
			x.ok = false
		}
		return f
	}
	fv := func(typ, name string) *types.Var {
		v, err := w.FieldVar("libaudit", typ, name)
		if err != nil {
			r.Anchor(err)
			x.ok = false
		}
		return v
	}
	x.getReply, x.set = m("AuditClient", "getReply"), m("AuditClient", "set")
	x.waitACKs, x.closeFn, x.getStatus = m("AuditClient", "WaitForPendingACKs"), m("AuditClient", "Close"), m("AuditClient", "GetStatus")
	x.getStatusAsync, x.getRules = m("AuditClient", "GetStatusAsync"), m("AuditClient", "GetRules")
	x.deleteRule, x.deleteRules, x.addRule = m("AuditClient", "DeleteRule"), m("AuditClient", "DeleteRules"), m("AuditClient", "AddRule")
	x.recvAudit, x.setPID = m("AuditClient", "Receive"), m("AuditClient", "SetPID")
	x.parseErr, x.parseMsg = fn("ParseNetlinkError"), fn("parseNetlinkAuditMessage")
	// serialize is needed by the framing rules (C18.R1/R2) only; its absence must not stop the others
	if f, err := w.Func("libaudit", "serialize"); err == nil {
		x.serialize = f
	} else {
		x.serializeErr = err
	}
	x.nlSend, x.nlRecv, x.nlClose = m("NetlinkClient", "Send"), m("NetlinkClient", "Receive"), m("NetlinkClient", "Close")
	x.newNetlink = fn("NewNetlinkClient")
	x.toWire, x.fromWire = m("AuditStatus", "toWireFormat"), m("AuditStatus", "FromWireFormat")
	x.fPending, x.fClearPID = fv("AuditClient", "pendingAcks"), fv("AuditClient", "clearPIDOnClose")
	x.fCloseOnce, x.fNetlink = fv("AuditClient", "closeOnce"), fv("AuditClient", "Netlink")
	x.fSeq, x.fPid, x.fReadBuf = fv("NetlinkClient", "seq"), fv("NetlinkClient", "pid"), fv("NetlinkClient", "readBuf")
	if n, err := w.Named("libaudit", "NetlinkSendReceiver"); err != nil {
		r.Anchor(err)
		x.ok = false
	} else {
		x.nsr = n
	}
	// syscall constants, resolved from the syscall package the repository is compiled against
	if sp := w.Pkgs["libaudit"].Imports["syscall"]; sp != nil && sp.Types != nil {
		for _, n := range []string{"NLMSG_ERROR", "NLMSG_DONE", "NLM_F_REQUEST", "NLM_F_ACK", "EINTR", "EAGAIN", "NLMSG_HDRLEN", "SizeofNlMsghdr", "MSG_DONTWAIT"} {
			if c, ok := sp.Types.Scope().Lookup(n).(*types.Const); ok {
				x.sysc[n] = constant.ToInt(c.Val()).ExactString()
			} else {
				r.Anchor(anchorErr{"syscall." + n})
				x.ok = false
			}
		}
	} else {
		r.Anchor(anchorErr{"syscall package"})
		x.ok = false
	}
	if x.ok {
		r.UseFn(fnName(x.getReply), fnName(x.set), fnName(x.waitACKs), fnName(x.closeFn), fnName(x.getStatus),
			fnName(x.getStatusAsync), fnName(x.getRules), fnName(x.deleteRule), fnName(x.deleteRules), fnName(x.addRule), fnName(x.recvAudit),
			fnName(x.parseErr), fnName(x.parseMsg), fnName(x.nlSend), fnName(x.nlRecv), fnName(x.nlClose), fnName(x.newNetlink),
			fnName(x.toWire), fnName(x.fromWire))
	}
	return x
}

// errIsNil: the last (error) result of a return is the nil constant.
func errResult(ret *ssa.Return) (ssa.Value, bool) {
	if ret == nil || len(ret.Results) == 0 {
		return nil, false
	}
	v := ret.Results[len(ret.Results)-1]
	if !isErrorType(ret.Parent().Signature.Results().At(len(ret.Results) - 1).Type()) {
		return nil, false
	}
	return v, true
}

// isClientCode: a function of the root package that belongs to the netlink/audit client — that
// is, not to the reassembler (decided by receiver type and by the reassembler's constructors,
// not by the file a function happens to live in).
func (x *client) isClientCode(fn *ssa.Function) bool {
	root := rootFn(fn)
	if recv := root.Signature.Recv(); recv != nil {
		t := recv.Type()
		if p, ok := t.(*types.Pointer); ok {
			t = p.Elem()
		}
		if n, ok := types.Unalias(t).(*types.Named); ok {
			name := n.Obj().Name()
			if cn, renamed := canonType[n.Obj()]; renamed {
				name = cn
			}
			switch name {
			case "Reassembler", "eventList", "event", "sequenceNum", "sequenceNumSlice":
				return false
			}
		}
		return true
	}
	if fo, ok := root.Object().(*types.Func); ok {
		switch funcObjName(fo) {
		case "NewReassembler", "newEventList", "abs":
			return false
		}
	}
	return root.Synthetic == ""
}

// fileOf returns the base name of the file a function is declared in.
func (w *World) fileOf(fn *ssa.Function) string {
	return filepath.Base(w.Fset.Position(rootFn(fn).Pos()).Filename)
}

// ----------------------------------------------------------------------------------------------
// C08

func init() {
	props["C08"] = propC08
	propMeta["C08"] = PropMeta{
		Explanation: "Per-path verdict handling of every client command, found by census (every function that calls getReply): on every path from an acknowledgement read to a success return the reply's type is tested against NLMSG_ERROR and ParseNetlinkError of the same reply is tested against nil, and every failing edge returns a non-nil error without further reads; getReply returns a message only on the Seq == seq edge, re-enters its loop only for sequence-0 events while waiting for a non-zero sequence, retries at most a constant (>= 10) number of times and only on EINTR/EAGAIN; no error result is dropped in audit.go/netlink.go; data replies are returned only under the matching message type; AUDIT_SET is sent only by set().",
		NotDecided:  "Behaviour against actual sequences of kernel replies and fault sequences (no simulated kernel is run); only per-path verdict handling is structural.",
		Assumptions: []string{"go/ssa models the source faithfully", "syscall constants as compiled for the analysed GOARCH"},
	}
}

func propC08(r *Run, w *World) {
	x := loadClient(r, w)
	if !x.ok {
		return
	}
	x.ackVerified("C08.R1", nil)
	x.getReplyRules()
	x.noErrorDropped()
	x.errnoIdentity()
	x.failFastInLoops()
	x.dataReplies()
	x.setFunnel("C08.R6")
	// what GetStatus hands back is what FromWireFormat makes of reply.Data, a window into the
	// reused receive buffer: bytes beyond the reply must not be read (shared with C16.R5)
	statusDecode(r, w, x, "C08.R9")
	x.seqNeverZero("C08.R10")
}

// seqNeverZero: getReply tells an unsolicited event from a reply by sequence number 0, so a
// request must never carry 0 (necessary for C08.R2 to mean what it says; the full treatment of
// the sequence is C18.R2).
func (x *client) seqNeverZero(ruleID string) {
	r := x.r
	r.Rule(ruleID, "own requests never carry sequence 0 (which getReply takes for an unsolicited event): Send stamps Header.Seq with the result of its single atomic.AddUint32(&c.seq, 1) - the incremented value, so the first is 1 - and nothing else writes c.seq", 2)
	fn := x.nlSend
	adds := callsNamedIn(fn, "sync/atomic.AddUint32")
	okA := len(adds) == 1 && Term(adds[0].Common().Args[0]) == "&p0.seq" && isConstInt(adds[0].Common().Args[1], 1)
	r.Check(okA, "Send increments before use", fn.Pos(), "atomic.AddUint32(&c.seq, 1)", "Send does not take its sequence from one atomic.AddUint32(&c.seq, 1): the first request can carry 0, and getReply then cannot tell its reply from an unsolicited event")
	if okA {
		undo := alias(adds[0].Value(), "seq")
		n := 0
		for _, st := range storesOf(fn) {
			if strings.HasSuffix(AddrTerm(st.Addr), ".Header.Seq") {
				n++
				r.Check(Term(st.Val) == "seq", "Header.Seq is the incremented value", st.Pos(), "", "Header.Seq is "+Term(st.Val)+", not the result of the increment")
			}
		}
		r.Check(n == 1, "Header.Seq stamped once", fn.Pos(), "", fmt.Sprintf("%d stores to Header.Seq in Send", n))
		undo()
	}
	for _, a := range Writes(x.w.FieldAccesses(x.fSeq)) {
		okW := a.Kind == "atomic" || strings.Contains(a.Kind, "atomic") || (a.Fn == fn && a.Kind == "addrarg")
		if !okW {
			// the atomic add takes the address: accept only that
			if ci, isCall := a.Instr.(ssa.CallInstruction); isCall && strings.HasPrefix(calleeName(ci), "sync/atomic.") {
				okW = true
			}
		}
		r.Check(okW, "seq "+a.Kind+" in "+fnName(a.Fn), a.Instr.Pos(), "", "c.seq is written other than by the atomic increment ("+a.Kind+")")
	}
}

// ackSites finds, per function, the getReply calls that read an acknowledgement.
func (x *client) getReplyCallers() []*ssa.Function {
	seen := map[*ssa.Function]bool{}
	var out []*ssa.Function
	for _, s := range x.w.CallSites(x.getReply) {
		if !seen[s.Caller] {
			seen[s.Caller] = true
			out = append(out, s.Caller)
		}
	}
	sort.Slice(out, func(i, j int) bool { return fnName(out[i]) < fnName(out[j]) })
	return out
}

func (x *client) ackVerified(ruleID string, only *ssa.Function) {
	r := x.r
	if only == nil {
		r.Rule(ruleID, "ACK is verified in every sibling: on every path from an acknowledgement read (getReply) to a success return, the reply type is tested == NLMSG_ERROR and ParseNetlinkError(reply.Data) is tested == nil; every failing edge returns a non-nil error without reading further", 12)
	} else if only == x.getStatus {
		r.Rule(ruleID, "GetStatus judges its acknowledgement before it reads on: the ACK's type and ParseNetlinkError(ack.Data) == nil are established before the next receive (which reuses the buffer ack.Data points into) and before the success return (shared with C08.R1)", 2)
	} else {
		r.Rule(ruleID, "WaitForPendingACKs returns the first failure and stops: every failing edge of an acknowledgement read returns a non-nil error without reading further; success only with every ACK verified", 3)
	}
	nlErr := x.sysc["NLMSG_ERROR"]
	callers := x.getReplyCallers()
	r.Check(len(callers) >= 6, "census of getReply callers", x.getReply.Pos(), fmt.Sprintf("%d functions: %s", len(callers), fnNames(callers)),
		fmt.Sprintf("only %d functions call getReply (%s); 6 were confirmed by reading", len(callers), fnNames(callers)))
	for _, s := range x.w.CallSites(x.getReply) {
		if s.Kind != "static" {
			r.Fail("getReply used as a value in "+fnName(s.Caller), s.Instr.Pos(), "getReply escapes as a function value; its callers cannot be enumerated")
		}
	}
	for _, fn := range callers {
		if only != nil && fn != only {
			continue
		}
		calls := callsIn(fn, x.getReply)
		var undo []func()
		for i, c := range calls {
			undo = append(undo, alias(c.Value(), fmt.Sprintf("reply%d", i)))
		}
		ps, complete := Paths(fn, PathOpts{MaxVisit: 2})
		if !complete {
			r.Undecided(fnName(fn)+" paths", fn.Pos(), "path cap exceeded")
		}
		nOK := 0
		for pi, p := range ps {
			if p.End == "cut" {
				continue
			}
			ret := p.Ret()
			ev, hasErr := errResultP(ret)
			if ev != nil {
				ev = p.Resolve(ev)
			}
			if !hasErr {
				r.Fail(fmt.Sprintf("%s path#%d", fnName(fn), pi), fn.Pos(), "function reading a reply has no error result")
				continue
			}
			success := isNilConst(ev)
			// split into segments by getReply events
			type seg struct {
				call  *ssa.Call
				name  string
				start int
				end   int
			}
			var segs []seg
			for i, e := range p.Events {
				if e.Kind == EvCall {
					if c, ok := e.Instr.(*ssa.Call); ok && c.Call.StaticCallee() == x.getReply {
						if len(segs) > 0 {
							segs[len(segs)-1].end = i
						}
						segs = append(segs, seg{call: c, name: termAlias[c], start: i, end: len(p.Events)})
					}
				}
			}
			for si, sg := range segs {
				isAck := si == 0 || strings.Contains(Term(sg.call.Call.Args[1]), "pendingAcks")
				if !isAck {
					continue
				}
				litOK := sg.name + "#1 == nil"
				litType := sg.name + "#0.Header.Type == " + nlErr
				litErrno := fnName(x.parseErr) + "(" + sg.name + "#0.Data) == nil"
				has := func(l string) bool {
					for _, e := range p.Events[sg.start:sg.end] {
						if e.Kind == EvCond && e.Text == l {
							return true
						}
					}
					return false
				}
				key := fmt.Sprintf("%s %s path#%d", fnName(fn), sg.name, pi)
				last := si == len(segs)-1
				negative := has(NegLit(litOK)) || has(NegLit(litType)) || has(NegLit(litErrno))
				positive := has(litOK) && has(litType) && has(litErrno)
				switch {
				case negative:
					// failing edge: must end here with a non-nil error
					okf := last && !success
					if okf {
						nOK++
						r.OK(key+" fail-edge", sg.call.Pos(), "failing edge returns an error")
					} else {
						r.Fail(key+" fail-edge", sg.call.Pos(), "a failed acknowledgement (getReply error, type != NLMSG_ERROR, or non-zero errno) does not end the call with a non-nil error: "+compactPath(p))
					}
				case positive:
					nOK++
					r.OK(key, sg.call.Pos(), "ACK type and errno verified")
				default:
					missing := []string{}
					for _, l := range []string{litOK, litType, litErrno} {
						if !has(l) {
							missing = append(missing, l)
						}
					}
					if success || !last {
						r.Fail(fnName(fn)+" ack-unverified "+strings.Join(missingKinds(missing, sg.name), "+"), sg.call.Pos(),
							"a path reaches a success return (or the next read) without establishing "+strings.Join(missing, " ∧ ")+": "+compactPath(p))
					} else {
						r.OK(key+" other-error", sg.call.Pos(), "path ends with an error before the verdict was needed")
					}
				}
			}
		}
		for _, u := range undo {
			u()
		}
	}
}

func missingKinds(missing []string, name string) []string {
	var out []string
	for _, m := range missing {
		switch {
		case strings.HasPrefix(m, name+"#1"):
			out = append(out, "err")
		case strings.Contains(m, "Header.Type"):
			out = append(out, "type")
		default:
			out = append(out, "errno")
		}
	}
	return out
}

func compactPath(p *Path) string {
	var s []string
	for _, e := range p.Events {
		if e.Kind == EvCond || e.Kind == EvReturn {
			s = append(s, e.String())
		}
	}
	return strings.Join(s, " ; ")
}

func (x *client) getReplyRules() { x.getReplyRulesAs("C08.R2", "C08.R3") }

func (x *client) getReplyRulesAs(idR2, idR3 string) {
	r := x.r
	fn := x.getReply
	r.Rule(idR2, "own request only: getReply returns a message only on the Header.Seq == seq edge; the receive loop is re-entered without returning only under Header.Seq == 0 && seq != 0", 3)
	var recv *ssa.Call
	for _, c := range callsNamedIn(fn, "invoke:libaudit.NetlinkSendReceiver.Receive") {
		if cc, ok := c.(*ssa.Call); ok {
			recv = cc
		}
	}
	if recv == nil || len(callsNamedIn(fn, "invoke:libaudit.NetlinkSendReceiver.Receive")) != 1 {
		r.Fail("getReply receive site", fn.Pos(), "expected exactly one Netlink.Receive call in getReply")
		return
	}
	defer alias(recv, "recv")()
	// success returns
	nSucc := 0
	var msgLoc string
	for _, ret := range retEdges(fn) {
		ev, _ := errResultE(ret)
		if ev == nil || !isNilConst(ev) {
			// error return: first result must be nil
			r.Check(isNilConst(ret.Results[0]), "getReply error return", ret.Pos(), "error xor message", "getReply returns a message together with an error")
			continue
		}
		nSucc++
		msgLoc = AddrTerm(ret.Results[0])
		lit := msgLoc + ".Header.Seq == p1"
		r.Check(ret.Holds(lit), "getReply success return", ret.Pos(), "dominated by "+lit, "getReply returns a reply without the "+lit+" test: a reply for another request would be accepted")
	}
	r.Check(nSucc == 1, "getReply has one success return", fn.Pos(), "", fmt.Sprintf("%d success returns", nSucc))
	// outer loop re-entry
	loops := NaturalLoops(fn)
	var outer, inner *Loop
	for _, l := range loops {
		if l.Body[recv.Block()] {
			if outer == nil || len(l.Body) > len(outer.Body) {
				outer = l
			}
			if inner == nil || len(l.Body) < len(inner.Body) {
				inner = l
			}
		}
	}
	if outer == nil || inner == nil || outer == inner || len(loops) != 2 {
		r.Fail("getReply loops", fn.Pos(), fmt.Sprintf("expected the receive call inside two nested loops, found %d loops", len(loops)))
		return
	}
	hdrIf, _ := outer.Header.Instrs[len(outer.Header.Instrs)-1].(*ssa.If)
	okRe := false
	detail := "outer loop condition is not a boolean carried round the loop"
	if hdrIf != nil {
		if phi, ok := hdrIf.Cond.(*ssa.Phi); ok && phi.Block() == outer.Header {
			okRe = true
			for i, e := range phi.Edges {
				pred := outer.Header.Preds[i]
				if !outer.Body[pred] {
					continue // entry edge
				}
				implied := expandBoolPhi(e, true)
				implied = append(implied, Lit(e, true))
				want1, want2 := msgLoc+".Header.Seq == 0", "p1 != 0"
				if !(containsStr(implied, want1) && containsStr(implied, want2)) {
					okRe = false
					detail = fmt.Sprintf("the loop is re-entered when %v; want %s ∧ %s", implied, want1, want2)
				}
				// ... and exactly then: no further conjunct may narrow which sequence-0 messages are skipped
				for _, l := range implied {
					if l != want1 && l != want2 && !strings.HasPrefix(l, "φ") {
						okRe = false
						detail = fmt.Sprintf("skipping an unsolicited (sequence 0) message also requires %s: other sequence-0 events arriving between request and reply are taken for the reply", l)
					}
				}
			}
		}
	}
	if !okRe && (hdrIf == nil || func() bool { _, isPhi := hdrIf.Cond.(*ssa.Phi); return !isPhi }()) {
		// the same loop written as `for { ...; if !(Seq == 0 && seq != 0) { break } }`: every way
		// round the loop after the receive establishes both literals, and no way out of the loop
		// (other than a return) does
		want1, want2 := msgLoc+".Header.Seq == 0", "p1 != 0"
		ips, complete := IterationPathsExit(fn, outer)
		nStop := 0
		okPath := complete
		for _, p := range ips {
			if len(p.CallsNamed("invoke:libaudit.NetlinkSendReceiver.Receive")) == 0 {
				continue
			}
			both := p.HasLit(want1) && p.HasLit(want2)
			switch p.End {
			case "stop":
				nStop++
				if !both {
					okPath = false
					detail = "the receive loop is re-entered on a path that does not establish " + want1 + " ∧ " + want2 + ": " + compactPath(p)
				}
			case "exit":
				if both {
					okPath = false
					detail = "a sequence-0 message is not skipped although a reply is awaited (the loop is left with " + want1 + " ∧ " + want2 + "): " + compactPath(p)
				}
			}
		}
		if okPath && nStop > 0 {
			okRe = true
		}
	}
	r.Check(okRe, "getReply re-entry condition", outer.Header.Instrs[0].Pos(), "receiveMore ⇒ Seq == 0 ∧ seq != 0", detail)

	r.Rule(idR3, "bounded transient retry: the receive loop is counted with a constant bound >= 10; it continues only on errors.Is(err, EINTR) / errors.Is(err, EAGAIN); any other error is returned wrapped; running out of attempts returns an error", 4)
	ih, _ := inner.Header.Instrs[len(inner.Header.Instrs)-1].(*ssa.If)
	okCnt := false
	if ih != nil {
		if b, ok := ih.Cond.(*ssa.BinOp); ok && b.Op == token.LSS {
			if n, isC := constInt(b.Y); isC && n >= 10 {
				if phi, ok := b.X.(*ssa.Phi); ok && len(phi.Edges) == 2 {
					var init, inc bool
					for _, e := range phi.Edges {
						if isConstInt(e, 0) {
							init = true
						}
						if bb, ok := e.(*ssa.BinOp); ok && bb.Op == token.ADD && bb.X == ssa.Value(phi) && isConstInt(bb.Y, 1) {
							inc = true
						}
					}
					okCnt = init && inc
				}
			}
		}
	}
	r.Check(okCnt, "retry loop is counted", inner.Header.Instrs[0].Pos(), "for i := 0; i < N (N >= 10); i++", "the receive retry loop is not a counted loop with a constant bound >= 10")
	eintr := "errors.Is(recv#1, " + x.sysc["EINTR"] + ")"
	eagain := "errors.Is(recv#1, " + x.sysc["EAGAIN"] + ")"
	ips, _ := IterationPathsExit(fn, inner)
	for i, p := range ips {
		key := fmt.Sprintf("retry iteration#%d [%s]", i, p.End)
		if len(p.CallsNamed("invoke:libaudit.NetlinkSendReceiver.Receive")) == 0 {
			continue // the i >= N exit
		}
		failed := p.HasLit("recv#1 != nil")
		switch p.End {
		case "stop":
			r.Check(failed && (p.HasLit(eintr) || p.HasLit(eagain)), key, fn.Pos(), "retries on EINTR/EAGAIN only", "the receive is retried on something other than EINTR/EAGAIN: "+compactPath(p))
		case "return":
			if failed && !p.HasLit(eintr) && !p.HasLit(eagain) {
				ev, _ := errResultP(p.Ret())
				okw := ev != nil && !isNilConst(ev) && strings.Contains(Term(ev), "fmt.Errorf") && isNilConst(p.Ret().Results[0])
				r.Check(okw, key+" other error", fn.Pos(), "returned wrapped", "a non-transient receive error is not returned (wrapped): "+compactPath(p))
			}
		}
	}
	// leaving the retry loop without messages is an error
	okEmpty := false
	for _, ret := range retEdges(fn) {
		for _, g := range ret.Lits() {
			if strings.HasPrefix(g, "len(") && strings.HasSuffix(g, ") == 0") {
				ev, _ := errResultE(ret)
				okEmpty = ev != nil && !isNilConst(ev) && isNilConst(ret.Results[0])
			}
		}
	}
	r.Check(okEmpty, "no messages ⇒ error", fn.Pos(), "len(msgs) == 0 returns an error", "falling out of the retry loop without messages does not return an error")
	// the message inspected is msgs[0] of the last receive
	sts := storesTo(fn, msgLoc)
	okMsg := len(sts) == 1
	if okMsg {
		t := Term(sts[0].Val)
		okMsg = strings.HasSuffix(t, "[0]") && strings.Contains(t, "recv#0")
	}
	r.Check(okMsg, "msg = msgs[0]", fn.Pos(), "", "the reply inspected is not the first message of the last receive")
}

// failFastInLoops: C08.R7. Inside a loop of a client command, an iteration in which a call to
// another command of the repository returned an error must end the call with a non-nil error
// (or hand the error to errors.Join): if the loop goes on, a later successful iteration can
// overwrite the recorded error and the kernel's refusal is never reported.
func (x *client) failFastInLoops() {
	r := x.r
	r.Rule("C08.R7", "fail fast in loops: in every loop of a client command, an iteration in which a call to a repository function returned a non-nil error returns a non-nil error from that iteration or joins the error (it does not go round the loop again, where a later success could overwrite it)", 3)
	for _, fn := range x.w.PkgFuncs("libaudit") {
		if !x.isClientCode(fn) || fn.Parent() != nil {
			continue
		}
		for li, l := range NaturalLoops(fn) {
			ps, complete := IterationPaths(fn, l)
			if !complete {
				r.Undecided(fmt.Sprintf("%s loop#%d", fnName(fn), li), fn.Pos(), "path cap exceeded")
				continue
			}
			for pi, p := range ps {
				// errors of repository calls that this path found non-nil
				var failed []ssa.Value
				for _, e := range p.Events {
					if e.Kind != EvCond || e.Val == nil {
						continue
					}
					v := e.Val
					pol := e.ValPol
					for {
						if u, ok := v.(*ssa.UnOp); ok && u.Op == token.NOT {
							v, pol = u.X, !pol
							continue
						}
						break
					}
					bo, ok := v.(*ssa.BinOp)
					if !ok || !isNilConst(bo.Y) || !isErrorType(bo.X.Type()) {
						continue
					}
					if (bo.Op == token.NEQ) != pol {
						continue // the error was nil
					}
					src := p.Resolve(bo.X)
					var call *ssa.Call
					switch y := src.(type) {
					case *ssa.Call:
						call = y
					case *ssa.Extract:
						call, _ = y.Tuple.(*ssa.Call)
					}
					if call == nil || call.Call.IsInvoke() || !isRepoFunc(calleeOf(&call.Call)) || p.order(call) < 0 {
						continue
					}
					failed = append(failed, src)
				}
				if len(failed) == 0 {
					continue
				}
				key := fmt.Sprintf("%s loop#%d iteration#%d [%s]", fnName(fn), li, pi, p.End)
				joined := false
				for _, c := range p.CallsNamed("errors.Join") {
					for _, a := range varargElems(c.Instr.(*ssa.Call), 0) {
						for _, fv := range failed {
							if a != nil && stripConv(a) == fv {
								joined = true
							}
						}
					}
				}
				okRet := false
				if p.End == "return" {
					if ret := p.Ret(); ret != nil {
						if ev, has := errResultP(ret); has && ev != nil && !isNilConst(ev) {
							okRet = true
						}
					}
				}
				r.Check(okRet || joined, key, failed[0].Pos(), "the failed call ends the command with an error", "a call that failed inside the loop does not end the command: the loop continues and a later successful iteration can overwrite the error: "+compactPath(p))
			}
		}
	}
}

// errnoIdentity: kernel verdicts are compared with errno values, not with portable sentinels.
func (x *client) errnoIdentity() {
	r := x.r
	r.Rule("C08.R8", "the kernel's errno is identified exactly: every errors.Is in the client compares with a syscall.Errno constant or a sentinel of this package; a portable sentinel of os / io/fs matches several errnos (ErrExist also ENOTEMPTY, ErrNotExist also …, ErrPermission both EACCES and EPERM) and would report one verdict as another", 3)
	for _, fn := range x.w.PkgFuncs("libaudit") {
		if !x.isClientCode(fn) {
			continue
		}
		var scan func(f *ssa.Function)
		scan = func(f *ssa.Function) {
			for _, c := range callsNamedIn(f, "errors.Is") {
				if len(c.Common().Args) != 2 {
					continue
				}
				tgt := stripConv(c.Common().Args[1])
				key := "errors.Is target in " + fnName(f) + ": " + Term(tgt)
				if typeStr(tgt.Type()) == "syscall.Errno" {
					// an errno value, constant or taken from a list of errnos
					r.OK(key, c.Pos(), "errno value")
					continue
				}
				switch v := tgt.(type) {
				case *ssa.Const:
					r.Check(typeStr(v.Type()) == "syscall.Errno", key, c.Pos(), "errno constant", "errors.Is compares with a constant that is not a syscall.Errno")
				case *ssa.UnOp:
					g, isG := v.X.(*ssa.Global)
					if v.Op == token.MUL && isG && g.Pkg != nil {
						pp := g.Pkg.Pkg.Path()
						r.Check(strings.HasPrefix(pp, modulePath), key, c.Pos(), "sentinel of this module", "errors.Is compares a kernel verdict with "+Term(tgt)+": a portable sentinel matches more than one errno, so a different verdict is reported as this one and errors.Is on the returned error no longer identifies what the kernel said")
					} else {
						r.Undecided(key, c.Pos(), "target of errors.Is is neither an errno constant nor a package-level sentinel")
					}
				default:
					r.Undecided(key, c.Pos(), "target of errors.Is is neither an errno constant nor a package-level sentinel")
				}
			}
			for _, af := range f.AnonFuncs {
				scan(af)
			}
		}
		scan(fn)
	}
}

func (x *client) noErrorDropped() {
	r := x.r
	r.Rule("C08.R4", "no error dropped on the command paths: every call in audit.go/netlink.go that yields an error has that result used (tested, returned or wrapped); explicit exemptions only", 30)
	exempt := map[string]string{
		"libaudit.NewNetlinkClient syscall.Close": "best-effort close of a socket that is being abandoned on a constructor failure path (the original error is returned)",
	}
	for _, fn := range x.w.PkgFuncs("libaudit") {
		if !x.isClientCode(fn) {
			continue
		}
		instrsOf(fn, func(in ssa.Instruction) {
			ci, ok := in.(ssa.CallInstruction)
			if !ok {
				return
			}
			sig := ci.Common().Signature()
			res := sig.Results()
			idx := -1
			for i := 0; i < res.Len(); i++ {
				if isErrorType(res.At(i).Type()) {
					idx = i
				}
			}
			if idx < 0 {
				return
			}
			key := fnName(fn) + " " + calleeName(in)
			if _, isDefer := in.(*ssa.Defer); isDefer {
				r.Fail(key+" (deferred)", in.Pos(), "error of a deferred call is dropped")
				return
			}
			v := ci.Value()
			used := false
			if v != nil && v.Referrers() != nil {
				for _, ref := range *v.Referrers() {
					if _, isDbg := ref.(*ssa.DebugRef); isDbg {
						continue
					}
					if res.Len() == 1 {
						used = true
					} else if ex, ok := ref.(*ssa.Extract); ok && ex.Index == idx && ex.Referrers() != nil && len(*ex.Referrers()) > 0 {
						used = true
					}
				}
			}
			if used {
				r.OK(key, in.Pos(), "error result is used")
				return
			}
			if why, ok := exempt[key]; ok {
				r.OK(key+" (exempt)", in.Pos(), why)
				return
			}
			r.Fail(key+" dropped", in.Pos(), "the error result of "+calleeName(in)+" is discarded")
		})
	}
}

func (x *client) dataReplies() {
	r := x.r
	r.Rule("C08.R5", "data replies: GetStatus decodes reply.Data only under reply.Header.Type == AuditGet; GetRules leaves its loop with success only on NLMSG_DONE and appends only under Type == AUDIT_LIST_RULES; ParseNetlinkError negates the first 4 bytes and returns nil only for 0", 6)
	auditGet, _, _ := x.w.constUint("libaudit", "AuditGet")
	listRules, _, _ := x.w.constUint("auparse", "AUDIT_LIST_RULES")
	// GetStatus
	{
		fn := x.getStatus
		calls := callsIn(fn, x.getReply)
		if len(calls) == 2 {
			defer alias(calls[1].Value(), "reply")()
			fw := callsIn(fn, x.fromWire)
			okc := len(fw) == 1
			if okc {
				c := fw[0]
				okc = HoldsAt(c.Block(), fmt.Sprintf("reply#0.Header.Type == %d", auditGet)) && HoldsAt(c.Block(), "reply#1 == nil") &&
					Term(c.Common().Args[1]) == "reply#0.Data"
			}
			r.Check(okc, "GetStatus decodes the AUDIT_GET reply", fn.Pos(), "FromWireFormat(reply.Data) under Type == AuditGet", "GetStatus decodes a reply that was not checked to be the AUDIT_GET reply of this request")
			for _, ret := range retEdges(fn) {
				ev, _ := errResultE(ret)
				if isNilConst(ev) {
					ok := len(fw) == 1 && ret.Results[0] == fw[0].Common().Args[0] && ret.Holds(Term(fw[0].Value())+" == nil")
					r.Check(ok, "GetStatus success return", ret.Pos(), "returns the decoded status under err == nil", "GetStatus returns success without a successfully decoded status")
				} else {
					r.Check(isNilConst(ret.Results[0]), "GetStatus error return", ret.Pos(), "", "GetStatus returns a status together with an error")
				}
			}
			// both reads use the sequence of this request
			for i, c := range calls {
				r.Check(Term(c.Common().Args[1]) == fnName(x.getStatusAsync)+"(p0, true)#0", fmt.Sprintf("GetStatus read#%d sequence", i), c.Pos(), "", "GetStatus waits for a sequence other than the one its request was sent with")
			}
		} else {
			r.Fail("GetStatus reads", fn.Pos(), fmt.Sprintf("expected 2 getReply calls (ACK, reply), found %d", len(calls)))
		}
	}
	// GetRules
	{
		fn := x.getRules
		calls := callsIn(fn, x.getReply)
		if len(calls) == 2 {
			undo := alias(calls[1].Value(), "reply")
			done := fmt.Sprintf("reply#0.Header.Type == %s", x.sysc["NLMSG_DONE"])
			isRule := fmt.Sprintf("reply#0.Header.Type == %d", listRules)
			for _, ret := range retEdges(fn) {
				ev, _ := errResultE(ret)
				if isNilConst(ev) {
					r.Check(ret.Holds(done) && ret.Holds("reply#1 == nil"), "GetRules success return", ret.Pos(), "only on NLMSG_DONE", "GetRules returns success before NLMSG_DONE")
				} else {
					r.Check(isNilConst(ret.Results[0]), "GetRules error return", ret.Pos(), "", "GetRules returns rules together with an error")
				}
			}
			n := 0
			instrsOf(fn, func(in ssa.Instruction) {
				c, ok := in.(*ssa.Call)
				if !ok {
					return
				}
				if _, isApp := isAppendCall(c); !isApp || !types.Identical(c.Type(), fn.Signature.Results().At(0).Type()) {
					return
				}
				n++
				r.Check(HoldsAt(c.Block(), isRule) && HoldsAt(c.Block(), NegLit(done)) && HoldsAt(c.Block(), "reply#1 == nil"), "GetRules append", c.Pos(), "only under Type == AUDIT_LIST_RULES", "GetRules keeps a message that is not an AUDIT_LIST_RULES reply")
			})
			r.Check(n == 1, "GetRules appends at one site", fn.Pos(), "", fmt.Sprintf("%d append sites", n))
			undo()
		} else {
			r.Fail("GetRules reads", fn.Pos(), fmt.Sprintf("expected 2 getReply calls (ACK, loop), found %d", len(calls)))
		}
	}
	// ParseNetlinkError
	{
		fn := x.parseErr
		errnoT := "-*int32(unsafe.Pointer(&p0[0]))"
		ps, _ := Paths(fn, PathOpts{})
		for i, p := range ps {
			ret := p.Ret()
			key := fmt.Sprintf("ParseNetlinkError path#%d [%s]", i, strings.Join(p.Lits(), " ∧ "))
			switch {
			case p.HasLit("len(p0) >= 4") && p.HasLit(errnoT+" == 0"):
				r.Check(isNilConst(ret.Results[0]), key, ret.Pos(), "errno 0 → nil", "errno 0 does not give nil")
			case p.HasLit("len(p0) >= 4") && p.HasLit(errnoT+" != 0"):
				r.Check(Term(ret.Results[0]) == "syscall.Errno("+errnoT+")", key, ret.Pos(), "non-zero → syscall.Errno(-code)", "non-zero errno is not returned as syscall.Errno(-code): "+Term(ret.Results[0]))
			case p.HasLit("len(p0) < 4"):
				r.Check(!isNilConst(ret.Results[0]), key, ret.Pos(), "short payload → error", "short payload accepted")
			default:
				r.Fail(key, fn.Pos(), "unrecognised path in ParseNetlinkError: "+describePath(p))
			}
		}
	}
}

// setFunnel: AUDIT_SET is sent only by set(); every Set* goes through it with the caller's mode.
func (x *client) setFunnel(ruleID string) {
	r := x.r
	r.Rule(ruleID, "every Set* command funnels through set(): no other sender of AUDIT_SET; each exported Set* passes its own WaitMode", 8)
	auditSet, _, _ := x.w.constUint("libaudit", "AuditSet")
	for _, fn := range x.w.PkgFuncs("libaudit") {
		instrsOf(fn, func(in ssa.Instruction) {
			st, ok := in.(*ssa.Store)
			if !ok {
				return
			}
			if strings.HasSuffix(AddrTerm(st.Addr), ".Header.Type") {
				if v, isC := constInt(st.Val); isC && uint64(v) == auditSet {
					r.Check(fn == x.set, "AUDIT_SET message built in "+fnName(fn), st.Pos(), "", "an AUDIT_SET message is built outside set()")
				}
			}
		})
	}
	for _, s := range x.w.CallSites(x.set) {
		if s.Kind != "static" {
			r.Fail("set used as value in "+fnName(s.Caller), s.Instr.Pos(), "")
			continue
		}
		args := s.Instr.(ssa.CallInstruction).Common().Args
		if s.Caller.Parent() != nil { // Close's closure
			r.Check(isConstInt(args[2], 2), "set from "+fnName(s.Caller), s.Instr.Pos(), "Close clears the PID with NoWait", "Close's PID clear does not use NoWait")
			continue
		}
		// the mode passed is the caller's last parameter
		last := s.Caller.Params[len(s.Caller.Params)-1]
		r.Check(args[2] == ssa.Value(last) && isParamValue(args[0], s.Caller.Params[0]), "set from "+fnName(s.Caller), s.Instr.Pos(), "passes its own WaitMode", fnName(s.Caller)+" does not pass its WaitMode parameter to set()")
		// and returns set's result unchanged
		for _, ret := range retEdges(s.Caller) {
			r.Check(ret.Results[0] == s.Instr.(ssa.CallInstruction).Value(), "result of set returned by "+fnName(s.Caller), ret.Pos(), "", fnName(s.Caller)+" does not return set()'s verdict")
		}
	}
}

// ----------------------------------------------------------------------------------------------
// C17

func init() {
	props["C17"] = propC17
	propMeta["C17"] = PropMeta{
		Explanation: "Once-and-only-once bookkeeping decided structurally: a consumed acknowledgement is removed from pendingAcks on every path from the success edge of its getReply to the next read or exit; pending sequences are recorded only by an append in storePendingAck, called once, only from set() on the NoWait edge with the sequence of that Send and without reading; the socket Close is invoked at exactly one site inside the function handed to closeOnce.Do, on every path of it, after the PID clear that is guarded by exactly clearPIDOnClose (written only by SetPID); rule data returned by GetRules is a fresh copy of reply.Data; WaitForPendingACKs stops at the first failure (C08.R1 shape).",
		NotDecided:  "Results against every sequence of kernel replies and faults, and concurrent Close beyond sync.Once's guarantee (trusted).",
		Assumptions: []string{"sync.Once semantics", "go/ssa models the source faithfully"},
	}
}

func propC17(r *Run, w *World) {
	x := loadClient(r, w)
	if !x.ok {
		return
	}
	// "consumed exactly once" needs getReply to hand over the acknowledgement whenever it has
	// taken it off the socket, and only that one (shared with C08.R2 / C08.R3)
	x.getReplyRulesAs("C17.R6", "C17.R7")
	// R1
	r.Rule("C17.R1", "consumed means removed: on every path from the success edge of a getReply on a pending sequence to the next such read or to any exit, pendingAcks is stored with a value that no longer contains that element", 1)
	{
		fn := x.waitACKs
		calls := callsIn(fn, x.getReply)
		if len(calls) != 1 {
			r.Fail("WaitForPendingACKs reads", fn.Pos(), fmt.Sprintf("expected one getReply site, found %d", len(calls)))
		} else {
			g := calls[0].(*ssa.Call)
			undo := alias(g, "ack")
			loops := NaturalLoops(fn)
			var loop *Loop
			for _, l := range loops {
				if l.Body[g.Block()] {
					loop = l
				}
			}
			if loop == nil {
				r.Fail("WaitForPendingACKs loop", fn.Pos(), "the read is not in a loop")
			} else {
				ps, _ := IterationPaths(fn, loop)
				bad := ""
				n := 0
				for _, p := range ps {
					if !p.HasLit("ack#1 == nil") {
						continue
					}
					n++
					removed := false
					for _, e := range p.Events {
						st, ok := e.Instr.(*ssa.Store)
						if !ok || e.Kind != EvStore {
							continue
						}
						fa, isFA := st.Addr.(*ssa.FieldAddr)
						if !isFA || fieldOfAddr(fa) != x.fPending || p.order(st) < p.order(g) {
							continue
						}
						// accepted removals: reslice past the head when the head was read, or nil
						arg := Term(g.Call.Args[1])
						val := Term(st.Val)
						if (arg == "p0.pendingAcks[0]" && val == "p0.pendingAcks[1:]") || isNilConst(st.Val) {
							removed = true
						}
					}
					if !removed && bad == "" {
						bad = compactPath(p)
					}
				}
				r.Check(bad == "" && n > 0, fnName(fn)+" consumed-not-removed", g.Pos(), "every consumed ACK is removed from pendingAcks",
					"an acknowledgement that was read successfully stays in pendingAcks, so a later WaitForPendingACKs waits for it again: "+bad)
			}
			undo()
		}
	}
	// R2
	r.Rule("C17.R2", "recorded once, in order: pendingAcks is written only by WaitForPendingACKs (removal, R1) and by one append of a single element in set() or in a helper extracted from set(); on the mode == NoWait edge of set() exactly one such append runs, with the sequence returned by that Send, and that edge reads nothing; every other edge records nothing", 5)
	{
		// argAt: a helper's parameter seen from its single call site
		var argAt func(v ssa.Value, depth int) ssa.Value
		argAt = func(v ssa.Value, depth int) ssa.Value {
			par, ok := v.(*ssa.Parameter)
			if !ok || depth > 3 || par.Parent() == x.set {
				return v
			}
			sites := w.CallSitesRaw(par.Parent())
			if len(sites) != 1 {
				return v
			}
			ci, isCall := sites[0].Instr.(ssa.CallInstruction)
			if !isCall {
				return v
			}
			for i, q := range par.Parent().Params {
				if q == par && i < len(ci.Common().Args) {
					return argAt(ci.Common().Args[i], depth+1)
				}
			}
			return v
		}
		recorded := map[*ssa.Store]ssa.Value{} // recording store → the element it appends, seen from set()
		for _, a := range w.FieldAccesses(x.fPending) {
			key := "pendingAcks " + a.Kind + " in " + fnName(a.Fn)
			switch a.Kind {
			case "load":
			case "store":
				switch {
				case a.Fn == x.waitACKs:
					r.OK(key, a.Instr.Pos(), "removal of consumed entries (R1)")
				case x.w.ownedBy(a.Fn, x.set):
					c, isApp := isAppendCall(a.Val)
					ok := false
					if isApp {
						base, elems, _, _ := appendParts(c)
						f, recv := loadedField(base)
						ok = f == x.fPending && argAt(recv, 0) == ssa.Value(x.set.Params[0]) && len(elems) == 1
						if ok {
							recorded[a.Instr.(*ssa.Store)] = argAt(elems[0], 0)
						}
					}
					r.Check(ok, key, a.Instr.Pos(), "pendingAcks = append(pendingAcks, <one sequence>)", "the recording store is not an append of exactly one element to the client's own pendingAcks")
				default:
					r.Fail(key, a.Instr.Pos(), "pendingAcks is written outside set() (and its helpers) / WaitForPendingACKs")
				}
			case "valarg":
				n := calleeName(a.Instr)
				r.Check(n == "len" || n == "append" && x.w.ownedBy(a.Fn, x.set), key+" "+n, a.Instr.Pos(), "", "pendingAcks handed to "+n)
			case "reslice":
				r.Check(x.w.ownedBy(a.Fn, x.waitACKs), key, a.Instr.Pos(), "", "pendingAcks resliced outside WaitForPendingACKs")
			default:
				r.Fail(key, a.Instr.Pos(), "pendingAcks is "+a.Kind+" here")
			}
		}
		r.Check(len(recorded) == 1, "recording stores", x.set.Pos(), "one append records pending sequences", fmt.Sprintf("%d recording appends to pendingAcks", len(recorded)))
		var send ssa.Value
		for _, c := range callsNamedIn(x.set, "invoke:libaudit.NetlinkSendReceiver.Send") {
			send = c.Value()
		}
		if send != nil {
			undo := alias(send, "send")
			ps, _ := Paths(x.set, PathOpts{Splice: true})
			for i, p := range ps {
				// recording stores on this path (also those inside a helper spliced into the path)
				var st []ssa.Value
				for _, e := range p.Events {
					if sto, ok := e.Instr.(*ssa.Store); ok && e.Kind == EvStore {
						if el, isRec := recorded[sto]; isRec {
							st = append(st, el)
						} else if fa, isFA := sto.Addr.(*ssa.FieldAddr); isFA && fieldOfAddr(fa) == x.fPending {
							st = append(st, nil)
						}
					}
				}
				reads := p.Calls(x.getReply)
				key := fmt.Sprintf("set path#%d [%s]", i, strings.Join(p.Lits(), " ∧ "))
				if p.HasLit("send#1 != nil") {
					r.Check(len(st) == 0 && len(reads) == 0, key, x.set.Pos(), "send failed: nothing recorded", "a failed send records or reads an ACK")
					continue
				}
				if p.HasLit("p2 == 2") {
					ok := len(st) == 1 && len(reads) == 0 && st[0] != nil && Term(st[0]) == "send#0"
					ev, _ := errResultP(p.Ret())
					r.Check(ok && isNilConst(ev), key, x.set.Pos(), "NoWait: sequence recorded once, nothing read", "the NoWait edge does not record exactly this request's sequence, or reads: "+compactPath(p))
				} else if p.HasLit("p2 != 2") {
					ok := len(st) == 0 && len(reads) == 1 && Term(reads[0].Instr.(ssa.CallInstruction).Common().Args[1]) == "send#0"
					r.Check(ok, key, x.set.Pos(), "WaitForReply: read once, nothing recorded", "the waiting edge records a pending ACK or does not read this request's reply: "+compactPath(p))
				} else {
					r.Fail(key, x.set.Pos(), "path not decided by mode == NoWait: "+compactPath(p))
				}
			}
			undo()
		} else {
			r.Fail("set sends", x.set.Pos(), "no Send in set()")
		}
		if c, ok := r.constOf("libaudit", "NoWait"); ok {
			r.Check(constVal(c) == "2", "NoWait constant", c.Pos(), "", "NoWait is "+constVal(c)+"; the literal used by this rule assumes 2")
		}
	}
	// R3
	r.Rule("C17.R3", "Close once: Netlink.Close is invoked at exactly one site, inside the function passed to closeOnce.Do, on every path of it; the PID clear precedes it, is guarded by exactly clearPIDOnClose, uses NoWait with Mask = AuditStatusPID and PID = 0; clearPIDOnClose is written only by SetPID (true)", 7)
	{
		sites := w.Invokes(x.nsr, "Close")
		var anon *ssa.Function
		if len(x.closeFn.AnonFuncs) == 1 {
			anon = x.closeFn.AnonFuncs[0]
		}
		r.Check(len(sites) == 1 && anon != nil && sites[0].Caller == anon, "Netlink.Close sites", x.closeFn.Pos(), "one site, in Close's once-function", fmt.Sprintf("%d invoke sites of Netlink.Close / not inside the closeOnce function", len(sites)))
		// Close calls Do(&c.closeOnce, closure) once and nothing else that closes
		dos := callsNamedIn(x.closeFn, "(*sync.Once).Do")
		okDo := len(dos) == 1 && anon != nil
		if okDo {
			args := dos[0].Common().Args
			fa, isFA := args[0].(*ssa.FieldAddr)
			mc, isMC := args[1].(*ssa.MakeClosure)
			okDo = isFA && fieldOfAddr(fa) == x.fCloseOnce && isMC && mc.Fn == ssa.Value(anon)
		}
		r.Check(okDo, "Close → closeOnce.Do(func)", x.closeFn.Pos(), "", "Close does not run its body through closeOnce.Do")
		for _, a := range w.FieldAccesses(x.fCloseOnce) {
			ok := x.w.ownedBy(a.Fn, x.closeFn) && a.Kind == "escape"
			if ci, isCall := a.Instr.(ssa.CallInstruction); ok && isCall {
				ok = calleeName(ci) == "(*sync.Once).Do"
			}
			r.Check(ok, "closeOnce "+a.Kind+" in "+fnName(a.Fn), a.Instr.Pos(), "", "closeOnce is used outside Close's Do (reset or copied?)")
		}
		if anon != nil {
			pidMask, _, _ := w.constUint("libaudit", "AuditStatusPID")
			ps, _ := Paths(anon, PathOpts{})
			for i, p := range ps {
				closes := p.CallsNamed("invoke:libaudit.NetlinkSendReceiver.Close")
				sets := p.Calls(x.set)
				key := fmt.Sprintf("Close$1 path#%d [%s]", i, strings.Join(p.Lits(), " ∧ "))
				ok := len(closes) == 1
				detail := "the socket is not closed exactly once on this path"
				guard := ""
				for _, l := range p.Lits() {
					if strings.HasSuffix(l, ".clearPIDOnClose") {
						guard = l
					}
				}
				if ok {
					if guard != "" && !strings.HasPrefix(guard, "!") {
						ok = len(sets) == 1 && p.order(sets[0].Instr) < p.order(closes[0].Instr)
						detail = "the PID is not cleared before the socket is closed"
						if ok {
							sc := sets[0].Instr.(ssa.CallInstruction).Common()
							stAddr := ""
							if ld, isLd := sc.Args[1].(*ssa.UnOp); isLd {
								stAddr = AddrTerm(ld.X)
							}
							var mask, pid string
							nStores := 0
							for _, e := range p.Events {
								if st, isSt := e.Instr.(*ssa.Store); isSt && e.Kind == EvStore && strings.HasPrefix(AddrTerm(st.Addr), stAddr+".") {
									nStores++
									switch strings.TrimPrefix(AddrTerm(st.Addr), stAddr+".") {
									case "Mask":
										mask = Term(st.Val)
									case "PID":
										pid = Term(st.Val)
									}
								}
							}
							// the status is a fresh literal: PID is 0 whether it is written out or left at
							// its zero value; no other field may be set
							okPid := (pid == "0" && nStores == 2) || (pid == "" && nStores == 1)
							ok = isConstInt(sc.Args[2], 2) && mask == fmt.Sprint(pidMask) && okPid
							detail = fmt.Sprintf("the PID clear is not set(AuditStatus{Mask: AuditStatusPID, PID: 0}, NoWait): mask=%s pid=%s stores=%d mode=%s", mask, pid, nStores, Term(sc.Args[2]))
						}
					} else if guard != "" {
						ok = len(sets) == 0
						detail = "the PID is cleared although SetPID was not used"
					} else {
						ok = false
						detail = "path not decided by clearPIDOnClose"
					}
				}
				// no other conditions
				for _, l := range p.Lits() {
					if l != guard {
						ok = false
						detail = "closing depends on " + l
					}
				}
				r.Check(ok, key, anon.Pos(), "PID cleared iff clearPIDOnClose, then socket closed once", detail+": "+compactPath(p))
			}
		}
		for _, a := range Writes(w.FieldAccesses(x.fClearPID)) {
			r.Check(x.w.ownedBy(a.Fn, x.setPID) && a.Kind == "store" && isConstTrue(a.Val), "clearPIDOnClose written in "+fnName(a.Fn), a.Instr.Pos(), "SetPID stores true", "clearPIDOnClose is written outside SetPID or not to true")
		}
		// SetPID sets the flag on every path
		ps, _ := Paths(x.setPID, PathOpts{})
		for i, p := range ps {
			n := 0
			for _, e := range p.Events {
				if st, ok := e.Instr.(*ssa.Store); ok && e.Kind == EvStore {
					if fa, ok := st.Addr.(*ssa.FieldAddr); ok && fieldOfAddr(fa) == x.fClearPID {
						n++
					}
				}
			}
			r.Check(n == 1, fmt.Sprintf("SetPID path#%d sets clearPIDOnClose", i), x.setPID.Pos(), "", "SetPID does not arm the PID clear on every path")
		}
	}
	// R4
	r.Rule("C17.R4", "returned rule data is owned: every element GetRules appends is a fresh make([]byte, len(reply.Data)) into which reply.Data was copied", 2)
	{
		fn := x.getRules
		calls := callsIn(fn, x.getReply)
		if len(calls) == 2 {
			undo := alias(calls[1].Value(), "reply")
			n := 0
			instrsOf(fn, func(in ssa.Instruction) {
				c, ok := in.(*ssa.Call)
				if !ok {
					return
				}
				if _, isApp := isAppendCall(c); !isApp || !types.Identical(c.Type(), fn.Signature.Results().At(0).Type()) {
					return
				}
				n++
				_, elems, spread, _ := appendParts(c)
				ok = spread == nil && len(elems) == 1
				if ok {
					el := stripConv(elems[0])
					ms, isMS := el.(*ssa.MakeSlice)
					ok = isMS && Term(ms.Len) == "len(reply#0.Data)"
					if !isMS && cloneOf(el, "reply#0.Data") {
						// the other spellings of a copy: append onto a base without capacity, bytes.Clone, slices.Clone
						r.OK("GetRules element is a copy", c.Pos(), "clone idiom: "+Term(el))
						return
					}
					if ok {
						// a copy(el, reply.Data) in the same block before the append
						copied := false
						for _, bi := range c.Block().Instrs {
							if bi == ssa.Instruction(c) {
								break
							}
							if cc, isC := bi.(*ssa.Call); isC && calleeName(cc) == "copy" && cc.Call.Args[0] == el && Term(cc.Call.Args[1]) == "reply#0.Data" {
								copied = true
							}
						}
						ok = copied
					}
				}
				r.Check(ok, "GetRules element is a copy", c.Pos(), "rule := make([]byte, len(reply.Data)); copy(rule, reply.Data)", "GetRules returns data that aliases the receive buffer (a later receive overwrites it): "+Term(c))
			})
			r.Check(n == 1, "GetRules append sites", fn.Pos(), "", fmt.Sprintf("%d", n))
			undo()
		} else {
			r.Fail("GetRules reads", fn.Pos(), "expected 2 getReply calls")
		}
	}
	// R5 is the C08.R1 shape on WaitForPendingACKs
	x.ackVerified("C17.R5", x.waitACKs)
}

// ----------------------------------------------------------------------------------------------
// C18

func init() {
	props["C18"] = propC18
	propMeta["C18"] = PropMeta{
		Explanation: "Framing and trust decided structurally: serialize sets Len = SizeofNlMsghdr + len(Data), allocates exactly Len bytes, writes the header through a view of offset 0 and copies Data to b[SizeofNlMsghdr:]; the sequence stored in the header, the one returned and the result of the single atomic.AddUint32(&c.seq, 1) are one value, c.seq is touched only through sync/atomic, Pid is filled only when 0; in Receive the parser call and the success return are dominated by nr >= NLMSG_HDRLEN and by the sender being a *SockaddrNetlink with Pid == 0 of the same Recvfrom, the buffer handed on is readBuf[:nr], a Recvfrom error returns first; parseNetlinkAuditMessage's header view and payload slice are dominated by len(buf) >= NLMSG_HDRLEN and the constant equals sizeof(NlMsghdr) for each GOARCH; ParseNetlinkError reads 4 bytes only under len >= 4.",
		NotDecided:  "What the kernel sees on the wire, and distinctness of concurrent sequence numbers beyond 'one atomic add per send'.",
		Assumptions: []string{"sync/atomic semantics", "syscall.Recvfrom returns n <= len(p)"},
	}
}

func propC18(r *Run, w *World) {
	x := loadClient(r, w)
	if !x.ok {
		return
	}
	hdr := x.sysc["NLMSG_HDRLEN"]
	szc := x.sysc["SizeofNlMsghdr"]
	// R1 serialize
	r.Rule("C18.R1", "serialize: Header.Len = SizeofNlMsghdr + len(Data); the buffer has that length; the header is written through a view of offset 0; Data is copied to b[SizeofNlMsghdr:]", 5)
	if x.serialize == nil {
		r.Anchor(x.serializeErr)
	} else {
		fn := x.serialize
		r.Check(len(fn.Blocks) == 1, "serialize is straight-line", fn.Pos(), "", "serialize has branches")
		var msgLoc string
		for _, st := range storesOf(fn) {
			if isParamValue(st.Val, fn.Params[0]) {
				msgLoc = AddrTerm(st.Addr)
			}
		}
		// serialize is straight-line, so the content of a local at a program point is given by
		// the stores before it: a store to the location (or to an enclosing one) sets its base,
		// later stores to its parts override fields. The message parameter may or may not be
		// spilled to a local (it is when a field of it is assigned); both spell p0.
		norm := func(t string) string {
			if msgLoc != "" {
				t = strings.ReplaceAll(t, msgLoc, "p0")
			}
			return t
		}
		var content func(loc string, before ssa.Instruction, depth int) (string, map[string]string)
		content = func(loc string, before ssa.Instruction, depth int) (string, map[string]string) {
			base := ""
			over := map[string]string{}
			var baseSt *ssa.Store
			for _, st := range storesOf(fn) {
				if before != nil && orderInBlock(st) >= orderInBlock(before) {
					continue
				}
				a := AddrTerm(st.Addr)
				switch {
				case a == loc:
					base, over, baseSt = Term(st.Val), map[string]string{}, st
				case strings.HasPrefix(loc, a+"."):
					base, over, baseSt = Term(st.Val)+loc[len(a):], map[string]string{}, st
				case strings.HasPrefix(a, loc+"."):
					over[a[len(loc)+1:]] = norm(Term(st.Val))
				}
			}
			// the base may itself be a local whose content is known at the time it was copied
			if base != "" && depth < 4 && strings.HasPrefix(base, "local.") {
				b2, o2 := content(base, baseSt, depth+1)
				if b2 != "" {
					for k, v := range over {
						o2[k] = v
					}
					return b2, o2
				}
			}
			return norm(base), over
		}
		valueAt := func(v ssa.Value, before ssa.Instruction) string {
			// a load of a local field: the value last stored there
			if ld, ok := v.(*ssa.UnOp); ok && ld.Op == token.MUL {
				t := AddrTerm(ld.X)
				if i := strings.LastIndex(t, "."); i > 0 {
					_, over := content(t[:i], before, 0)
					if val, ok := over[t[i+1:]]; ok {
						return val
					}
				}
			}
			return norm(Term(v))
		}
		wantLen := "uint32((len(p0.Data) + " + szc + "))"
		var mk *ssa.MakeSlice
		nMk := 0
		instrsOf(fn, func(in ssa.Instruction) {
			if m, ok := in.(*ssa.MakeSlice); ok {
				mk = m
				nMk++
			}
		})
		okMk := nMk == 1 && valueAt(mk.Len, mk) == wantLen
		r.Check(okMk, "buffer length", fn.Pos(), "make([]byte, SizeofNlMsghdr + len(msg.Data))", "the buffer is not allocated with SizeofNlMsghdr + len(Data) bytes")
		if mk != nil {
			undo := alias(mk, "b")
			hs := storesTo(fn, "*syscall.NlMsghdr(unsafe.Pointer(&b[0]))")
			okH, okLen := false, false
			if len(hs) == 1 {
				// the header value written: a load of a local whose content is msg.Header with Len overridden
				if ld, ok := hs[0].Val.(*ssa.UnOp); ok && ld.Op == token.MUL {
					base, over := content(AddrTerm(ld.X), hs[0], 0)
					okH = base == "p0.Header" && len(over) <= 1
					okLen = over["Len"] == wantLen
				}
			}
			r.Check(okLen, "Header.Len", fn.Pos(), "uint32(SizeofNlMsghdr + len(msg.Data))", "the Len field of the header that is written is not SizeofNlMsghdr + len(Data)")
			r.Check(okH && okLen, "header at offset 0", fn.Pos(), "*(*NlMsghdr)(&b[0]) = msg.Header with Len set", "the header written at offset 0 is not msg.Header with only Len replaced")
			cps := callsNamedIn(fn, "copy")
			okC := len(cps) == 1 && Term(cps[0].Common().Args[0]) == "b["+szc+":]" && norm(Term(cps[0].Common().Args[1])) == "p0.Data"
			r.Check(okC, "payload copy", fn.Pos(), "copy(b[SizeofNlMsghdr:], msg.Data)", "the payload is not copied to b[SizeofNlMsghdr:] from msg.Data")
			rets := returnsOf(fn)
			r.Check(len(rets) == 1 && rets[0].Results[0] == ssa.Value(mk), "returns the buffer", fn.Pos(), "", "serialize does not return the buffer it filled")
			undo()
		}
		if sp := w.Pkgs["libaudit"].Imports["syscall"]; sp != nil {
			if tn, ok := sp.Types.Scope().Lookup("NlMsghdr").(*types.TypeName); ok {
				sz := w.Sizes.Sizeof(tn.Type())
				r.Check(fmt.Sprint(sz) == szc && szc == hdr, "sizeof(NlMsghdr)", fn.Pos(), fmt.Sprintf("%d = SizeofNlMsghdr = NLMSG_HDRLEN", sz), fmt.Sprintf("sizeof(NlMsghdr)=%d SizeofNlMsghdr=%s NLMSG_HDRLEN=%s", sz, szc, hdr))
			}
		}
	}
	// R2 Send
	r.Rule("C18.R2", "sequence: the value stored in Header.Seq, the value returned and the result of the single atomic.AddUint32(&c.seq, 1) are one value; c.seq is touched only through sync/atomic; Pid is filled from c.pid only on the == 0 edge; the serialized message is what is sent", 6)
	{
		fn := x.nlSend
		adds := callsNamedIn(fn, "sync/atomic.AddUint32")
		okA := len(adds) == 1 && Term(adds[0].Common().Args[0]) == "&p0.seq" && isConstInt(adds[0].Common().Args[1], 1)
		r.Check(okA, "one atomic add", fn.Pos(), "atomic.AddUint32(&c.seq, 1)", "Send does not take its sequence from exactly one atomic.AddUint32(&c.seq, 1)")
		var msgLoc string
		for _, st := range storesOf(fn) {
			if isParamValue(st.Val, fn.Params[1]) {
				msgLoc = AddrTerm(st.Addr)
			}
		}
		if okA {
			undo := alias(adds[0].Value(), "seq")
			sts := storesTo(fn, msgLoc+".Header.Seq")
			r.Check(len(sts) == 1 && Term(sts[0].Val) == "seq", "Header.Seq = seq", fn.Pos(), "", "Header.Seq is not the value of the atomic add")
			sends := callsNamedIn(fn, "syscall.Sendto")
			var sers []ssa.CallInstruction
			if x.serialize != nil {
				sers = callsIn(fn, x.serialize)
			}
			okS := len(sends) == 1 && len(sers) == 1 && len(sts) == 1
			if okS {
				okS = sends[0].Common().Args[1] == sers[0].Value() && Term(sers[0].Common().Args[0]) == msgLoc &&
					orderInBlock(sts[0]) < orderInBlock(sers[0].(ssa.Instruction)) && Term(sends[0].Common().Args[0]) == "p0.fd"
			}
			r.Check(okS, "sends serialize(msg)", fn.Pos(), "after Seq is stored", "what is sent is not serialize(msg) taken after the sequence was stored")
			for _, ret := range retEdges(fn) {
				// returned sequence: load of msg.Header.Seq after the store, or seq itself
				t := Term(ret.Results[0])
				r.Check(t == "seq" || t == msgLoc+".Header.Seq", "returns the sequence", ret.Pos(), "", "Send returns "+t+", not the sequence it used")
				r.Check(len(sends) == 1 && ret.Results[1] == sends[0].Value(), "returns Sendto's error", ret.Pos(), "", "Send does not return the error of Sendto")
			}
			undo()
		}
		for _, a := range w.FieldAccesses(x.fSeq) {
			ok := false
			if a.Kind == "escape" {
				if ci, isCall := a.Instr.(ssa.CallInstruction); isCall {
					if f := ci.Common().StaticCallee(); f != nil && f.Pkg != nil && f.Pkg.Pkg.Path() == "sync/atomic" {
						ok = true
					}
				}
			}
			r.Check(ok, "NetlinkClient.seq "+a.Kind+" in "+fnName(a.Fn), a.Instr.Pos(), "through sync/atomic", "NetlinkClient.seq is accessed without sync/atomic ("+a.Kind+")")
		}
		pidSt := storesTo(fn, msgLoc+".Header.Pid")
		okP := len(pidSt) == 1 && Term(pidSt[0].Val) == "p0.pid" && HoldsAt(pidSt[0].Block(), msgLoc+".Header.Pid == 0")
		r.Check(okP, "Pid filled when 0", fn.Pos(), "", "Header.Pid is not filled from c.pid exactly when it is 0")
		// no other header stores
		for _, st := range storesOf(fn) {
			t := AddrTerm(st.Addr)
			if strings.HasPrefix(t, msgLoc+".") && t != msgLoc+".Header.Pid" && t != msgLoc+".Header.Seq" {
				r.Fail("Send modifies "+strings.TrimPrefix(t, msgLoc+"."), st.Pos(), "Send changes a part of the caller's message other than Pid and Seq")
			}
		}
	}
	// R3 Receive
	r.Rule("C18.R3", "trust only the kernel: in Receive the parser call and the success return are dominated by nr >= NLMSG_HDRLEN, by the sender being *SockaddrNetlink with Pid == 0 (of the same Recvfrom) and by err == nil; the buffer handed on is readBuf[:nr]", 5)
	{
		fn := x.nlRecv
		rcs := callsNamedIn(fn, "syscall.Recvfrom")
		if len(rcs) != 1 {
			r.Fail("Recvfrom sites", fn.Pos(), fmt.Sprintf("%d", len(rcs)))
		} else {
			rc := rcs[0]
			undo := alias(rc.Value(), "rf")
			okArgs := Term(rc.Common().Args[0]) == "p0.fd" && Term(rc.Common().Args[1]) == "p0.readBuf"
			r.Check(okArgs, "Recvfrom(c.fd, c.readBuf, flags)", rc.Pos(), "", "Recvfrom does not read from c.fd into c.readBuf")
			need := []string{"rf#2 == nil", "rf#0 >= " + hdr, "is(rf#1, *syscall.SockaddrNetlink)", "rf#1.(*syscall.SockaddrNetlink).Pid == 0"}
			var parser *ssa.Call
			instrsOf(fn, func(in ssa.Instruction) {
				if c, ok := in.(*ssa.Call); ok && isParamValue(c.Call.Value, fn.Params[2]) {
					parser = c
				}
			})
			if parser == nil {
				r.Fail("parser call", fn.Pos(), "the NetlinkParser parameter is never called")
			} else {
				var missing []string
				for _, l := range need {
					if !HoldsAt(parser.Block(), l) {
						missing = append(missing, l)
					}
				}
				r.Check(len(missing) == 0, "parser call guarded", parser.Pos(), strings.Join(need, " ∧ "), "the parser runs on a datagram without: "+strings.Join(missing, ", "))
				r.Check(TermAt(parser.Call.Args[0], parser.Block()) == "p0.readBuf[:rf#0]", "parser input", parser.Pos(), "readBuf[:nr]", "the parser is given "+TermAt(parser.Call.Args[0], parser.Block())+", not readBuf[:nr]")
				defer alias(parser, "parsed")()
			}
			for _, ret := range retEdges(fn) {
				ev, _ := errResultE(ret)
				if isNilConst(ev) {
					var missing []string
					for _, l := range append(need, "parsed#1 == nil") {
						if !ret.Holds(l) {
							missing = append(missing, l)
						}
					}
					r.Check(len(missing) == 0 && Term(ret.Results[0]) == "parsed#0", "success return guarded", ret.Pos(), "", "Receive returns data without: "+strings.Join(missing, ", ")+" (returns "+Term(ret.Results[0])+")")
				} else {
					r.Check(isNilConst(ret.Results[0]), "error return carries no data", ret.Pos(), "", "Receive returns data together with an error")
				}
			}
			undo()
		}
	}
	// R4
	r.Rule("C18.R6", "the receive buffer is never empty: on every path of NewNetlinkClient the buffer stored into the client is a fresh buffer of positive size or the caller's buffer under len(buf) != 0 (a zero-length buffer makes every Receive a 0-byte read that discards the datagram)", 1)
	{
		fn := x.newNetlink
		n := 0
		for _, a := range Writes(w.FieldAccesses(x.fReadBuf)) {
			if a.Kind != "store" {
				r.Fail("readBuf "+a.Kind+" in "+fnName(a.Fn), a.Instr.Pos(), "the client's read buffer is written other than by the constructor's store")
				continue
			}
			if !w.ownedBy(a.Fn, fn) {
				r.Fail("readBuf store in "+fnName(a.Fn), a.Instr.Pos(), "the client's read buffer is replaced outside NewNetlinkClient")
				continue
			}
			n++
			// every value that can reach the store
			leaves, _ := phiLeaves(a.Val)
			phi, isPhi := a.Val.(*ssa.Phi)
			ok := true
			detail := ""
			for _, lf := range leaves {
				switch v := lf.(type) {
				case *ssa.MakeSlice:
					// positive: a constant > 0 or the page size
					if k, isK := constInt(v.Len); isK {
						if k <= 0 {
							ok, detail = false, "a fresh buffer of length "+fmt.Sprint(k)
						}
					} else if !strings.Contains(Term(v.Len), "os.Getpagesize()") {
						ok, detail = false, "a fresh buffer of length "+Term(v.Len)
					}
				case *ssa.Parameter:
					// the caller's buffer: only on an edge where len(buf) != 0 holds
					lit := "len(" + Term(v) + ") != 0"
					held := HoldsAt(a.Instr.Block(), lit)
					if isPhi {
						for i, e := range phi.Edges {
							if e == lf {
								pred := phi.Block().Preds[i]
								held = HoldsAt(pred, lit)
								if ifi, isIf := pred.Instrs[len(pred.Instrs)-1].(*ssa.If); isIf && pred.Succs[0] != pred.Succs[1] {
									if Lit(ifi.Cond, pred.Succs[0] == phi.Block()) == lit {
										held = true
									}
								}
							}
						}
					}
					if !held {
						ok, detail = false, "the caller's buffer without "+lit+" (a non-nil buffer of length 0 is kept)"
					}
				default:
					ok, detail = false, "a value the rule does not know: "+Term(lf)
				}
			}
			if !ok {
				// the same decided along the paths: what matters is the buffer the client holds
				// when the constructor returns it (a default applied after the struct was built)
				ps, complete := Paths(fn, PathOpts{Cap: 4000})
				pathOK := complete && len(ps) > 0
				nSucc := 0
				for _, p := range ps {
					ret := p.Ret()
					if ret == nil || len(ret.Results) != 2 || !isNilConst(ret.Results[1]) {
						continue
					}
					nSucc++
					var last *ssa.Store
					lastIdx := -1
					for ei, e := range p.Events {
						if st, isSt := e.Instr.(*ssa.Store); isSt && e.Kind == EvStore {
							if fa, isFA := st.Addr.(*ssa.FieldAddr); isFA && fieldOfAddr(fa) == x.fReadBuf {
								last, lastIdx = st, ei
							}
						}
					}
					if last == nil {
						pathOK = false
						break
					}
					switch v := p.Resolve(last.Val).(type) {
					case *ssa.MakeSlice:
						if k, isK := constInt(v.Len); isK && k <= 0 {
							pathOK = false
						} else if !isK && !strings.Contains(Term(v.Len), "os.Getpagesize()") {
							pathOK = false
						}
					case *ssa.Parameter:
						held := false
						for ei, e := range p.Events {
							if e.Kind != EvCond {
								continue
							}
							if e.Text == "len("+Term(v)+") != 0" || (ei > lastIdx && strings.HasPrefix(e.Text, "len(") && strings.HasSuffix(e.Text, ".readBuf) != 0")) {
								held = true
							}
						}
						if !held {
							pathOK = false
						}
					default:
						pathOK = false
					}
				}
				if pathOK && nSucc > 0 {
					r.OK("readBuf stored by NewNetlinkClient (by paths)", a.Instr.Pos(), "on every success path the client is returned with a fresh positive-size buffer or the caller's non-empty one")
					continue
				}
			}
			r.Check(ok, "readBuf stored by NewNetlinkClient", a.Instr.Pos(), "fresh positive-size buffer, or the caller's non-empty buffer", "the read buffer stored into the client can be "+detail)
		}
		r.Check(n >= 1, "readBuf is stored by the constructor", fn.Pos(), "", "the constructor never stores a read buffer")
		// the audit client hands NewNetlinkClient a buffer whose *length* holds the largest
		// datagram the kernel sends (header + AuditMessageMaxLength); with a shorter or
		// zero-length one the default page-sized buffer is used or long records are cut
		maxLen, _, errM := w.constUint("libaudit", "AuditMessageMaxLength")
		hdrLen := x.sysc["NLMSG_HDRLEN"]
		if errM != nil {
			r.Anchor(errM)
		} else {
			nc := 0
			for _, cs := range w.CallSites(fn) {
				if !strings.HasPrefix(fnName(cs.Caller), "libaudit.") || cs.Kind != "static" {
					continue
				}
				ci, _ := cs.Instr.(ssa.CallInstruction)
				if ci == nil || len(ci.Common().Args) < 3 {
					continue
				}
				nc++
				key := "read buffer handed to NewNetlinkClient by " + fnName(cs.Caller)
				// make([]byte, n[, c]) with constant sizes is an array allocation sliced [:n]
				var k int64
				isK := false
				lenT := ""
				switch v := ci.Common().Args[2].(type) {
				case *ssa.MakeSlice:
					k, isK = constInt(v.Len)
					lenT = Term(v.Len)
					// the size is a parameter of an unexported constructor: every caller's argument
					if par, isPar := v.Len.(*ssa.Parameter); isPar && !isK && cs.Caller.Object() != nil && !cs.Caller.Object().Exported() {
						idx := -1
						for pi, pp := range cs.Caller.Params {
							if pp == par {
								idx = pi
							}
						}
						sites := w.CallSites(cs.Caller)
						all := idx >= 0 && len(sites) > 0
						min := int64(-1)
						for _, s2 := range sites {
							c2, isC2 := s2.Instr.(ssa.CallInstruction)
							if !isC2 || s2.Kind != "static" || idx >= len(c2.Common().Args) {
								all = false
								break
							}
							kk, okk := constInt(c2.Common().Args[idx])
							if !okk {
								all = false
								break
							}
							if min < 0 || kk < min {
								min = kk
							}
						}
						if all {
							k, isK = min, true
							lenT = fmt.Sprint(min)
						}
					}
				case *ssa.Slice:
					if al, isAl := v.X.(*ssa.Alloc); isAl && v.Low == nil {
						if arr, isArr := al.Type().(*types.Pointer).Elem().Underlying().(*types.Array); isArr {
							if v.High == nil {
								k, isK = arr.Len(), true
							} else {
								k, isK = constInt(v.High)
							}
							lenT = fmt.Sprint(k)
						}
					}
				}
				if lenT == "" {
					r.Undecided(key, cs.Instr.Pos(), "the buffer is not a make([]byte, n) at the call")
					continue
				}
				hl, _ := strconv.ParseInt(hdrLen, 10, 64)
				want := int64(maxLen) + hl
				r.Check(isK && k >= want, key, cs.Instr.Pos(), fmt.Sprintf("len >= %d", want),
					fmt.Sprintf("the audit client's read buffer has length %s (capacity does not count: NewNetlinkClient replaces a zero-length buffer by a page, and Recvfrom fills len bytes); the kernel sends up to %d bytes, longer records are cut without an error", lenT, want))
			}
			r.Check(nc >= 1, "NewNetlinkClient is called by the audit client", fn.Pos(), "", "no call of NewNetlinkClient found in the root package")
		}
	}
	r.Rule("C18.R4", "parseNetlinkAuditMessage: the header view and buf[NLMSG_HDRLEN:] are dominated by len(buf) >= NLMSG_HDRLEN; exactly one message; a short buffer is an error", 2)
	{
		fn := x.parseMsg
		ps, _ := Paths(fn, PathOpts{})
		for i, p := range ps {
			ret := p.Ret()
			key := fmt.Sprintf("parseNetlinkAuditMessage path#%d [%s]", i, strings.Join(p.Lits(), " ∧ "))
			ev, _ := errResultP(ret)
			if ev != nil {
				ev = p.Resolve(ev)
			}
			switch {
			case p.HasLit("len(p0) < " + hdr):
				r.Check(!isNilConst(ev) && isNilConst(ret.Results[0]) && len(p.Events) <= 3, key, ret.Pos(), "short buffer → error, nothing read", "a buffer shorter than a netlink header is not rejected")
			case p.HasLit("len(p0) >= " + hdr):
				var hdrOK, dataOK bool
				n := 0
				for _, e := range p.Events {
					if e.Kind != EvStore {
						continue
					}
					n++
					if strings.HasSuffix(e.Text, ".Header = *syscall.NlMsghdr(unsafe.Pointer(&p0[0]))") {
						hdrOK = true
					}
					if strings.HasSuffix(e.Text, ".Data = p0["+hdr+":]") {
						dataOK = true
					}
				}
				okLen := false
				if sl, ok := ret.Results[0].(*ssa.Slice); ok {
					if al, ok := sl.X.(*ssa.Alloc); ok {
						okLen = al.Type().(*types.Pointer).Elem().Underlying().(*types.Array).Len() == 1
					}
				}
				r.Check(hdrOK && dataOK && okLen && isNilConst(ev) && n == 2, key, ret.Pos(), "one message: header view at 0, payload buf[HDRLEN:]", "the message is not {header at offset 0, payload buf[NLMSG_HDRLEN:]} in a one-element slice")
			default:
				r.Fail(key, fn.Pos(), "path not decided by the length test")
			}
		}
	}
	// R5
	r.Rule("C18.R5", "ParseNetlinkError reads 4 bytes only under len >= 4", 1)
	{
		fn := x.parseErr
		n := 0
		instrsOf(fn, func(in ssa.Instruction) {
			ia, ok := in.(*ssa.IndexAddr)
			if !ok {
				return
			}
			n++
			r.Check(HoldsAt(ia.Block(), "len(p0) >= 4") && isConstInt(ia.Index, 0), "errno read guarded", ia.Pos(), "", "the errno is read without len(data) >= 4")
		})
		r.Check(n == 1, "one read of the payload", fn.Pos(), "", fmt.Sprintf("%d indexings", n))
	}
}

func storesOf(fn *ssa.Function) []*ssa.Store {
	var out []*ssa.Store
	instrsOf(fn, func(in ssa.Instruction) {
		if st, ok := in.(*ssa.Store); ok {
			out = append(out, st)
		}
	})
	return out
}

func orderInBlock(in ssa.Instruction) int {
	for i, x := range in.Block().Instrs {
		if x == in {
			return in.Block().Index*100000 + i
		}
	}
	return -1
}

// cloneOf: v is a freshly allocated copy of the slice whose term is src, written as one of the
// clone idioms: append(B, src...) where B has no capacity to reuse (a nil slice, src[:0:0] or any
// other three-index slice with max 0, an empty literal, make(T, 0) without capacity), bytes.Clone(src)
// or slices.Clone(src). append(src[:0], src...) is NOT one: it writes src onto itself.
func cloneOf(v ssa.Value, src string) bool {
	c, ok := stripConv(v).(*ssa.Call)
	if !ok {
		return false
	}
	switch calleeName(c) {
	case "bytes.Clone", "slices.Clone":
		return len(c.Call.Args) == 1 && Term(c.Call.Args[0]) == src
	}
	base, _, spread, isApp := appendParts(c)
	if !isApp || spread == nil || Term(spread) != src {
		return false
	}
	switch b := stripConv(base).(type) {
	case *ssa.Const:
		return b.IsNil()
	case *ssa.Slice:
		if b.Max != nil {
			if k, isC := constInt(b.Max); isC && k == 0 {
				return true
			}
		}
		// an empty literal: slice of a zero-length array allocation
		if al, isAl := b.X.(*ssa.Alloc); isAl {
			if arr, isArr := al.Type().(*types.Pointer).Elem().Underlying().(*types.Array); isArr && arr.Len() == 0 {
				return true
			}
		}
	case *ssa.MakeSlice:
		l, lc := constInt(b.Len)
		k, kc := constInt(b.Cap)
		return lc && kc && l == 0 && k == 0
	}
	return false
}
