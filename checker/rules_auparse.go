package main

// Rules over auparse: C04, C05 (R2-R4; R1 is in bounds.go), C12.

import (
	"encoding/json"
	"fmt"
	"go/token"
	"go/types"
	"os"
	"path/filepath"
	"sort"
	"strings"

	"golang.org/x/tools/go/ssa"
)

// autoAlias names every call result in fn `<callee>#<ordinal>` so that terms stay readable. The
// calls of predicate helpers that path enumeration looks through are numbered in sequence at
// the position of the helper call, so extracting a condition into a helper keeps the names.
func autoAlias(fn *ssa.Function) func() {
	counts := map[string]int{}
	var undo []func()
	var visit func(f *ssa.Function, depth int)
	visit = func(f *ssa.Function, depth int) {
		for _, b := range f.Blocks {
			for _, in := range b.Instrs {
				c, ok := in.(*ssa.Call)
				if !ok {
					continue
				}
				n := calleeName(c)
				if n == "len" || n == "cap" || n == "append" || n == "copy" {
					continue
				}
				if depth < 3 && isBranchPredicate(c) {
					visit(c.Call.StaticCallee(), depth+1)
					continue
				}
				if i := strings.LastIndexAny(n, "./)"); i >= 0 {
					n = n[i+1:]
				}
				counts[n]++
				undo = append(undo, alias(c, fmt.Sprintf("%s#%d", n, counts[n])))
			}
		}
	}
	visit(fn, 0)
	return func() {
		for _, u := range undo {
			u()
		}
	}
}

type aup struct {
	r *Run
	w *World

	data, tags, toMapStr, parse, parseLogLine, parseHeader, getType, typeString, enrich, extractKV *ssa.Function
	fData, fError, fTags, fOffset, fRawData                                                        *types.Var
	msgT                                                                                           *types.Named
	ok                                                                                             bool
}

func loadAup(r *Run, w *World) *aup {
	x := &aup{r: r, w: w, ok: true}
	m := func(typ, name string) *ssa.Function {
		f, err := w.Method("auparse", typ, name)
		if err != nil {
			r.Anchor(err)
			x.ok = false
		}
		return f
	}
	fn := func(name string) *ssa.Function {
		f, err := w.Func("auparse", name)
		if err != nil {
			r.Anchor(err)
			x.ok = false
		}
		return f
	}
	fv := func(typ, name string) *types.Var {
		v, err := w.FieldVar("auparse", typ, name)
		if err != nil {
			r.Anchor(err)
			x.ok = false
		}
		return v
	}
	x.data, x.tags, x.toMapStr = m("AuditMessage", "Data"), m("AuditMessage", "Tags"), m("AuditMessage", "ToMapStr")
	x.enrich = m("AuditMessage", "enrichData")
	x.parse, x.parseLogLine, x.parseHeader = fn("Parse"), fn("ParseLogLine"), fn("parseAuditHeader")
	x.getType, x.typeString, x.extractKV = fn("GetAuditMessageType"), m("AuditMessageType", "String"), fn("extractKeyValuePairs")
	x.fData, x.fError, x.fTags = fv("AuditMessage", "data"), fv("AuditMessage", "error"), fv("AuditMessage", "tags")
	x.fOffset, x.fRawData = fv("AuditMessage", "offset"), fv("AuditMessage", "RawData")
	if n, err := w.Named("auparse", "AuditMessage"); err != nil {
		r.Anchor(err)
		x.ok = false
	} else {
		x.msgT = n
	}
	if x.ok {
		r.UseFn(fnName(x.data), fnName(x.tags), fnName(x.toMapStr), fnName(x.parse), fnName(x.parseLogLine), fnName(x.parseHeader),
			fnName(x.getType), fnName(x.typeString), fnName(x.enrich), fnName(x.extractKV))
	}
	return x
}

// ----------------------------------------------------------------------------------------------
// C04

func init() {
	props["C04"] = propC04
	propMeta["C04"] = PropMeta{
		Explanation: "Header handling decided structurally: in ToMapStr the well-known keys are written after every copied body field and from the header fields (so body fields cannot override them) into a map allocated by that call; every return of Parse/ParseLogLine/parseAuditHeader/GetAuditMessageType yields either an error with a nil/zero value or a value with a nil error; AuditMessage has a single constructor (the literal in Parse, under err == nil) and ParseLogLine reaches it only through Parse with the text after the first 'msg='; the numeric conversions agree in width and signedness with the fields they fill (ParseUint(_,10,32) -> uint32, milliseconds * 1e6 as nanoseconds), RawData is the trimmed text that was parsed; the UNKNOWN[n] spelling is printed from a 16-bit value and parsed back with ParseUint(_,10,16) from between the brackets.",
		NotDecided:  "Equality of timestamp/sequence with the written digits over all inputs (that strconv parses what was printed) and the behaviour on every corruption; bounds of the header slicing are decided under C05.",
		Assumptions: []string{"strconv/strings/time behave as documented"},
	}
}

func propC04(r *Run, w *World) {
	x := loadAup(r, w)
	if !x.ok {
		return
	}
	// R1
	r.Rule("C04.R1", "well-known keys win: on every path of ToMapStr the stores of record_type, @timestamp, sequence, raw_msg come after the last store with a non-constant key, take their values from the header fields, and go into the map this call allocated and returns", 6)
	{
		fn := x.toMapStr
		// what each well-known key must hold, as a definition (the order in which the values
		// are computed and stored is incidental)
		wantDef := map[string]string{
			"record_type": fnName(x.typeString) + "(p0.RecordType)", "@timestamp": "(time.Time).String((time.Time).UTC(p0.Timestamp))",
			"sequence": "strconv.FormatUint(uint64(p0.Sequence), 10)", "raw_msg": "p0.RawData",
		}
		defOf := map[ssa.Value]string{}
		instrsOf(fn, func(in ssa.Instruction) {
			if mu, ok := in.(*ssa.MapUpdate); ok {
				if k, isC := constString(mu.Key); isC && wantDef[k] != "" {
					defOf[mu.Value] = Term(mu.Value)
				}
			}
		})
		undo := autoAlias(fn)
		defOK := true
		want := map[string]string{}
		instrsOf(fn, func(in ssa.Instruction) {
			if mu, ok := in.(*ssa.MapUpdate); ok {
				if k, isC := constString(mu.Key); isC && wantDef[k] != "" {
					want[k] = Term(mu.Value) // the (aliased) spelling used in path descriptions
					if defOf[mu.Value] != wantDef[k] {
						defOK = false
						r.Fail("ToMapStr value of "+k, mu.Pos(), "value is "+defOf[mu.Value]+", want "+wantDef[k])
					}
				}
			}
		})
		for k := range wantDef {
			if _, has := want[k]; !has {
				want[k] = "<never stored>"
			}
		}
		var mk *ssa.MakeMap
		nMk := 0
		instrsOf(fn, func(in ssa.Instruction) {
			if m, ok := in.(*ssa.MakeMap); ok {
				mk = m
				nMk++
			}
		})
		r.Check(nMk == 1, "ToMapStr allocates its result", fn.Pos(), "one make(map) per call", fmt.Sprintf("%d map allocations", nMk))
		ps, complete := Paths(fn, PathOpts{MaxVisit: 2})
		if !complete {
			r.Undecided("ToMapStr paths", fn.Pos(), "path cap exceeded")
		}
		for i, p := range ps {
			if p.End != "return" {
				continue
			}
			lastDyn := -1
			seen := map[string]int{}
			okVals := true
			// a store with a non-constant key is harmless for a well-known key K when the path
			// has established key != K before it (the body keys are filtered instead of being
			// overwritten afterwards): excl[ei][K]
			excl := map[int]map[string]bool{}
			lits := map[string]bool{}
			for ei, e := range p.Events {
				if e.Kind == EvCond {
					lits[e.Text] = true
					continue
				}
				if mu, ok := e.Instr.(*ssa.MapUpdate); ok && e.Kind == EvMapUpdate {
					if _, isC := constString(mu.Key); !isC {
						kt := Term(mu.Key)
						excl[ei] = map[string]bool{}
						for _, k := range []string{"record_type", "@timestamp", "sequence", "raw_msg", "tags", "error"} {
							if lits[kt+" != \""+k+"\""] {
								excl[ei][k] = true
							}
						}
					}
				}
			}
			overridable := func(k string, at int) bool {
				for ei, ex := range excl {
					if ei > at && !ex[k] {
						return true
					}
				}
				return false
			}
			for ei, e := range p.Events {
				mu, ok := e.Instr.(*ssa.MapUpdate)
				if !ok || e.Kind != EvMapUpdate {
					continue
				}
				if mk != nil && mu.Map != ssa.Value(mk) {
					r.Fail(fmt.Sprintf("ToMapStr path#%d foreign map", i), mu.Pos(), "a map other than the result is written")
				}
				if k, isC := constString(mu.Key); isC {
					seen[k] = ei
					if wv, isWK := want[k]; isWK && Term(mu.Value) != wv {
						okVals = false
					}
				} else {
					lastDyn = ei
				}
			}
			okOrder := true
			for k := range want {
				ei, has := seen[k]
				if !has || (ei < lastDyn && overridable(k, ei)) {
					okOrder = false
				}
			}
			for _, k := range []string{"tags", "error"} {
				if ei, has := seen[k]; has && ei < lastDyn && overridable(k, ei) {
					okOrder = false
				}
			}
			ret := p.Ret()
			okRet := ret != nil && mk != nil && ret.Results[0] == ssa.Value(mk)
			r.Check(okOrder && okVals && okRet && defOK, fmt.Sprintf("ToMapStr path#%d", i), fn.Pos(), "header keys stored last, from the header",
				"a body field can override a well-known key, or a well-known key is not taken from the header: "+compactPathMU(p))
		}
		undo()
	}
	// R2
	r.Rule("C04.R2", "error xor message: every return of Parse, ParseLogLine, parseAuditHeader and GetAuditMessageType has a nil/zero value with a non-nil error, or a nil error; the AuditMessage literal is under err == nil", 15)
	for _, fn := range []*ssa.Function{x.parse, x.parseLogLine, x.parseHeader, x.getType} {
		for i, ret := range retEdges(fn) {
			key := fmt.Sprintf("%s return#%d", fnName(fn), i)
			ev, _ := errResultE(ret)
			if ev == nil {
				r.Fail(key, ret.Pos(), "no error result")
				continue
			}
			if isNilConst(ev) {
				r.OK(key, ret.Pos(), "success return")
				continue
			}
			// tail call: all results are the extracts of one call to a checked sibling
			if ex, ok := ev.(*ssa.Extract); ok {
				if c, ok := ex.Tuple.(*ssa.Call); ok {
					callee := c.Call.StaticCallee()
					tail := callee == x.parse || callee == x.parseHeader || callee == x.getType
					for j, rv := range ret.Results {
						e2, ok := rv.(*ssa.Extract)
						if !ok || e2.Tuple != ex.Tuple || e2.Index != j {
							tail = false
						}
					}
					if tail {
						r.OK(key, ret.Pos(), "forwards both results of "+fnName(callee))
						continue
					}
				}
			}
			zero := true
			for _, rv := range ret.Results[:len(ret.Results)-1] {
				switch c := rv.(type) {
				case *ssa.Const:
					if c.Value != nil {
						if n, ok := constInt(c); !ok || n != 0 {
							zero = false
						}
					}
				default:
					zero = false
				}
			}
			// the error must be non-nil on this edge: a guard err != nil, a package-level error variable, or a constructor call
			nonNil := ret.Holds(Term(ev)+" != nil") || strings.HasPrefix(Term(ev), "auparse.err") || strings.HasPrefix(Term(ev), "errors.New(") || strings.HasPrefix(Term(ev), "fmt.Errorf(")
			r.Check(zero && nonNil, key, ret.Pos(), "zero value with a non-nil error", "an error return carries a value, or the error may be nil: "+Term(ev))
		}
	}
	// R3
	r.Rule("C04.R3", "one implementation: the only constructor of AuditMessage is the literal in Parse (under parseAuditHeader's err == nil); ParseLogLine reaches it only by calling Parse with the text after the first 'msg=' and the type named before it", 4)
	{
		n := 0
		for _, fn := range w.SrcFuncs() {
			instrsOf(fn, func(in ssa.Instruction) {
				al, ok := in.(*ssa.Alloc)
				if !ok {
					return
				}
				if !types.Identical(al.Type().(*types.Pointer).Elem(), x.msgT) {
					return
				}
				n++
				r.Check(fn == x.parse, "AuditMessage constructed in "+fnName(fn), al.Pos(), "", "an AuditMessage is constructed outside Parse")
			})
		}
		r.Check(n == 1, "one AuditMessage constructor", x.parse.Pos(), "", fmt.Sprintf("%d construction sites", n))
		undo := autoAlias(x.parse)
		for _, st := range storesOf(x.parse) {
			if strings.HasPrefix(AddrTerm(st.Addr), "new(auparse.AuditMessage)") {
				r.Check(HoldsAt(st.Block(), "parseAuditHeader#1#3 == nil"), "literal under err == nil", st.Pos(), "", "the message is built although the header failed to parse")
				break
			}
		}
		undo()
		undo = autoAlias(x.parseLogLine)
		msgTok, _ := w.Const("auparse", "msgToken")
		typTok, _ := w.Const("auparse", "typeToken")
		calls := callsIn(x.parseLogLine, x.parse)
		ok := len(calls) == 1 && msgTok != nil && typTok != nil
		if ok {
			c := calls[0].Common()
			mt := constVal(msgTok)
			idx := fmt.Sprintf("Index#1")
			okIdx := false
			for _, ic := range callsNamedIn(x.parseLogLine, "strings.Index") {
				a := ic.Common().Args
				if s, isC := constString(a[1]); isC && s == mt && isParamValue(a[0], x.parseLogLine.Params[0]) {
					okIdx = true
				}
			}
			wantMsg := fmt.Sprintf("p0[(%s + %d):]", idx, len(mt))
			wantTyp := fmt.Sprintf("GetAuditMessageType#1#0")
			ok = okIdx && Term(c.Args[1]) == wantMsg && Term(c.Args[0]) == wantTyp
			if ok {
				gt := callsIn(x.parseLogLine, x.getType)
				ok = len(gt) == 1 && Term(gt[0].Common().Args[0]) == fmt.Sprintf("p0[%d:(%s - 1)]", len(constVal(typTok)), idx) &&
					HoldsAt(calls[0].Block(), "GetAuditMessageType#1#1 == nil")
			}
		}
		r.Check(ok, "ParseLogLine → Parse(type, line[msgIndex+len(msgToken):])", x.parseLogLine.Pos(), "", "ParseLogLine does not hand Parse the text after the first 'msg=' with the type named before it")
		undo()
	}
	// R4
	r.Rule("C04.R4", "width agreement: each narrowing conversion of a strconv.ParseInt/ParseUint result has bitSize <= the target width and matching signedness; the nanosecond argument of time.Unix is the parsed milliseconds times 1e6; the results are wired sec/msec/sequence/end in that order; RawData is the string that was parsed", 5)
	{
		fn := x.parseHeader
		n := 0
		instrsOf(fn, func(in ssa.Instruction) {
			cv, ok := in.(*ssa.Convert)
			if !ok {
				return
			}
			ex, ok := cv.X.(*ssa.Extract)
			if !ok {
				return
			}
			c, ok := ex.Tuple.(*ssa.Call)
			if !ok {
				return
			}
			name := calleeName(c)
			if name != "strconv.ParseInt" && name != "strconv.ParseUint" {
				return
			}
			n++
			bits, _ := constInt(c.Call.Args[2])
			tb, _ := cv.Type().Underlying().(*types.Basic)
			width := int64(0)
			unsigned := false
			if tb != nil {
				width = w.Sizes.Sizeof(tb) * 8
				unsigned = tb.Info()&types.IsUnsigned != 0
			}
			ok = bits > 0 && bits <= width && unsigned == (name == "strconv.ParseUint")
			r.Check(ok, fmt.Sprintf("conversion %s(%s bitSize %d)", typeStr(cv.Type()), name, bits), cv.Pos(), "fits", fmt.Sprintf("%s with bitSize %d is converted to %s: values the parser accepts are truncated or change sign", name, bits, typeStr(cv.Type())))
		})
		r.Check(n >= 1, "narrowing conversions found", fn.Pos(), "", "no conversion of a parsed number found in parseAuditHeader")
		undo := autoAlias(fn)
		// success return wiring
		for _, ret := range retEdges(fn) {
			ev, _ := errResultE(ret)
			if !isNilConst(ev) {
				continue
			}
			var unix *ssa.Call
			for _, c := range callsNamedIn(fn, "time.Unix") {
				unix = c.(*ssa.Call)
			}
			ok := unix != nil
			if ok {
				ok = Term(unix.Call.Args[0]) == "ParseInt#1#0" && Term(unix.Call.Args[1]) == "(ParseInt#2#0 * 1000000)"
			}
			r.Check(ok, "time.Unix(sec, msec*1e6)", ret.Pos(), "", "the timestamp is not time.Unix(seconds, milliseconds*1e6)")
			okRet := Term(ret.Results[0]) == "UTC#1" && Term(ret.Results[1]) == "uint32(ParseUint#1#0)" &&
				Term(ret.Results[2]) == "(IndexRune#1 + IndexRune#2 + IndexRune#3 + IndexRune#4)"
			r.Check(okRet, "results (time, sequence, end)", ret.Pos(), "", "parseAuditHeader does not return (UTC time, uint32 sequence, index of ')'): "+Term(ret.Results[0])+", "+Term(ret.Results[1])+", "+Term(ret.Results[2]))
			// the three numbers come from the three consecutive header fields
			args := map[string]string{}
			for _, c := range fn.Blocks {
				for _, in := range c.Instrs {
					if cc, ok := in.(*ssa.Call); ok {
						if a := termAlias[cc]; strings.HasPrefix(a, "Parse") {
							args[a] = Term(cc.Call.Args[0]) + "," + Term(cc.Call.Args[1]) + "," + Term(cc.Call.Args[2])
						}
					}
				}
			}
			start, dot, sep := "IndexRune#1", "(IndexRune#1 + IndexRune#2)", "(IndexRune#1 + IndexRune#2 + IndexRune#3)"
			end := "(IndexRune#1 + IndexRune#2 + IndexRune#3 + IndexRune#4)"
			plus1 := func(sum string) string { return "(" + strings.TrimSuffix(strings.TrimPrefix(sum, "("), ")") + " + 1)" }
			wantArgs := map[string]string{
				"ParseInt#1":  "p0[" + plus1(start) + ":" + dot + "],10,64",
				"ParseInt#2":  "p0[" + plus1(dot) + ":" + sep + "],10,64",
				"ParseUint#1": "p0[" + plus1(sep) + ":" + end + "],10,32",
			}
			okArgs := true
			for k, v := range wantArgs {
				if args[k] != v {
					okArgs = false
				}
			}
			r.Check(okArgs, "fields between ( . : )", ret.Pos(), "", fmt.Sprintf("the numbers are not parsed from the text between '(' '.' ':' ')' in that order: %v", args))
			// delimiters
			wantDelim := map[string]string{"IndexRune#1": "p0,40", "IndexRune#2": "p0[" + start + ":],46", "IndexRune#3": "p0[" + dot + ":],58", "IndexRune#4": "p0[" + sep + ":],41"}
			okD := true
			for _, b := range fn.Blocks {
				for _, in := range b.Instrs {
					if cc, ok := in.(*ssa.Call); ok {
						if a := termAlias[cc]; strings.HasPrefix(a, "IndexRune") {
							if Term(cc.Call.Args[0])+","+Term(cc.Call.Args[1]) != wantDelim[a] {
								okD = false
							}
						}
					}
				}
			}
			r.Check(okD, "delimiters ( . : ) searched left to right", ret.Pos(), "", "the header delimiters are not located as '(' then '.' then ':' then ')' each from the previous one")
		}
		undo()
		// Parse wiring
		undo = autoAlias(x.parse)
		want := map[string]string{"RecordType": "p0", "Timestamp": "parseAuditHeader#1#0", "Sequence": "parseAuditHeader#1#1", "RawData": "TrimSpace#1",
			"offset": "indexOfMessage#1"}
		got := map[string]string{}
		for _, st := range storesOf(x.parse) {
			t := AddrTerm(st.Addr)
			if i := strings.LastIndex(t, "."); i >= 0 && strings.HasPrefix(t, "new(auparse.AuditMessage)") {
				got[t[i+1:]] = Term(st.Val)
			}
		}
		ok := len(got) == len(want)
		for k, v := range want {
			if got[k] != v {
				ok = false
			}
		}
		hdr := callsIn(x.parse, x.parseHeader)
		ok = ok && len(hdr) == 1 && Term(hdr[0].Common().Args[0]) == "TrimSpace#1"
		iom := callsNamedIn(x.parse, "auparse.indexOfMessage")
		ok = ok && len(iom) == 1 && Term(iom[0].Common().Args[0]) == "TrimSpace#1[parseAuditHeader#1#2:]"
		ts := callsNamedIn(x.parse, "strings.TrimSpace")
		ok = ok && len(ts) == 1 && isParamValue(ts[0].Common().Args[0], x.parse.Params[1])
		r.Check(ok, "Parse fills the message from the header it parsed", x.parse.Pos(), "", fmt.Sprintf("Parse's literal is %v", got))
		undo()
	}
	c04UnknownRoundTrip(r, w, "C04.R5")
	// "type=T parses to RecordType exactly T, and prints as T again" rests on the two record-type
	// tables being inverse of each other (shared with C20.R1)
	recordTypeTables(r, w, "C04.R6")
}

func compactPathMU(p *Path) string {
	var s []string
	for _, e := range p.Events {
		if e.Kind == EvMapUpdate {
			if mu, ok := e.Instr.(*ssa.MapUpdate); ok {
				s = append(s, "["+Term(mu.Key)+"]="+Term(mu.Value))
			}
		}
	}
	return strings.Join(s, " ; ")
}

// c04UnknownRoundTrip: C04.R5 — the UNKNOWN[n] spelling is printed and parsed consistently.
func c04UnknownRoundTrip(r *Run, w *World, ruleID string) {
	r.Rule(ruleID, "UNKNOWN[n] round trip: String falls back to fmt.Sprintf(\"UNKNOWN[%d]\", uint16(t)) only when the type has no name; GetAuditMessageType looks the upper-cased name up first and otherwise parses the text between '[' and ']' with ParseUint(_, 10, 16)", 2)
	str, err := w.Method("auparse", "AuditMessageType", "String")
	if err != nil {
		r.Anchor(err)
		return
	}
	get, err := w.Func("auparse", "GetAuditMessageType")
	if err != nil {
		r.Anchor(err)
		return
	}
	{
		ps, _ := Paths(str, PathOpts{})
		ok := len(ps) == 2
		for _, p := range ps {
			ret := p.Ret()
			if ret == nil {
				ok = false
				continue
			}
			switch {
			case p.HasLit("has(auparse.auditMessageTypeToName, p0)"):
				ok = ok && Term(ret.Results[0]) == "auparse.auditMessageTypeToName[p0]"
			case p.HasLit("!has(auparse.auditMessageTypeToName, p0)"):
				calls := p.CallsNamed("fmt.Sprintf")
				okc := len(calls) == 1
				if okc {
					c := calls[0].Instr.(*ssa.Call)
					f, _ := constString(c.Call.Args[0])
					okc = f == "UNKNOWN[%d]"
					// the vararg is uint16(p0)
					if sl, isSl := c.Call.Args[1].(*ssa.Slice); isSl && okc {
						okc = false
						if al, isAl := sl.X.(*ssa.Alloc); isAl {
							for _, st := range storesOf(str) {
								if ia, isIA := st.Addr.(*ssa.IndexAddr); isIA && ia.X == ssa.Value(al) {
									// a 16-bit unsigned rendering of the receiver (AuditMessageType's underlying type is uint16)
									inner := st.Val
									if mi, ok := inner.(*ssa.MakeInterface); ok {
										inner = mi.X
									}
									bt, _ := inner.Type().Underlying().(*types.Basic)
									okc = bt != nil && bt.Kind() == types.Uint16 && isParamValue(stripConv(inner), str.Params[0])
								}
							}
						}
					}
					okc = okc && ret.Results[0] == ssa.Value(c)
				}
				ok = ok && okc
			default:
				ok = false
			}
		}
		r.Check(ok, "String fallback", str.Pos(), "UNKNOWN[%d] of the 16-bit code", "String does not print unnamed types as UNKNOWN[<decimal 16-bit code>]")
	}
	{
		undo := autoAlias(get)
		okLookup, okParse := false, false
		for _, ret := range retEdges(get) {
			ev, _ := errResultE(ret)
			if !isNilConst(ev) {
				continue
			}
			t := Term(ret.Results[0])
			if t == "auparse.auditMessageNameToType[ToUpper#1]" && ret.Holds("has(auparse.auditMessageNameToType, ToUpper#1)") {
				okLookup = true
			}
			if t == "auparse.AuditMessageType(ParseUint#1#0)" && ret.Holds("ParseUint#1#1 == nil") {
				for _, c := range callsNamedIn(get, "strconv.ParseUint") {
					a := c.Common().Args
					okParse = Term(a[0]) == "ToUpper#1[(IndexByte#1 + 1):][:IndexByte#2]" && isConstInt(a[1], 10) && isConstInt(a[2], 16)
				}
				for _, c := range callsNamedIn(get, "strings.IndexByte") {
					a := c.Common().Args
					switch termAlias[c.Value()] {
					case "IndexByte#1":
						okParse = okParse && Term(a[0]) == "ToUpper#1" && isConstInt(a[1], '[')
					case "IndexByte#2":
						okParse = okParse && Term(a[0]) == "ToUpper#1[(IndexByte#1 + 1):]" && isConstInt(a[1], ']')
					}
				}
			}
		}
		for _, c := range callsNamedIn(get, "strings.ToUpper") {
			if c.Common().Args[0] != ssa.Value(get.Params[0]) {
				okLookup = false
			}
		}
		r.Check(okLookup && okParse, "GetAuditMessageType", get.Pos(), "table lookup, else ParseUint(text between [ ], 10, 16)", "GetAuditMessageType does not resolve names through the table and UNKNOWN[n] through ParseUint(_, 10, 16)")
		undo()
	}
}

// ----------------------------------------------------------------------------------------------
// C05 (R2-R4)

func init() {
	props["C05"] = propC05
	propMeta["C05"] = PropMeta{
		Technique:   "static analysis: bounds/panic obligations (gc prove-pass listing + linear prover over SSA guards with checked lemmas), loop/recursion classification, SSA path conditions",
		Explanation: "Totality decided structurally for everything reachable from ParseLogLine, Parse, Data, Tags, ToMapStr: every index/slice operation the compiler cannot prove in bounds, every non-constant allocation size, division, unchecked type assertion, nil-map write and explicit panic in scope is an obligation that must be proved from dominating guards and library postconditions or by a named lemma whose premises are re-checked; every loop is a range over a value not grown in its body or a counted loop with a loop-invariant bound, recursion only through the reviewed extractKeyValuePairs (argument is a strict submatch); Data's cached-result test dominates all work and every other path stores the result it returns; ToMapStr reports a parse error under the 'error' key. A loop counted by a number parsed from the input must find a key computed from its induction variable on every continuing iteration (work bounded by the input's size, not by the number).",
		NotDecided:  "Panics from nil receivers or from messages whose exported fields were overwritten by the caller (outside 'any message they return'); termination of library code (Go's regexp is linear-time).",
		Assumptions: []string{"the gc compiler's prove pass is sound (sites it eliminates are in bounds)", "library postconditions listed in the checker"},
	}
}

func (w *World) reachable(entries []*ssa.Function, within func(*ssa.Function) bool) []*ssa.Function {
	seen := map[*ssa.Function]bool{}
	var out []*ssa.Function
	var walk func(f *ssa.Function)
	walk = func(f *ssa.Function) {
		if f == nil || seen[f] || len(f.Blocks) == 0 || !within(f) {
			return
		}
		seen[f] = true
		out = append(out, f)
		instrsOf(f, func(in ssa.Instruction) {
			if ci, ok := in.(ssa.CallInstruction); ok {
				if c := ci.Common().StaticCallee(); c != nil {
					walk(c)
				}
			}
			var ops []*ssa.Value
			for _, op := range in.Operands(ops) {
				switch v := (*op).(type) {
				case *ssa.Function:
					walk(v)
				case *ssa.MakeClosure:
					walk(v.Fn.(*ssa.Function))
				}
			}
		})
		for _, a := range f.AnonFuncs {
			walk(a)
		}
	}
	for _, e := range entries {
		walk(e)
	}
	sort.Slice(out, func(i, j int) bool { return fnName(out[i]) < fnName(out[j]) })
	return out
}

// loopKind classifies a natural loop for the termination rule.
func loopKind(fn *ssa.Function, l *Loop) (string, string) {
	// candidate exit tests: blocks of the loop that every iteration passes through (they dominate
	// all latches) and that branch out of the loop
	why := "no exit test that every iteration passes"
	for _, b := range fn.Blocks {
		if !l.Body[b] {
			continue
		}
		ifi, ok := b.Instrs[len(b.Instrs)-1].(*ssa.If)
		if !ok {
			continue
		}
		exits := !l.Body[b.Succs[0]] || !l.Body[b.Succs[1]]
		if !exits {
			continue
		}
		domAll := true
		for _, lt := range l.Latches {
			if !(b == lt || b.Dominates(lt)) {
				domAll = false
			}
		}
		if !domAll {
			continue
		}
		k, w := exitTestKind(l, ifi, !l.Body[b.Succs[1]])
		if k != "" {
			return k, ""
		}
		why = w
	}
	return "", why
}

// exitTestKind: stayOnTrue = the loop continues on the true edge.
func exitTestKind(l *Loop, ifi *ssa.If, stayOnTrue bool) (string, string) {
	// range over map/string: rangeok(next(range x))
	if ex, ok := ifi.Cond.(*ssa.Extract); ok {
		if nx, ok := ex.Tuple.(*ssa.Next); ok && ex.Index == 0 {
			if rg, ok := nx.Iter.(*ssa.Range); ok {
				if _, isMap := rg.X.Type().Underlying().(*types.Map); isMap {
					for b := range l.Body {
						for _, in := range b.Instrs {
							if mu, ok := in.(*ssa.MapUpdate); ok && mu.Map == rg.X {
								return "", "the ranged map is inserted into inside the loop"
							}
						}
					}
				}
				return "range", ""
			}
		}
	}
	b, ok := ifi.Cond.(*ssa.BinOp)
	if !ok || (b.Op != token.LSS && b.Op != token.LEQ) || !stayOnTrue {
		return "", "exit test is not `i < n`: " + Lit(ifi.Cond, true)
	}
	// bound must be loop-invariant
	var ins []ssa.Instruction
	leafInstrs(b.Y, map[ssa.Value]bool{}, &ins)
	bodyCalls, storedFields := false, map[string]bool{}
	for blk := range l.Body {
		for _, in := range blk.Instrs {
			switch v := in.(type) {
			case *ssa.Call:
				if _, isB := v.Call.Value.(*ssa.Builtin); !isB && !storesNothing(v.Call.StaticCallee(), 0) {
					bodyCalls = true
				}
			case *ssa.Store:
				if fa, ok := v.Addr.(*ssa.FieldAddr); ok {
					storedFields[fieldName(fieldOfAddr(fa))] = true
				} else {
					storedFields["*"] = true
				}
			}
		}
	}
	for _, in := range ins {
		if !l.Body[in.Block()] {
			continue
		}
		switch v := in.(type) {
		case *ssa.Phi:
			return "", "loop bound varies with the loop: " + Term(b.Y)
		case *ssa.Call:
			if n := calleeName(v); n == "len" || n == "cap" {
				continue
			}
			return "", "loop bound is recomputed by a call inside the loop: " + Term(b.Y)
		case *ssa.UnOp:
			if v.Op != token.MUL {
				continue
			}
			// a load: invariant if nothing in the body can store to that field
			if fa, ok := v.X.(*ssa.FieldAddr); ok {
				if storedFields[fieldName(fieldOfAddr(fa))] || bodyCalls {
					return "", "loop bound is reloaded inside the loop and the loop stores to that field (or calls out): " + Term(b.Y)
				}
				continue
			}
			if ia, ok := v.X.(*ssa.IndexAddr); ok {
				_ = ia
				return "", "loop bound is an element reloaded inside the loop: " + Term(b.Y)
			}
		case *ssa.Lookup:
			return "", "loop bound is a map element reloaded inside the loop: " + Term(b.Y)
		}
	}
	// induction variable: phi{c | phi+k} or (phi{-1|inc}+1)
	var phi *ssa.Phi
	switch v := b.X.(type) {
	case *ssa.Phi:
		phi = v
	case *ssa.BinOp:
		if p, ok := v.X.(*ssa.Phi); ok && v.Op == token.ADD {
			phi = p
		}
	}
	if phi == nil || phi.Block() != l.Header {
		return "", "no induction variable in the exit test: " + Term(b.X)
	}
	for i, e := range phi.Edges {
		pred := l.Header.Preds[i]
		if !l.Body[pred] {
			continue
		}
		inc, ok := e.(*ssa.BinOp)
		if !ok || inc.Op != token.ADD {
			return "", "induction variable is not advanced by addition: " + Term(e)
		}
		k, isC := constInt(inc.Y)
		if inc.X != ssa.Value(phi) || !isC || k <= 0 {
			return "", "induction variable is not advanced by a positive constant: " + Term(e)
		}
	}
	return "counted", ""
}

func condOf(in ssa.Instruction) ssa.Value {
	if ifi, ok := in.(*ssa.If); ok {
		return ifi.Cond
	}
	return nil
}

// inputNumberBound: the loop's counted exit test compares the induction variable with a value
// computed from a strconv parse (a number written in the input). Returns a rendering of the
// bound and the induction phi.
func inputNumberBound(fn *ssa.Function, l *Loop) (string, *ssa.Phi) {
	for b := range l.Body {
		ifi, ok := b.Instrs[len(b.Instrs)-1].(*ssa.If)
		if !ok || (l.Body[b.Succs[0]] && l.Body[b.Succs[1]]) {
			continue
		}
		c, ok := ifi.Cond.(*ssa.BinOp)
		if !ok || (c.Op != token.LSS && c.Op != token.LEQ) {
			continue
		}
		var phi *ssa.Phi
		switch v := c.X.(type) {
		case *ssa.Phi:
			phi = v
		case *ssa.BinOp:
			if p, ok := v.X.(*ssa.Phi); ok {
				phi = p
			}
		}
		if phi == nil {
			continue
		}
		var ins []ssa.Instruction
		leafInstrs(c.Y, map[ssa.Value]bool{}, &ins)
		for _, in := range ins {
			if call, ok := in.(*ssa.Call); ok {
				switch calleeName(call) {
				case "strconv.ParseUint", "strconv.ParseInt", "strconv.Atoi":
					return Term(c.Y), phi
				}
			}
		}
	}
	return "", nil
}

// foundKeyedByInduction: cond with polarity pol says that a lookup made inside the loop with a
// key computed from the induction variable succeeded (err == nil, or comma-ok true).
func foundKeyedByInduction(cond ssa.Value, pol bool, l *Loop, phi *ssa.Phi) bool {
	for {
		if u, ok := cond.(*ssa.UnOp); ok && u.Op == token.NOT {
			cond, pol = u.X, !pol
			continue
		}
		break
	}
	var ex *ssa.Extract
	switch c := cond.(type) {
	case *ssa.BinOp:
		if c.Op != token.EQL && c.Op != token.NEQ {
			return false
		}
		if (c.Op == token.EQL) != pol {
			return false // err != nil on this path
		}
		if isNilConst(c.Y) {
			ex, _ = c.X.(*ssa.Extract)
		} else if isNilConst(c.X) {
			ex, _ = c.Y.(*ssa.Extract)
		}
		if ex == nil || !isErrorType(ex.Type()) {
			return false
		}
	case *ssa.Extract:
		if !pol {
			return false
		}
		if b, ok := c.Type().Underlying().(*types.Basic); !ok || b.Kind() != types.Bool {
			return false
		}
		ex = c
	default:
		return false
	}
	var args []ssa.Value
	switch t := ex.Tuple.(type) {
	case *ssa.Call:
		if !l.Body[t.Block()] {
			return false
		}
		args = t.Call.Args
	case *ssa.Lookup:
		if !l.Body[t.Block()] {
			return false
		}
		args = []ssa.Value{t.Index}
	default:
		return false
	}
	for _, a := range args {
		var ins []ssa.Instruction
		leafInstrs(a, map[ssa.Value]bool{}, &ins)
		for _, in := range ins {
			if in == ssa.Instruction(phi) {
				return true
			}
		}
	}
	return false
}

func (x *aup) scope() []*ssa.Function {
	return x.w.reachable([]*ssa.Function{x.parseLogLine, x.parse, x.data, x.tags, x.toMapStr}, func(f *ssa.Function) bool {
		return x.w.inPkg(f, "auparse") || x.w.inPkg(f, "internal")
	})
}

func terminationRule(r *Run, w *World, ruleID string, scope []*ssa.Function, reviewedLoops map[string]string, reviewedRecursion map[string]string) {
	r.Rule(ruleID, "termination: every loop in scope is a range over a value not grown in its body or a counted loop with a strictly advancing induction variable and a loop-invariant bound (or is in the reviewed table); recursion only through reviewed functions", 8)
	inScope := map[*ssa.Function]bool{}
	for _, f := range scope {
		inScope[f] = true
	}
	for _, fn := range scope {
		for i, l := range NaturalLoops(fn) {
			kind, why := loopKind(fn, l)
			key := fmt.Sprintf("%s loop#%d", fnName(fn), i)
			if kind == "counted" {
				// a bound that is a number written in the input (not a length of it) allows ~2^32
				// iterations for a few bytes of input unless every continuing iteration has found
				// something the input actually contains
				if num, phi := inputNumberBound(fn, l); num != "" {
					ps, complete := IterationPaths(fn, l)
					bad := ""
					for _, p := range ps {
						if p.End != "stop" {
							continue
						}
						found := false
						for _, e := range p.Events {
							if e.Kind != EvCond {
								continue
							}
							for _, cv := range []struct {
								v   ssa.Value
								pol bool
							}{{e.Val, e.ValPol}, {condOf(e.Instr), e.Pol}} {
								if cv.v != nil && foundKeyedByInduction(cv.v, cv.pol, l, phi) {
									found = true
								}
							}
						}
						if !found && bad == "" {
							bad = describePath(p)
						}
					}
					r.Check(complete && bad == "", key+" bounded by "+num, l.Header.Instrs[0].Pos(), "every continuing iteration found a distinct key of the input",
						"the iteration count is the number "+num+" read from the input (up to 2^32 for a few bytes of text) and an iteration can continue without having found a field keyed by the induction variable, so the work is not bounded by the size of the input: "+bad)
					continue
				}
			}
			if kind != "" {
				r.OK(key, l.Header.Instrs[0].Pos(), kind)
				continue
			}
			if reason, ok := reviewedLoops[fnName(fn)]; ok {
				r.OK(key+" (reviewed)", l.Header.Instrs[0].Pos(), reason)
				continue
			}
			r.Fail(key, fn.Pos(), "loop is neither a range nor a counted loop with an invariant bound: "+why)
		}
		// recursion: any static call cycle
		instrsOf(fn, func(in ssa.Instruction) {
			ci, ok := in.(ssa.CallInstruction)
			if !ok {
				return
			}
			c := ci.Common().StaticCallee()
			if c == nil || !inScope[c] {
				return
			}
			if reaches(c, fn, inScope, map[*ssa.Function]bool{}) {
				key := "recursion " + fnName(fn) + " → " + fnName(c)
				if reason, ok := reviewedRecursion[fnName(fn)+"→"+fnName(c)]; ok {
					// premise: the recursive argument derives from a regexp submatch of the parameter
					arg := ""
					if len(ci.Common().Args) > 0 {
						arg = Term(ci.Common().Args[len(ci.Common().Args)-1])
					}
					okPremise := strings.Contains(arg, "FindAllStringSubmatch(auparse.kvRegex, p0, -1)") && strings.Contains(arg, "[2]")
					r.Check(okPremise, key+" (reviewed)", in.Pos(), reason, "the premise of the reviewed recursion no longer holds: the argument is "+arg)
				} else {
					r.Fail(key, in.Pos(), "unreviewed recursion")
				}
			}
		})
	}
}

func reaches(from, to *ssa.Function, inScope map[*ssa.Function]bool, seen map[*ssa.Function]bool) bool {
	if from == to {
		return true
	}
	if seen[from] {
		return false
	}
	seen[from] = true
	found := false
	instrsOf(from, func(in ssa.Instruction) {
		if found {
			return
		}
		if ci, ok := in.(ssa.CallInstruction); ok {
			if c := ci.Common().StaticCallee(); c != nil && inScope[c] && reaches(c, to, inScope, seen) {
				found = true
			}
		}
	})
	return found
}

// dataIdempotence: Data() is memoised, success and failure alike, and nothing else writes the
// memo (C05.R3). What a message reports after somebody has called Data()/Tags()/ToMapStr() on
// it - a coalescer, say - is the same as before only under this condition, so C15 states it too.
func (x *aup) dataIdempotence(id string) {
	r, w := x.r, x.w
	_ = w
	r.Rule(id, "idempotence of Data: the cached-result test (data != nil || error != nil) dominates all work; every other path stores a non-nil value into data or error before returning exactly those fields; data/error/tags have no other writer; ToMapStr allocates its result on every call", 8)
	fn := x.data
	ps, complete := Paths(fn, PathOpts{MaxVisit: 2})
	if !complete {
		r.Undecided("Data paths", fn.Pos(), "path cap exceeded")
	}
	for i, p := range ps {
		if p.End != "return" {
			continue
		}
		ret := p.Ret()
		key := fmt.Sprintf("Data path#%d [%s]", i, firstLits(p, 3))
		cached := p.HasLit("p0.data != nil") || p.HasLit("p0.error != nil")
		stores := 0
		calls := 0
		nonNil := false
		for _, e := range p.Events {
			if e.Kind == EvCall {
				calls++
			}
			st, ok := e.Instr.(*ssa.Store)
			if !ok || e.Kind != EvStore {
				continue
			}
			fa, ok := st.Addr.(*ssa.FieldAddr)
			if !ok || fa.X != ssa.Value(fn.Params[0]) {
				continue
			}
			f := fieldOfAddr(fa)
			if f == x.fData || f == x.fError {
				stores++
				if _, isMk := st.Val.(*ssa.MakeMap); isMk {
					nonNil = true
				}
				if HoldsAt(st.Block(), Term(st.Val)+" != nil") || strings.HasPrefix(Term(st.Val), "errors.New(") || definitelyNonNil(st.Val) {
					nonNil = true
				}
			}
		}
		okRet := ret != nil && len(ret.Results) == 2 && Term(ret.Results[1]) == "p0.error" && (Term(ret.Results[0]) == "p0.data" || isNilConst(ret.Results[0]))
		if cached {
			r.Check(stores == 0 && calls == 0 && okRet && Term(ret.Results[0]) == "p0.data", key, ret.Pos(), "cached: returns the stored fields, no work", "the cached path does work or does not return the stored fields: "+compactPath(p))
		} else {
			r.Check(p.HasLit("p0.data == nil") && p.HasLit("p0.error == nil") && stores >= 1 && nonNil && okRet, key, ret.Pos(), "first call: stores what it returns",
				"a first-call path returns without caching a non-nil data or error (a second call would parse again and may differ): "+compactPath(p))
		}
	}
	// writers
	allowed := map[*types.Var]map[string]bool{
		x.fData:  {fnName(x.data): true},
		x.fError: {fnName(x.data): true},
		x.fTags:  {"(*auparse.AuditMessage).auditRuleKeyNew": true},
	}
	for fv, fns := range allowed {
		for _, a := range Writes(w.FieldAccesses(fv)) {
			okw := fns[fnName(a.Fn)]
			if a.Kind == "mapupdate" && fv == x.fData {
				okw = okw && x.w.ownedBy(a.Fn, x.data)
			}
			r.Check(okw, "AuditMessage."+fieldName(fv)+" "+a.Kind+" in "+fnName(a.Fn), a.Instr.Pos(), "", "AuditMessage."+fieldName(fv)+" is written ("+a.Kind+") in "+fnName(a.Fn)+": the memoised result can change between calls")
		}
	}
	// auditRuleKeyNew reachable only from enrichData ← Data
	if akn, err := w.Method("auparse", "AuditMessage", "auditRuleKeyNew"); err == nil {
		for _, s := range w.CallSites(akn) {
			r.Check(x.w.ownedBy(s.Caller, x.enrich) && s.Kind == "static", "caller of auditRuleKeyNew: "+fnName(s.Caller), s.Instr.Pos(), "", "tags can be rewritten outside the first Data() call")
		}
		for _, s := range w.CallSites(x.enrich) {
			r.Check(x.w.ownedBy(s.Caller, x.data) && s.Kind == "static", "caller of enrichData: "+fnName(s.Caller), s.Instr.Pos(), "", "enrichData runs outside the first Data() call")
		}
	} else {
		r.Anchor(err)
	}
	// offset/RawData writers: only the literal in Parse (lemma offset-invariant premise)
	for _, fv := range []*types.Var{x.fOffset} {
		for _, a := range Writes(w.FieldAccesses(fv)) {
			r.Check(x.w.ownedBy(a.Fn, x.parse) && a.Kind == "store", "AuditMessage."+fieldName(fv)+" written in "+fnName(a.Fn), a.Instr.Pos(), "", "offset is written outside Parse's literal")
		}
	}
	// Tags = Data's error + m.tags
	rets := returnsOf(x.tags)
	okT := len(rets) == 1 && len(callsIn(x.tags, x.data)) == 1
	if okT {
		undo := autoAlias(x.tags)
		okT = Term(rets[0].Results[0]) == "p0.tags" && Term(rets[0].Results[1]) == "Data#1#1"
		undo()
	}
	r.Check(okT, "Tags returns (m.tags, Data's error)", x.tags.Pos(), "", "Tags does not return the memoised tags with Data's error")
}

func propC05(r *Run, w *World) {
	x := loadAup(r, w)
	if !x.ok {
		return
	}
	scope := x.scope()
	for _, f := range scope {
		r.UseFn(fnName(f))
	}
	boundsRule(r, w, "C05.R1", "auparse", scope)
	terminationRule(r, w, "C05.R2", scope,
		map[string]string{
			"(auparse.fieldMap).execveArgs": "counted loop `i < int(count)` that returns at the first missing key: at most len(map)+1 iterations",
		},
		map[string]string{
			"auparse.extractKeyValuePairs→auparse.extractKeyValuePairs": "the argument is group 2 of a kvRegex match of the parameter, a strict substring (at least 'k=' shorter), so the depth is bounded by the input length",
		})
	// R3
	x.dataIdempotence("C05.R3")
	// R4
	r.Rule("C05.R4", "errors surface: in ToMapStr the err != nil edge stores the 'error' key with err.Error()", 1)
	{
		fn := x.toMapStr
		undo := autoAlias(fn)
		n := 0
		instrsOf(fn, func(in ssa.Instruction) {
			mu, ok := in.(*ssa.MapUpdate)
			if !ok {
				return
			}
			if k, isC := constString(mu.Key); isC && k == "error" {
				n++
				r.Check(HoldsAt(mu.Block(), "Data#1#1 != nil") && Term(mu.Value) == "Error#1", "ToMapStr error key", mu.Pos(), "", "the 'error' key is not err.Error() under err != nil")
			}
		})
		// the err != nil edge must reach the store: the If on Data#1#1 != nil has the store in its true successor
		ps, _ := Paths(fn, PathOpts{MaxVisit: 1})
		for i, p := range ps {
			if p.End != "return" || !p.HasLit("Data#1#1 != nil") {
				continue
			}
			has := false
			for _, e := range p.Events {
				if mu, ok := e.Instr.(*ssa.MapUpdate); ok && e.Kind == EvMapUpdate {
					if k, isC := constString(mu.Key); isC && k == "error" {
						has = true
					}
				}
			}
			r.Check(has, fmt.Sprintf("ToMapStr path#%d reports the error", i), fn.Pos(), "", "a path with a parse error returns a map without the 'error' key")
		}
		r.Check(n == 1, "one 'error' store", fn.Pos(), "", fmt.Sprintf("%d", n))
		undo()
	}
	r.Rule("C05.R5", "no String/Error method of the repository formats its own receiver under a verb that calls the method again: Data() renders architectures and record types through such methods, and unbounded recursion is a fatal stack overflow", 5)
	noRecursiveFormat(r, w)
}

func firstLits(p *Path, n int) string {
	l := p.Lits()
	if len(l) > n {
		l = l[:n]
	}
	return strings.Join(l, " ∧ ")
}

// ----------------------------------------------------------------------------------------------
// C12

func init() {
	props["C12"] = propC12
	propMeta["C12"] = PropMeta{
		Explanation: "Decoding rules decided as tables recovered from the code: the placeholder set is exactly {\"\", ?, ?,, (null)}; unset ids 4294967295/-1 become 'unset' for exactly auid, old-auid, ses; result is success for yes/1/suc*, else fail, taken from success or else res with the source key deleted; the per-record-type enrichment dispatch (which keys are decoded for which record type) equals the documented table; the hex alphabet is 0-9A-F only and decoding is attempted on the original token (so quoted values are never hex-decoded); sockaddr slices, family constants and minimum lengths equal twice the byte offsets of sockaddr_in/in6/un; arch/syscall/exit go through the published tables with exit >= 0 left unchanged.",
		NotDecided:  "That decode(encode(x)) == x for all byte strings, addresses and ports (round-trip equality over unbounded value domains); kvRegex's tokenisation of arbitrary values.",
		Assumptions: []string{"frozen sockaddr layout under /verif/ref/sockaddr_layout.json (Linux UAPI, architecture independent)"},
	}
}

type sockLayout struct {
	Provenance string `json:"provenance"`
	Families   map[string]struct {
		Number int               `json:"number"`
		MinLen int               `json:"min_len_bytes"`
		Fields map[string][2]int `json:"fields"` // byte offsets [lo, hi); hi = -1: to the end
	} `json:"families"`
}

func propC12(r *Run, w *World) {
	x := loadAup(r, w)
	if !x.ok {
		return
	}
	// the text a message is parsed from is the message's own: Data() decodes lazily from
	// RawData, so RawData must not be a view of a buffer somebody else goes on writing
	r.Rule("C12.R7", "a message owns its text: the zero-copy []byte→string view (internal.UnsafeByteSlice2String) is applied only to the freshly decoded output of hexToString; Reassembler.Push hands auparse.Parse a string(rawData) copy of the caller's buffer", 2)
	if uf, err := w.Func("internal", "UnsafeByteSlice2String"); err != nil {
		r.Anchor(err)
	} else {
		n := 0
		for _, cs := range w.CallSites(uf) {
			n++
			// ... or, generally, to bytes the calling function has just produced itself
			okCaller := cs.Kind == "static" && (fnName(cs.Caller) == "auparse.hexToString" || func() bool {
				ci, isCall := cs.Instr.(ssa.CallInstruction)
				if !isCall || len(ci.Common().Args) != 1 {
					return false
				}
				return allPhiLeaves(ci.Common().Args[0], func(v ssa.Value) bool {
					for i := 0; i < 4; i++ {
						if sl, isSl := v.(*ssa.Slice); isSl {
							v = sl.X
							continue
						}
						break
					}
					switch y := v.(type) {
					case *ssa.MakeSlice:
						return true
					case *ssa.Convert:
						_, fromString := y.X.Type().Underlying().(*types.Basic)
						return fromString
					case *ssa.Extract:
						if c, isC := y.Tuple.(*ssa.Call); isC && y.Index == 0 {
							n := calleeName(c)
							return n == "auparse.decodeUppercaseHexString" || n == "encoding/hex.DecodeString"
						}
					}
					return false
				})
			}())
			r.Check(okCaller, "zero-copy string view in "+fnName(cs.Caller), cs.Instr.Pos(), "hexToString's own output", "a []byte is turned into a string without a copy in "+fnName(cs.Caller)+" ("+cs.Kind+"): if the bytes belong to a caller (the netlink receive buffer), the message text changes under the lazily decoding Data()")
		}
		r.Check(n >= 1, "zero-copy view census", uf.Pos(), "", "no call site of UnsafeByteSlice2String found")
	}
	if pf, err := w.Method("libaudit", "Reassembler", "Push"); err != nil {
		r.Anchor(err)
	} else {
		okCopy := false
		for _, c := range callsNamedIn(pf, "auparse.Parse") {
			if len(c.Common().Args) == 2 {
				if cv, isCv := c.Common().Args[1].(*ssa.Convert); isCv && isParamValue(cv.X, pf.Params[2]) {
					okCopy = true
				}
			}
		}
		r.Check(okCopy, "Push parses a copy", pf.Pos(), "auparse.Parse(typ, string(rawData))", "Reassembler.Push does not hand auparse.Parse a string(rawData) copy: the buffered message aliases the caller's buffer")
	}
	// "Data returns the original value" fails first of all when Data does not return: the
	// decoders it runs (hex, sockaddr, SELinux context, key/value extraction) must not index
	// out of range on any record (shared with C05.R1, restricted to what Data reaches)
	boundsRule(r, w, "C12.R6", "auparse", x.w.reachable([]*ssa.Function{x.data}, func(f *ssa.Function) bool {
		return x.w.inPkg(f, "auparse") || x.w.inPkg(f, "internal")
	}))
	cv := func(name string) string {
		c, err := w.Const("auparse", name)
		if err != nil {
			r.Anchor(err)
			return "?"
		}
		return constVal(c)
	}
	// R1
	r.Rule("C12.R1", "placeholders and derived fields: dropped values are exactly \"\", ?, ?,, (null); 4294967295/-1 become 'unset' for exactly auid, old-auid, ses; result = success for yes/1/prefix suc else fail, from success or else res, source key deleted", 8)
	{
		fn := x.extractKV
		undo := autoAlias(fn)
		var got []string
		okArms := true
		for _, arm := range switchArms(fn) {
			if arm.Subject != "trimQuotesAndSpace#1" {
				continue
			}
			got = append(got, constKey(arm.Const))
			// the arm must continue the loop without adding
			if !armSkips(arm.Arm, fn) {
				okArms = false
			}
		}
		sort.Strings(got)
		want := []string{"", "(null)", "?", "?,"}
		r.Check(strings.Join(got, "|") == strings.Join(want, "|") && okArms, "placeholder set", fn.Pos(), fmt.Sprintf("%q", got), fmt.Sprintf("values dropped are %q (want %q), or a placeholder arm does not skip the pair", got, want))
		// what is added: key = group 1, field{orig: group 2, value: trimmed group 2}
		adds := callsNamedIn(fn, "(auparse.fieldMap).add")
		okAdd := false
		for _, a := range adds {
			args := a.Common().Args
			if strings.HasSuffix(Term(args[1]), "][1]") {
				var orig, val string
				for _, st := range storesOf(fn) {
					t := AddrTerm(st.Addr)
					if strings.HasSuffix(t, ".orig") {
						orig = Term(st.Val)
					}
					if strings.HasSuffix(t, ".value") {
						val = Term(st.Val)
					}
				}
				okAdd = strings.HasSuffix(orig, "][2]") && val == "trimQuotesAndSpace#1"
			}
		}
		r.Check(okAdd, "pair added as {orig: token, value: trimmed token}", fn.Pos(), "", "the extracted pair is not stored as key → {original token, trimmed value}")
		undo()
		// trimQuotesAndSpace
		if tq, err := w.Func("auparse", "trimQuotesAndSpace"); err == nil {
			rets := returnsOf(tq)
			r.Check(len(rets) == 1 && Term(rets[0].Results[0]) == "strings.Trim(p0, \"'\\\" \")", "trimQuotesAndSpace", tq.Pos(), "", "trimQuotesAndSpace is not strings.Trim(v, `'\" `)")
		} else {
			r.Anchor(err)
		}
	}
	{
		if nu, err := w.Method("auparse", "fieldMap", "normalizeUnsetID"); err != nil {
			r.Anchor(err)
		} else {
			var got []string
			okEff := true
			for _, arm := range switchArms(nu) {
				if !strings.HasSuffix(arm.Subject, ".value") {
					continue
				}
				got = append(got, constKey(arm.Const))
				calls := 0
				for _, in := range arm.Arm.Instrs {
					if c, ok := in.(*ssa.Call); ok && calleeName(c) == "(auparse.fieldMap).setFieldValue" {
						calls++
						s, _ := constString(c.Call.Args[2])
						if s != "unset" || c.Call.Args[1] != ssa.Value(nu.Params[1]) {
							okEff = false
						}
					}
				}
				if calls != 1 {
					okEff = false
				}
			}
			sort.Strings(got)
			r.Check(strings.Join(got, "|") == "-1|4294967295" && okEff, "unset ids", nu.Pos(), "", fmt.Sprintf("unset spellings are %q or the value is not replaced by 'unset'", got))
			var keys []string
			for _, s := range w.CallSites(nu) {
				if !x.w.ownedBy(s.Caller, x.enrich) {
					r.Fail("normalizeUnsetID called from "+fnName(s.Caller), s.Instr.Pos(), "")
					continue
				}
				k, _ := constString(s.Instr.(ssa.CallInstruction).Common().Args[1])
				keys = append(keys, k)
			}
			sort.Strings(keys)
			r.Check(strings.Join(keys, "|") == "auid|old-auid|ses", "unset applies to auid, old-auid, ses", x.enrich.Pos(), "", fmt.Sprintf("normalizeUnsetID is applied to %q", keys))
		}
	}
	{
		if res, err := w.Method("auparse", "fieldMap", "result"); err != nil {
			r.Anchor(err)
		} else {
			undo := autoAlias(res)
			ps, _ := Paths(res, PathOpts{})
			for i, p := range ps {
				key := fmt.Sprintf("result path#%d [%s]", i, strings.Join(p.Lits(), " ∧ "))
				adds := p.CallsNamed("(auparse.fieldMap).add")
				dels := p.CallsNamed("(auparse.fieldMap).delete")
				ret := p.Ret()
				if p.HasLit("find#1#1 != nil") && p.HasLit("find#2#1 != nil") {
					r.Check(len(adds) == 0 && len(dels) == 0 && ret != nil && !isNilConst(ret.Results[0]), key, res.Pos(), "neither key: error, nothing changed", "result() changes the map although neither success nor res exists")
					continue
				}
				src := "success"
				if p.HasLit("find#1#1 != nil") {
					src = "res"
				}
				okDel := len(dels) == 1
				if okDel {
					// the key deleted on this path (a variable set where the key was found is resolved along the path)
					k, _ := constString(p.Resolve(dels[0].Instr.(*ssa.Call).Call.Args[1]))
					okDel = k == src
				}
				pos := p.HasLit("ToLower#1 == \"yes\"") || p.HasLit("ToLower#1 == \"1\"") || p.HasLit("HasPrefix#1")
				neg := p.HasLit("ToLower#1 != \"yes\"") && p.HasLit("ToLower#1 != \"1\"") && p.HasLit("!HasPrefix#1")
				okAdd := len(adds) == 1
				if okAdd {
					c := adds[0].Instr.(*ssa.Call)
					k, _ := constString(c.Call.Args[1])
					v := ""
					if nf, ok := c.Call.Args[2].(*ssa.Call); ok && len(nf.Call.Args) == 1 {
						v, _ = constString(p.Resolve(nf.Call.Args[0]))
					}
					okAdd = k == "result" && ((pos && v == "success") || (neg && !pos && v == "fail"))
				}
				r.Check(okDel && okAdd, key, res.Pos(), "source key deleted, result = success|fail", "result() does not delete its source key and add result=success for yes/1/suc*, fail otherwise: "+compactPath(p))
			}
			// the tested value is the lower-cased field value; HasPrefix tests "suc"
			okT := true
			nT := 0
			eachInlined(res, func(f *ssa.Function) {
				for _, c := range callsNamedIn(f, "strings.HasPrefix") {
					s, _ := constString(c.Common().Args[1])
					okT = okT && s == "suc" && Term(c.Common().Args[0]) == "ToLower#1"
					nT++
				}
				for _, c := range callsNamedIn(f, "strings.ToLower") {
					// the field's parsed value, whichever of the source keys it came from
					okT = okT && allPhiLeaves(c.Common().Args[0], func(v ssa.Value) bool { return strings.HasSuffix(TermAt(v, c.Block()), ".value") })
					nT++
				}
			})
			okT = okT && nT == 2
			r.Check(okT, "result tests the lower-cased value", res.Pos(), "", "result() does not test strings.ToLower(field.value) against yes/1/suc")
			undo()
		}
	}

	// R2 dispatch
	r.Rule("C12.R2", "enrichment dispatch: for each record type the set of decoded keys equals the documented table (all: auid/old-auid/ses unset, subj, result, exit, key, cwd; SYSCALL/SECCOMP: arch, syscall, exe (+sig); SOCKADDR: saddr; PROCTITLE: proctitle; USER_CMD: cmd; TTY/USER_TTY: data; EXECVE: argc/aN; PATH: obj, name; USER_LOGIN: acct)", 12)
	{
		fn := x.enrich
		common := "normalizeUnsetID(auid) normalizeUnsetID(old-auid) normalizeUnsetID(ses) parseSELinuxContext(subj) result exit auditRuleKeyNew hexDecode(cwd)"
		want := map[string]string{
			cv("AUDIT_SECCOMP"):    "setSignalName arch setSyscallName hexDecode(exe)",
			cv("AUDIT_SYSCALL"):    "arch setSyscallName hexDecode(exe)",
			cv("AUDIT_SOCKADDR"):   "saddr",
			cv("AUDIT_PROCTITLE"):  "hexDecode(proctitle)",
			cv("AUDIT_USER_CMD"):   "hexDecode(cmd)",
			cv("AUDIT_TTY"):        "hexDecode(data)",
			cv("AUDIT_USER_TTY"):   "hexDecode(data)",
			cv("AUDIT_EXECVE"):     "execveArgs",
			cv("AUDIT_PATH"):       "parseSELinuxContext(obj) hexDecode(name)",
			cv("AUDIT_USER_LOGIN"): "hexDecode(acct)",
			"default":              "",
		}
		ps, complete := Paths(fn, PathOpts{})
		if !complete {
			r.Undecided("enrichData paths", fn.Pos(), "path cap exceeded")
		}
		seen := map[string]bool{}
		for _, p := range ps {
			ret := p.Ret()
			if ret == nil {
				continue
			}
			// success: returns the nil constant, or a value this very path found to be nil
			// (`err = step(); ...; return err` after every step succeeded)
			forwarded := false
			if c, isCall := ret.Results[0].(*ssa.Call); isCall {
				// the result of the last step is handed on untested: the path on which every
				// earlier step succeeded and the last one decides
				var last ssa.Instruction
				for _, e := range p.Events {
					if e.Kind == EvCall {
						last = e.Instr
					}
				}
				forwarded = last == ssa.Instruction(c) && !p.HasLit(Term(c)+" != nil")
			}
			if !isNilConst(ret.Results[0]) && !p.HasLit(Term(ret.Results[0])+" == nil") && !forwarded {
				continue // error exits
			}
			// must be the all-success path: no `!= nil` literal
			failed := false
			for _, l := range p.Lits() {
				if strings.HasSuffix(l, " != nil") {
					failed = true
				}
			}
			if failed {
				r.Fail("enrichData success-with-error", fn.Pos(), "enrichData returns nil although a decoder failed: "+compactPath(p))
				continue
			}
			typ := "default"
			for _, l := range p.Lits() {
				if strings.HasPrefix(l, "p0.RecordType == ") {
					typ = strings.TrimPrefix(l, "p0.RecordType == ")
				}
			}
			var seq []string
			for _, e := range p.Events {
				if e.Kind != EvCall {
					continue
				}
				c := e.Instr.(*ssa.Call)
				n := calleeName(c)
				if i := strings.LastIndex(n, "."); i >= 0 {
					n = n[i+1:]
				}
				for _, a := range c.Call.Args {
					if s, ok := constString(a); ok {
						n += "(" + s + ")"
					}
				}
				seq = append(seq, n)
			}
			got := strings.Join(seq, " ")
			w, known := want[typ]
			exp := strings.TrimSpace(common + " " + w)
			seen[typ] = true
			if !known {
				r.Fail("enrichData type "+typ, fn.Pos(), "record type "+typ+" has an enrichment arm that is not in the documented table: "+got)
				continue
			}
			r.Check(got == exp, "enrichData type "+typ, fn.Pos(), got, fmt.Sprintf("record type %s is enriched by [%s]; the documented table says [%s]", typ, got, exp))
		}
		for t := range want {
			if !seen[t] {
				r.Fail("enrichData type "+t, fn.Pos(), "record type "+t+" is no longer enriched on any path")
			}
		}
		// each decoder's failure is returned
		for _, p := range ps {
			ret := p.Ret()
			if ret == nil || isNilConst(ret.Results[0]) {
				continue
			}
			if c, isCall := ret.Results[0].(*ssa.Call); isCall && !p.HasLit(Term(c)+" != nil") {
				var last ssa.Instruction
				for _, e := range p.Events {
					if e.Kind == EvCall {
						last = e.Instr
					}
				}
				if last == ssa.Instruction(c) {
					continue // the last step's result handed on untested: its error, if any, is what is returned
				}
			}
			r.Check(HoldsAt(ret.Block(), Term(ret.Results[0])+" != nil") || p.HasLit(Term(ret.Results[0])+" != nil"), "enrichData error exit "+Term(ret.Results[0]), ret.Pos(), "", "an error exit of enrichData returns something other than the failed decoder's error")
		}
	}

	// R3 hex
	r.Rule("C12.R3", "hex alphabet is 0-9A-F only; every decoder works on the original token (field.orig), so quoted values are never hex-decoded; decodeUppercaseHex rejects odd lengths; hexToString/hexToStrings decode the whole token and look for NUL in the decoded bytes, never in the hex text", 6)
	for _, name := range []string{"hexToString", "hexToStrings"} {
		fn, err := w.Func("auparse", name)
		if err != nil {
			r.Anchor(err)
			continue
		}
		// the parameter is used for nothing but the decoder (and len): any search or cut on the
		// hex text would see nibble pairs that straddle two bytes
		okUse := true
		detail := ""
		if refs := fn.Params[0].Referrers(); refs != nil {
			for _, rf := range *refs {
				switch u := rf.(type) {
				case *ssa.Call:
					n := calleeName(u)
					if n == "auparse.decodeUppercaseHexString" || n == "len" {
						continue
					}
					okUse, detail = false, "the hex text is passed to "+n
				case *ssa.DebugRef:
				default:
					okUse, detail = false, "the hex text is used by "+Term(rf.(ssa.Value))
				}
			}
		}
		decs := callsNamedIn(fn, "auparse.decodeUppercaseHexString")
		okDec := len(decs) == 1 && isParamValue(decs[0].Common().Args[0], fn.Params[0])
		r.Check(okUse && okDec, name+" decodes the whole token", fn.Pos(), "decodeUppercaseHexString(h); NUL handling on the decoded bytes",
			name+" does not hand its whole argument to the decoder and nothing else: "+detail+" (a \"00\" in the hex text need not be a NUL byte: \"200A\" is \" \\n\")")
	}
	{
		if fh, err := w.Func("auparse", "fromHexChar"); err != nil {
			r.Anchor(err)
		} else {
			ok := 0
			for _, ret := range retEdges(fh) {
				if len(ret.Results) != 2 {
					ok = -10
					continue
				}
				t := Term(ret.Results[0]) + "," + Term(ret.Results[1])
				g := ret.Lits()
				switch t {
				case "(p0 - 48),true":
					if containsStr(g, "p0 >= 48") && containsStr(g, "p0 <= 57") {
						ok++
					}
				case "((p0 - 65) + 10),true":
					if containsStr(g, "p0 >= 65") && containsStr(g, "p0 <= 70") {
						ok++
					}
				case "0,false":
					ok++
				default:
					ok = -10
				}
			}
			r.Check(ok == 3, "fromHexChar", fh.Pos(), "'0'-'9' → 0-9, 'A'-'F' → 10-15, else invalid", "fromHexChar accepts characters outside 0-9A-F or maps them to other values")
		}
		for _, spec := range []struct{ typ, fn, callee, suffix string }{
			{"fieldMap", "hexDecode", "auparse.hexToStrings", ".orig"},
			{"fieldMap", "execveArgs", "auparse.hexToString", ".orig"},
			{"AuditMessage", "auditRuleKeyNew", "auparse.decodeUppercaseHexString", ".orig"},
		} {
			fn, err := w.Method("auparse", spec.typ, spec.fn)
			if err != nil {
				r.Anchor(err)
				continue
			}
			calls := callsNamedIn(fn, spec.callee)
			ok := len(calls) == 1 && strings.HasSuffix(Term(calls[0].Common().Args[0]), spec.suffix)
			r.Check(ok, spec.fn+" decodes the original token", fn.Pos(), "", spec.fn+" hex-decodes something other than the field's original token")
		}
		// the decoder proper: decodeUppercaseHex, or decodeUppercaseHexString when the two are one function
		var cands []*ssa.Function
		if du, err := w.Func("auparse", "decodeUppercaseHex"); err == nil {
			cands = append(cands, du)
		}
		if ds, err := w.Func("auparse", "decodeUppercaseHexString"); err == nil {
			cands = append(cands, ds)
		} else if len(cands) == 0 {
			r.Anchor(err)
		}
		if len(cands) > 0 {
			okOdd, okW := false, false
			for _, du := range cands {
				for _, ret := range retEdges(du) {
					ev, _ := errResultE(ret)
					if ev == nil || isNilConst(ev) {
						continue
					}
					for k := range du.Params {
						if ret.Holds(fmt.Sprintf("(len(p%d) %% 2) == 1", k)) || ret.Holds(fmt.Sprintf("(len(p%d) %% 2) != 0", k)) {
							okOdd = true
						}
					}
				}
				// byte = a<<4 | b, stored into the output or appended to it
				instrsOf(du, func(in ssa.Instruction) {
					switch x := in.(type) {
					case *ssa.Store:
						if strings.Contains(Term(x.Val), " << 4) | ") && !strings.HasPrefix(AddrTerm(x.Addr), "local.") || strings.Contains(AddrTerm(x.Addr), "varargs") && strings.Contains(Term(x.Val), " << 4) | ") {
							okW = true
						}
					}
				})
			}
			r.Check(okOdd, "odd length rejected", cands[0].Pos(), "", "the upper-case hex decoder does not reject odd-length input")
			r.Check(okW, "byte = hi<<4 | lo", cands[0].Pos(), "", "decoded byte is not (a << 4) | b")
		}
	}

	// R4 sockaddr
	r.Rule("C12.R4", "sockaddr layout: family from s[2:4]+s[0:2]; family constants 1/2/10/16; port/address/flow slices and minimum lengths equal twice the byte offsets of sockaddr_in/in6/un", 10)
	{
		var lay sockLayout
		b, err := os.ReadFile(filepath.Join(verifDir(), "ref", "sockaddr_layout.json"))
		if err == nil {
			err = json.Unmarshal(b, &lay)
		}
		ps, errF := w.Func("auparse", "parseSockaddr")
		if err != nil || errF != nil {
			if err != nil {
				r.Undecided("sockaddr reference", token.NoPos, err.Error())
			}
			if errF != nil {
				r.Anchor(errF)
			}
		} else {
			undo := autoAlias(ps)
			// family
			okFam := false
			for _, c := range callsNamedIn(ps, "auparse.hexToDec") {
				if termAlias[c.Value()] == "hexToDec#1" {
					okFam = Term(c.Common().Args[0]) == "(p0[2:4] + p0[:2])"
				}
			}
			r.Check(okFam, "family = host-order s[2:4]+s[0:2]", ps.Pos(), "", "the address family is not read from the first two bytes in host order")
			r.Check(guardBeforeAll(ps, "len(p0) >= 4"), "len(s) >= 4 before the family is read", ps.Pos(), "", "the family is read without len(s) >= 4")
			arms := map[string]*ssa.BasicBlock{}
			for _, arm := range switchArms(ps) {
				if arm.Subject == "hexToDec#1#0" {
					arms[constKey(arm.Const)] = arm.Arm
				}
			}
			for name, fam := range lay.Families {
				arm, ok := arms[fmt.Sprint(fam.Number)]
				if !ok {
					r.Fail("family "+name, ps.Pos(), fmt.Sprintf("no case for address family %d", fam.Number))
					continue
				}
				// collect slices of p0 in blocks dominated by the arm
				got := map[string]bool{}
				minOK := fam.MinLen == 0
				for _, b := range ps.Blocks {
					if b != arm && !arm.Dominates(b) {
						continue
					}
					for _, in := range b.Instrs {
						if sl, ok := in.(*ssa.Slice); ok && isParamValue(sl.X, ps.Params[0]) {
							got[Term(sl)] = true
							if fam.MinLen > 0 && !HoldsAt(b, fmt.Sprintf("len(p0) >= %d", 2*fam.MinLen)) {
								minOK = false
								r.Fail("family "+name+" slice unguarded", sl.Pos(), fmt.Sprintf("%s is taken without len(s) >= %d", Term(sl), 2*fam.MinLen))
							} else if fam.MinLen > 0 {
								minOK = true
							}
						}
					}
				}
				var wantS []string
				for fname, off := range fam.Fields {
					if fname == "family" {
						continue
					}
					hi := ""
					if off[1] >= 0 {
						hi = fmt.Sprint(2 * off[1])
					}
					wantS = append(wantS, fmt.Sprintf("p0[%d:%s]", 2*off[0], hi))
				}
				sort.Strings(wantS)
				var gotS []string
				for g := range got {
					gotS = append(gotS, g)
				}
				sort.Strings(gotS)
				r.Check(strings.Join(gotS, " ") == strings.Join(wantS, " ") && minOK, "family "+name+" slices", arm.Instrs[0].Pos(), strings.Join(gotS, " "),
					fmt.Sprintf("family %s (%d) is decoded from %v; struct layout says %v with minimum length %d hex digits", name, fam.Number, gotS, wantS, 2*fam.MinLen))
			}
			undo()
		}
		// hexToIP
		if hi, err := w.Func("auparse", "hexToIP"); err == nil {
			var sl []string
			instrsOf(hi, func(in ssa.Instruction) {
				if s, ok := in.(*ssa.Slice); ok && isParamValue(s.X, hi.Params[0]) {
					sl = append(sl, Term(s))
					r.Check(HoldsAt(s.Block(), "len(p0) == 8"), "hexToIP slice "+Term(s), s.Pos(), "", "IPv4 octet slice without len(h) == 8")
				}
			})
			r.Check(strings.Join(sl, " ") == "p0[:2] p0[2:4] p0[4:6] p0[6:8]", "hexToIP octets", hi.Pos(), "", "IPv4 octets are not h[0:2] h[2:4] h[4:6] h[6:8]: "+strings.Join(sl, " "))
			okFmt, how := dottedQuad(hi)
			r.Check(okFmt, "hexToIP dotted quad", hi.Pos(), how, "IPv4 is not printed as four decimal octets h[0:2].h[2:4].h[4:6].h[6:8] in that order: "+how)
		} else {
			r.Anchor(err)
		}
	}

	// R4 (width): hexToDec holds the widest field it is asked to decode
	if hd, err := w.Func("auparse", "hexToDec"); err != nil {
		r.Anchor(err)
	} else {
		maxDigits := int64(0)
		where := ""
		var digits func(v ssa.Value) (int64, bool)
		digits = func(v ssa.Value) (int64, bool) {
			switch y := v.(type) {
			case *ssa.Slice:
				lo := int64(0)
				if y.Low != nil {
					k, ok := constInt(y.Low)
					if !ok {
						return 0, false
					}
					lo = k
				}
				if y.High == nil {
					return 0, false
				}
				hi, ok := constInt(y.High)
				if !ok {
					return 0, false
				}
				return hi - lo, true
			case *ssa.BinOp:
				if y.Op == token.ADD {
					a, ok1 := digits(y.X)
					b, ok2 := digits(y.Y)
					return a + b, ok1 && ok2
				}
			}
			return 0, false
		}
		nSites := 0
		for _, cs := range w.CallSites(hd) {
			ci, isCall := cs.Instr.(ssa.CallInstruction)
			if !isCall || len(ci.Common().Args) < 1 {
				continue
			}
			nSites++
			if d, ok := digits(ci.Common().Args[0]); ok && d > maxDigits {
				maxDigits = d
				where = w.Prog.Fset.Position(cs.Instr.Pos()).String()
			}
		}
		okW := false
		got := "no strconv.ParseInt/ParseUint(_, 16, n) found"
		for _, name := range []string{"strconv.ParseInt", "strconv.ParseUint"} {
			for _, c := range callsNamedIn(hd, name) {
				if len(c.Common().Args) == 3 && isConstInt(c.Common().Args[1], 16) {
					if bits, isK := constInt(c.Common().Args[2]); isK {
						got = fmt.Sprintf("%s(_, 16, %d)", name, bits)
						okW = bits == 0 || bits >= 4*maxDigits
					} else if par, isPar := c.Common().Args[2].(*ssa.Parameter); isPar {
						// the width is a parameter: each caller's constant against the field it passes
						idx := -1
						for pi, pp := range hd.Params {
							if pp == par {
								idx = pi
							}
						}
						okW = idx >= 0
						got = name + "(_, 16, <parameter>)"
						for _, cs := range w.CallSites(hd) {
							ci, isCall := cs.Instr.(ssa.CallInstruction)
							if !isCall || idx < 0 || idx >= len(ci.Common().Args) {
								okW = false
								continue
							}
							b, isB := constInt(ci.Common().Args[idx])
							d, okD := digits(ci.Common().Args[0])
							if !isB || !okD || (b != 0 && b < 4*d) {
								okW = false
								got = fmt.Sprintf("%s(_, 16, %s) for a field of %d hex digits", name, Term(ci.Common().Args[idx]), d)
							}
						}
					}
				}
			}
		}
		r.Check(okW && nSites >= 4 && maxDigits >= 8, "hexToDec is wide enough", hd.Pos(), fmt.Sprintf("widest field: %d hex digits", maxDigits),
			fmt.Sprintf("hexToDec parses with %s but is given a field of %d hex digits (%s; sin6_flowinfo is 32 bits): a valid record fails to decode and loses its address and port", got, maxDigits, where))
	}

	// R5 table lookups
	r.Rule("C12.R5", "table lookups: arch through AuditArch.String, syscall through AuditSyscalls[arch][n], negative exit through AuditErrnoToName[-n] with exit >= 0 left unchanged", 3)
	{
		if fn, err := w.Method("auparse", "fieldMap", "arch"); err == nil {
			undo := autoAlias(fn)
			ok := false
			for _, c := range callsNamedIn(fn, "(auparse.fieldMap).setFieldValue") {
				a := c.Common().Args
				k, _ := constString(a[1])
				ok = k == "arch" && Term(a[2]) == "String#1"
			}
			for _, c := range callsNamedIn(fn, "(auparse.AuditArch).String") {
				ok = ok && Term(c.Common().Args[0]) == "auparse.AuditArch(ParseInt#1#0)"
			}
			for _, c := range callsNamedIn(fn, "strconv.ParseInt") {
				ok = ok && isConstInt(c.Common().Args[1], 16) && strings.HasSuffix(Term(c.Common().Args[0]), ".value")
			}
			r.Check(ok, "arch", fn.Pos(), "arch = AuditArch(hex value).String()", "arch is not rendered through AuditArch.String of the hexadecimal value")
			undo()
		} else {
			r.Anchor(err)
		}
		if fn, err := w.Method("auparse", "fieldMap", "setSyscallName"); err == nil {
			undo := autoAlias(fn)
			ok := false
			for _, c := range callsNamedIn(fn, "(auparse.fieldMap).setFieldValue") {
				a := c.Common().Args
				k, _ := constString(a[1])
				t := Term(a[2])
				ok = k == "syscall" && strings.HasPrefix(t, "auparse.AuditSyscalls[") && strings.HasSuffix(t, ".value][Atoi#1#0]") && HoldsAt(c.Block(), "has("+strings.TrimSuffix(t, "[Atoi#1#0]")+", Atoi#1#0)")
			}
			r.Check(ok, "syscall", fn.Pos(), "AuditSyscalls[arch][n] when found", "syscall is not translated through AuditSyscalls[arch.value][number] (when present)")
			undo()
		} else {
			r.Anchor(err)
		}
		if fn, err := w.Method("auparse", "fieldMap", "exit"); err == nil {
			undo := autoAlias(fn)
			ok := false
			for _, c := range callsNamedIn(fn, "(auparse.fieldMap).setFieldValue") {
				a := c.Common().Args
				k, _ := constString(a[1])
				ok = k == "exit" && Term(a[2]) == "auparse.AuditErrnoToName[-Atoi#1#0]" && HoldsAt(c.Block(), "Atoi#1#0 < 0") &&
					HoldsAt(c.Block(), "has(auparse.AuditErrnoToName, -Atoi#1#0)")
			}
			r.Check(ok, "exit", fn.Pos(), "negative exit → errno name", "negative exit codes are not translated through AuditErrnoToName[-code] (non-negative left unchanged)")
			undo()
		} else {
			r.Anchor(err)
		}
	}
}

// armSkips: the arm block leads back to the loop header without calling add.
func armSkips(b *ssa.BasicBlock, fn *ssa.Function) bool {
	for steps := 0; steps < 3; steps++ {
		for _, in := range b.Instrs {
			if c, ok := in.(*ssa.Call); ok && strings.HasSuffix(calleeName(c), ".add") {
				return false
			}
		}
		if len(b.Succs) != 1 {
			// reached a branching block: fine if it is a loop header
			for _, l := range NaturalLoops(fn) {
				if l.Header == b {
					return true
				}
			}
			return false
		}
		b = b.Succs[0]
	}
	return false
}

// guardBeforeAll: every slice/index of p0 in fn is dominated by lit.
func guardBeforeAll(fn *ssa.Function, lit string) bool {
	ok := true
	instrsOf(fn, func(in ssa.Instruction) {
		if sl, isSl := in.(*ssa.Slice); isSl && isParamValue(sl.X, fn.Params[0]) {
			if !HoldsAt(sl.Block(), lit) {
				ok = false
			}
		}
	})
	return ok
}

// dottedQuad reports whether fn renders an IPv4 address as the four decimal octets decoded
// from p0[:2], p0[2:4], p0[4:6], p0[6:8], in that order, separated by dots. Two spellings are
// recognised: fmt.Sprintf("%d.%d.%d.%d", a1, a2, a3, a4) and a concatenation of decimal
// conversions (strconv.Itoa / FormatInt(…, 10) / FormatUint(…, 10)) with "." literals.
func dottedQuad(fn *ssa.Function) (bool, string) {
	want := []string{"p0[:2]", "p0[2:4]", "p0[4:6]", "p0[6:8]"}
	// octet returns the slice term the integer value v was decoded from
	octet := func(v ssa.Value) string {
		for i := 0; i < 6; i++ {
			switch x := v.(type) {
			case *ssa.Convert:
				v = x.X
				continue
			case *ssa.ChangeType:
				v = x.X
				continue
			case *ssa.MakeInterface:
				v = x.X
				continue
			case *ssa.Extract:
				if x.Index != 0 {
					return Term(x)
				}
				if c, ok := x.Tuple.(*ssa.Call); ok && len(c.Call.Args) >= 1 {
					return Term(c.Call.Args[0])
				}
			case *ssa.Call:
				if len(x.Call.Args) >= 1 && x.Call.Signature().Results().Len() == 1 {
					return Term(x.Call.Args[0])
				}
			}
			break
		}
		return Term(v)
	}
	decimal := func(v ssa.Value) (ssa.Value, bool) {
		c, ok := v.(*ssa.Call)
		if !ok {
			return nil, false
		}
		switch calleeName(c) {
		case "strconv.Itoa":
			return c.Call.Args[0], true
		case "strconv.FormatInt", "strconv.FormatUint":
			if b, ok := constInt(c.Call.Args[1]); ok && b == 10 {
				return c.Call.Args[0], true
			}
		}
		return nil, false
	}
	how := "no rendering found"
	found := false
	instrsOf(fn, func(in ssa.Instruction) {
		if found {
			return
		}
		var got []string
		switch x := in.(type) {
		case *ssa.Call:
			if calleeName(x) != "fmt.Sprintf" {
				return
			}
			f, _ := constString(x.Call.Args[0])
			if f != "%d.%d.%d.%d" {
				how = fmt.Sprintf("Sprintf format %q", f)
				return
			}
			for _, e := range varargElems(x, 1) {
				if e == nil {
					got = append(got, "?")
					continue
				}
				got = append(got, octet(e))
			}
		case *ssa.BinOp:
			parts := renderParts(x)
			if len(parts) != 7 {
				return
			}
			// only the outermost concatenation
			if refs := x.Referrers(); refs != nil {
				for _, rr := range *refs {
					if b, ok := rr.(*ssa.BinOp); ok && b.Op == token.ADD {
						return
					}
				}
			}
			for i, p := range parts {
				if i%2 == 1 {
					if p.Val != nil || p.Lit != "." {
						how = "separator is not \".\""
						return
					}
					continue
				}
				if p.Val == nil {
					return
				}
				d, ok := decimal(p.Val)
				if !ok {
					how = "operand " + Term(p.Val) + " is not a decimal conversion"
					return
				}
				got = append(got, octet(d))
			}
		default:
			return
		}
		how = strings.Join(got, ".")
		if strings.Join(got, " ") == strings.Join(want, " ") {
			found = true
		}
	})
	return found, how
}

// allPhiLeaves: pred holds for every non-phi value that can flow into v through phis.
func allPhiLeaves(v ssa.Value, pred func(ssa.Value) bool) bool {
	seen := map[*ssa.Phi]bool{}
	var walk func(v ssa.Value) bool
	walk = func(v ssa.Value) bool {
		if ph, ok := v.(*ssa.Phi); ok {
			if seen[ph] {
				return true
			}
			seen[ph] = true
			for _, e := range ph.Edges {
				if !walk(e) {
					return false
				}
			}
			return true
		}
		return pred(v)
	}
	return walk(v)
}
