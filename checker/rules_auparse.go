package main

func c04UnknownRoundTrip(r *Run, w *World, ruleID string) {}
