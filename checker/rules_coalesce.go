package main

// Rules over aucoalesce: C09, C15.

import (
	"fmt"
	"go/token"
	"go/types"
	"sort"
	"strings"

	"golang.org/x/tools/go/ssa"
)

type coal struct {
	r *Run
	w *World

	coalesce, normCompound, newEvent, addProcess, setSourceIP, setFileObject, addFields, addSock, addPath, addExecve *ssa.Function
	addSubjAttr, addSubjLabel, applyNorm, resolveIDs, resolveIDsCaches                                               *ssa.Function
	dataFn, tagsFn                                                                                                   *ssa.Function
	fWarnings, fEvData                                                                                               *types.Var
	ok                                                                                                               bool
}

func loadCoal(r *Run, w *World) *coal {
	x := &coal{r: r, w: w, ok: true}
	fn := func(name string) *ssa.Function {
		f, err := w.Func("aucoalesce", name)
		if err != nil {
			r.Anchor(err)
			x.ok = false
		}
		return f
	}
	x.coalesce, x.normCompound, x.newEvent = fn("CoalesceMessages"), fn("normalizeCompound"), fn("newEvent")
	x.addProcess, x.setSourceIP, x.setFileObject = fn("addProcess"), fn("setSourceIP"), fn("setFileObject")
	x.addFields, x.addSock, x.addPath, x.addExecve = fn("addFieldsToEventData"), fn("addSockaddrRecord"), fn("addPathRecord"), fn("addExecveRecord")
	x.addSubjAttr, x.addSubjLabel, x.applyNorm = fn("addSubjectAttribute"), fn("addSubjectSELinuxLabel"), fn("applyNormalization")
	x.resolveIDs, x.resolveIDsCaches = fn("ResolveIDs"), fn("ResolveIDsFromCaches")
	var err error
	if x.dataFn, err = w.Method("auparse", "AuditMessage", "Data"); err != nil {
		r.Anchor(err)
		x.ok = false
	}
	if x.tagsFn, err = w.Method("auparse", "AuditMessage", "Tags"); err != nil {
		r.Anchor(err)
		x.ok = false
	}
	if x.fWarnings, err = w.FieldVar("aucoalesce", "Event", "Warnings"); err != nil {
		r.Anchor(err)
		x.ok = false
	}
	if x.fEvData, err = w.FieldVar("aucoalesce", "Event", "Data"); err != nil {
		r.Anchor(err)
		x.ok = false
	}
	return x
}

func (x *coal) scope() []*ssa.Function {
	return x.w.reachable([]*ssa.Function{x.coalesce, x.resolveIDs, x.resolveIDsCaches}, func(f *ssa.Function) bool {
		return x.w.inPkg(f, "aucoalesce")
	})
}

// warningAppended: the block (or a block it dominates up to the next return) appends to Warnings.
func (x *coal) appendsWarning(b *ssa.BasicBlock) bool {
	for _, in := range b.Instrs {
		if st, ok := in.(*ssa.Store); ok {
			if fa, ok := st.Addr.(*ssa.FieldAddr); ok && fieldOfAddr(fa) == x.fWarnings {
				if _, isApp := isAppendCall(st.Val); isApp {
					return true
				}
			}
		}
	}
	return false
}

// ----------------------------------------------------------------------------------------------
// C09

func init() {
	props["C09"] = propC09
	propMeta["C09"] = PropMeta{
		Explanation: "Coalescing decided structurally: every Data() call in aucoalesce has its error tested and the failing edge appends a warning (or returns the error); CoalesceMessages/normalizeCompound return (nil, err) for no records / no SYSCALL record before an event is built; every delete from event.Data is a move (the same key was looked up and stored into an event field first), except the documented 'items'; in the loops that distribute a record's pairs every iteration stores the value into the event or appends a warning, a key may be skipped only if it was consumed explicitly before the loop; the file summary takes name/inode/rdev/ouid/ogid from the selected PATH record into the documented fields and mode & 07777 in octal; the object type must not be derived by applying os.FileMode predicates/constants to a raw st_mode (unit confusion: Go's type bits are not S_IF*); the event identity is read from one message selected before the SYSCALL record replaces it. The record that gives the event its identity is the leading record whenever that is not the SYSCALL record (the only conditions on taking it are first-element and not-SYSCALL).",
		NotDecided:  "That every key of every record type ends up somewhere (EXECVE keys other than argc/aN, a second SYSCALL record), which PATH record is 'the' object, and first-record identity across all record orders.",
		Assumptions: []string{"frozen POSIX S_IF* values (ref/uapi_audit.json stat_modes)"},
	}
}

func propC09(r *Run, w *World) {
	x := loadCoal(r, w)
	if !x.ok {
		return
	}
	pkgFns := w.PkgFuncs("aucoalesce")
	// R1
	r.Rule("C09.R1", "parse failures become warnings: every call of (*AuditMessage).Data in aucoalesce has its error tested and the non-nil edge appends to event.Warnings (or returns the error); a blank Tags() error only after a checked Data() on the same receiver", 5)
	for _, fn := range pkgFns {
		for _, c := range callsIn(fn, x.dataFn) {
			call := c.(*ssa.Call)
			undo := alias(call, "data")
			key := "Data() in " + fnName(fn)
			// find the If on data#1 != nil
			var failBlock *ssa.BasicBlock
			for _, b := range fn.Blocks {
				if ifi, ok := b.Instrs[len(b.Instrs)-1].(*ssa.If); ok {
					switch Lit(ifi.Cond, true) {
					case "data#1 != nil":
						failBlock = b.Succs[0]
					case "data#1 == nil":
						failBlock = b.Succs[1]
					}
				}
			}
			if failBlock == nil {
				r.Fail(key, call.Pos(), "the error of Data() is not tested")
				undo()
				continue
			}
			ok := x.appendsWarning(failBlock)
			if !ok {
				// or returns the error
				if ret, isRet := failBlock.Instrs[len(failBlock.Instrs)-1].(*ssa.Return); isRet {
					for _, rv := range ret.Results {
						if Term(rv) == "data#1" {
							ok = true
						}
					}
				}
			}
			// the failing edge must not go on to use the data
			r.Check(ok, key, call.Pos(), "failing edge appends a warning", "a Data() failure is neither recorded in event.Warnings nor returned")
			undo()
		}
		for _, c := range callsIn(fn, x.tagsFn) {
			call := c.(*ssa.Call)
			// error index 1 unused?
			used := false
			if refs := call.Referrers(); refs != nil {
				for _, ref := range *refs {
					if ex, ok := ref.(*ssa.Extract); ok && ex.Index == 1 && ex.Referrers() != nil && len(*ex.Referrers()) > 0 {
						used = true
					}
				}
			}
			if used {
				r.OK("Tags() in "+fnName(fn), call.Pos(), "error used")
				continue
			}
			// accept when dominated by a Data() call on the same receiver whose error was tested == nil
			ok := false
			for _, dc := range callsIn(fn, x.dataFn) {
				d := dc.(*ssa.Call)
				if d.Call.Args[0] == call.Call.Args[0] {
					undo := alias(d, "data")
					if HoldsAt(call.Block(), "data#1 == nil") {
						ok = true
					}
					undo()
				}
			}
			r.Check(ok, "Tags() in "+fnName(fn), call.Pos(), "blank error after a checked Data() on the same message", "the error of Tags() is dropped without a preceding checked Data() on the same message")
		}
	}
	// R2
	r.Rule("C09.R2", "error instead of partial event: CoalesceMessages returns (nil, err) for no records; normalizeCompound returns (nil, err) when there is no SYSCALL record, before newEvent", 2)
	{
		undo := autoAlias(x.coalesce)
		okE := false
		for _, ret := range retEdges(x.coalesce) {
			if ret.Holds("len(filterEOE#1) == 0") {
				okE = isNilConst(ret.Results[0]) && !isNilConst(ret.Results[1])
			}
		}
		r.Check(okE, "CoalesceMessages: empty → (nil, err)", x.coalesce.Pos(), "", "CoalesceMessages does not return (nil, error) for an empty group")
		undo()
		ps, _ := Paths(x.normCompound, PathOpts{MaxVisit: 2})
		okS, n := true, 0
		for _, p := range ps {
			if p.End != "return" {
				continue
			}
			ret := p.Ret()
			// the branch that tests the SYSCALL record found by the loop (a phi of the loop) against nil
			noSys := false
			for _, e := range p.Events {
				ifi, isIf := e.Instr.(*ssa.If)
				if e.Kind != EvCond || !isIf {
					continue
				}
				c := ifi.Cond
				pol := e.Pol
				for {
					if u, ok := c.(*ssa.UnOp); ok && u.Op == token.NOT {
						c, pol = u.X, !pol
						continue
					}
					break
				}
				if bo, ok := c.(*ssa.BinOp); ok && (bo.Op == token.EQL || bo.Op == token.NEQ) && isNilConst(bo.Y) {
					if _, isPhi := bo.X.(*ssa.Phi); isPhi && (bo.Op == token.EQL) == pol {
						noSys = true
					}
				}
			}
			if noSys {
				n++
				if !(isNilConst(ret.Results[0]) && !isNilConst(ret.Results[1]) && len(p.Calls(x.newEvent)) == 0) {
					okS = false
				}
			}
		}
		r.Check(okS && n > 0, "normalizeCompound: no SYSCALL → (nil, err)", x.normCompound.Pos(), "", "normalizeCompound builds or returns an event although no SYSCALL record was found")
	}
	// R3
	r.Rule("C09.R3", "moves, not drops: every delete(event.Data, k) is preceded in the same function by a lookup of the same key on event.Data whose value is stored into the event; only the SYSCALL item count ('items') is dropped on purpose", 7)
	for _, fn := range pkgFns {
		instrsOf(fn, func(in ssa.Instruction) {
			c, ok := in.(*ssa.Call)
			if !ok || calleeName(c) != "delete" {
				return
			}
			f, base := loadedField(c.Call.Args[0])
			if f != x.fEvData {
				return
			}
			keyT := Term(c.Call.Args[1])
			key := fmt.Sprintf("delete(Data, %s) in %s", keyT, fnName(fn))
			if k, isC := constString(c.Call.Args[1]); isC && k == "items" && fn == x.normCompound {
				r.OK(key+" (exempt)", c.Pos(), "the SYSCALL item count is dropped on purpose (named by the property)")
				return
			}
			moved, returned := false, false
			var movedVals []ssa.Value
			instrsOf(fn, func(in2 ssa.Instruction) {
				lk, ok := in2.(*ssa.Lookup)
				if !ok {
					return
				}
				f2, base2 := loadedField(lk.X)
				if f2 != x.fEvData || Term(base2) != Term(base) || Term(lk.Index) != keyT {
					return
				}
				if !(lk.Block() == c.Block() && orderInBlock(lk) < orderInBlock(c) || lk.Block().Dominates(c.Block()) && lk.Block() != c.Block()) {
					return
				}
				// value stored somewhere in the event
				var val ssa.Value = lk
				if lk.CommaOk {
					val = nil
					if refs := lk.Referrers(); refs != nil {
						for _, rf := range *refs {
							if ex, ok := rf.(*ssa.Extract); ok && ex.Index == 0 {
								val = ex
							}
						}
					}
				}
				if val == nil || val.Referrers() == nil {
					return
				}
				for _, rf := range *val.Referrers() {
					if st, ok := rf.(*ssa.Store); ok && st.Val == val {
						moved = true
						movedVals = append(movedVals, val)
					}
					if _, isRet := rf.(*ssa.Return); isRet {
						returned = true
					}
				}
			})
			if !moved && returned && fn.Parent() == nil && fn.Object() != nil && !fn.Object().Exported() {
				// a take-helper: looks the key up, deletes it and returns the value; the move is
				// completed by each caller, which must store the result into the event
				sites := x.w.CallSitesRaw(fn)
				for _, s := range sites {
					ci, isCall := s.Instr.(*ssa.Call)
					okSite := isCall && s.Kind == "static"
					if okSite {
						okSite = false
						if refs := ci.Referrers(); refs != nil {
							for _, rf := range *refs {
								if st, ok := rf.(*ssa.Store); ok && st.Val == ssa.Value(ci) {
									okSite = true
								}
							}
						}
					}
					argT := "?"
					if isCall {
						for i, par := range fn.Params {
							if ssa.Value(par) == c.Call.Args[1] && i < len(ci.Call.Args) {
								argT = Term(ci.Call.Args[i])
							}
						}
					}
					r.Check(okSite, fmt.Sprintf("delete(Data, %s) in %s via %s", argT, fnName(s.Caller), fnName(fn)), s.Instr.Pos(), "value taken by the helper is stored in the event by the caller",
						"the value removed from event.Data by "+fnName(fn)+" is not stored by this caller: the field is lost")
				}
				if len(sites) > 0 {
					return
				}
			}
			r.Check(moved, key, c.Pos(), "value stored in the event first", "event.Data["+keyT+"] is deleted without its value having been stored elsewhere in the event: the field is lost")
			// ... on every path: a path through the delete that neither stores the value nor ends in
			// a non-nil error (which becomes a warning naming the key) drops the field silently
			if moved && len(movedVals) > 0 {
				ps, complete := Paths(fn, PathOpts{Cap: 4096})
				if complete {
					bad := ""
					for _, p := range ps {
						if p.order(c) < 0 || p.End != "return" {
							continue
						}
						stored := false
						for _, e := range p.Events {
							if st, ok := e.Instr.(*ssa.Store); ok && e.Kind == EvStore {
								for _, mv := range movedVals {
									if st.Val == mv {
										stored = true
									}
								}
							}
						}
						if stored {
							continue
						}
						if ret := p.Ret(); ret != nil {
							if ev, has := errResultP(ret); has && ev != nil && !isNilConst(ev) {
								continue
							}
						}
						bad = compactPath(p)
					}
					r.Check(bad == "", key+" on every path", c.Pos(), "stored or reported on every path through the delete",
						"a path deletes event.Data["+keyT+"] and returns without storing the value or reporting an error: the field vanishes silently: "+bad)
				}
			}
		})
	}
	// R4
	r.Rule("C09.R4", "distribution loops consume every pair: in each loop that ranges over a Data() result, every iteration stores the value into the event (directly or through addSubjectAttribute/addSubjectSELinuxLabel) or appends a warning; a key is skipped only if it was consumed explicitly before the loop", 6)
	for _, h := range []*ssa.Function{x.addSubjAttr, x.addSubjLabel} {
		// helper stores its value parameter under its key parameter
		ok := false
		instrsOf(h, func(in ssa.Instruction) {
			if mu, isMU := in.(*ssa.MapUpdate); isMU && isParamValue(mu.Key, h.Params[0]) && isParamValue(mu.Value, h.Params[1]) {
				ok = true
			}
		})
		// on every path
		ps, _ := Paths(h, PathOpts{})
		for _, p := range ps {
			n := 0
			for _, e := range p.Events {
				if e.Kind == EvMapUpdate {
					n++
				}
			}
			if n != 1 {
				ok = false
			}
		}
		r.Check(ok, fnName(h)+" stores map[key] = value", h.Pos(), "", fnName(h)+" does not store its value under its key on every path")
	}
	for _, fn := range []*ssa.Function{x.newEvent, x.addFields, x.addSock} {
		calls := callsIn(fn, x.dataFn)
		if len(calls) != 1 {
			r.Fail(fnName(fn)+" Data() calls", fn.Pos(), fmt.Sprintf("%d", len(calls)))
			continue
		}
		undo := alias(calls[0].Value(), "data")
		found := false
		for _, l := range NaturalLoops(fn) {
			ifi, ok := l.Header.Instrs[len(l.Header.Instrs)-1].(*ssa.If)
			if !ok || Lit(ifi.Cond, true) != "rangeok(range(data#0))" {
				continue
			}
			found = true
			ps, _ := IterationPathsExit(fn, l)
			for i, p := range ps {
				if p.End != "stop" {
					continue
				}
				key := fmt.Sprintf("%s iteration#%d", fnName(fn), i)
				consumed := false
				for _, e := range p.Events {
					switch e.Kind {
					case EvMapUpdate:
						mu := e.Instr.(*ssa.MapUpdate)
						if Term(mu.Value) == "rangeval(range(data#0))" {
							consumed = true
						}
					case EvCall:
						c, ok := e.Instr.(*ssa.Call)
						if !ok {
							continue
						}
						cal := c.Call.StaticCallee()
						if (cal == x.addSubjAttr || cal == x.addSubjLabel) && Term(c.Call.Args[1]) == "rangeval(range(data#0))" {
							consumed = true
						}
					case EvStore:
						st := e.Instr.(*ssa.Store)
						if fa, ok := st.Addr.(*ssa.FieldAddr); ok && fieldOfAddr(fa) == x.fWarnings {
							consumed = true
						}
					}
				}
				if !consumed {
					// skip allowed for keys consumed explicitly before the loop
					for _, lit := range p.Lits() {
						if strings.HasPrefix(lit, "rangekey(range(data#0)) == ") {
							k := strings.TrimPrefix(lit, "rangekey(range(data#0)) == ")
							if x.consumedBefore(fn, l, "data#0", k) {
								consumed = true
							}
						}
					}
				}
				r.Check(consumed, key, fn.Pos(), "pair stored or warned about", "a key/value pair of the record is dropped silently on this path: "+compactPath(p))
			}
		}
		r.Check(found, fnName(fn)+" ranges over Data()", fn.Pos(), "", "no loop over the Data() result found")
		undo()
	}
	// addPathRecord keeps the whole map; addExecveRecord keeps argc and args
	{
		calls := callsIn(x.addPath, x.dataFn)
		ok := len(calls) == 1
		if ok {
			undo := alias(calls[0].Value(), "data")
			ok = false
			instrsOf(x.addPath, func(in ssa.Instruction) {
				if c, isC := in.(*ssa.Call); isC {
					if _, isApp := isAppendCall(c); isApp {
						base, elems, _, _ := appendParts(c)
						if strings.HasSuffix(Term(base), ".Paths") && len(elems) == 1 && Term(elems[0]) == "data#0" && HoldsAt(c.Block(), "data#1 == nil") {
							ok = true
						}
					}
				}
			})
			undo()
		}
		r.Check(ok, "addPathRecord appends the record's map to Paths", x.addPath.Pos(), "", "a PATH record's fields are not appended to event.Paths")
	}

	// R5
	// who may write the file summary at all
	r.Rule("C09.R5w", "the file summary is written only where it is taken from the selected PATH record: File.Path, Inode, Device, Mode, UID, GID are stored only by setFileObject; Owner and Group only by the ID resolver; SELinux labels only by addFileSELinuxLabel", 6)
	if ft, err := w.Named("aucoalesce", "File"); err != nil {
		r.Anchor(err)
	} else if st, ok := ft.Underlying().(*types.Struct); ok {
		allowed := map[string][]string{
			"Path": {"setFileObject"}, "Inode": {"setFileObject"}, "Device": {"setFileObject"}, "Mode": {"setFileObject"},
			"UID": {"setFileObject"}, "GID": {"setFileObject"},
			"Owner": {"ResolveIDsFromCaches"}, "Group": {"ResolveIDsFromCaches"},
			"SELinux": {"addFileSELinuxLabel", "setFileObject"},
		}
		for i := 0; i < st.NumFields(); i++ {
			fv := st.Field(i)
			names, tracked := allowed[fieldName(fv)]
			if !tracked {
				continue
			}
			for _, a := range Writes(w.FieldAccesses(fv)) {
				owner := rootFn(a.Fn)
				if lo := w.liftOwner(owner); lo != nil {
					owner = lo
				}
				ok := false
				for _, n := range names {
					if fo, isF := owner.Object().(*types.Func); isF && funcObjName(fo) == n {
						ok = true
					}
				}
				r.Check(ok, fmt.Sprintf("File.%s %s in %s", fieldName(fv), a.Kind, fnName(a.Fn)), a.Instr.Pos(), "reviewed writer",
					fmt.Sprintf("File.%s is written (%s) in %s: the file summary no longer mirrors the selected PATH record", fieldName(fv), a.Kind, fnName(a.Fn)))
			}
		}
	}
	r.Rule("C09.R5", "file summary mirrors the selected PATH record: name → File.Path and Summary.Object.Primary, inode → File.Inode, rdev → File.Device, ouid → File.UID, ogid → File.GID; File.Mode is the parsed mode and-ed with 07777, in octal", 6)
	{
		fn := x.setFileObject
		want := map[string][]string{
			"name": {"File.Path", "Summary.Object.Primary"}, "inode": {"File.Inode"}, "rdev": {"File.Device"}, "ouid": {"File.UID"}, "ogid": {"File.GID"},
		}
		got := map[string][]string{}
		var pathVal ssa.Value
		instrsOf(fn, func(in ssa.Instruction) {
			lk, ok := in.(*ssa.Lookup)
			if !ok || !lk.CommaOk {
				return
			}
			k, isC := constString(lk.Index)
			if !isC {
				return
			}
			if _, tracked := want[k]; !tracked {
				return
			}
			if pathVal == nil {
				pathVal = lk.X
			} else if pathVal != lk.X {
				r.Fail("setFileObject reads "+k+" from another map", lk.Pos(), "the file facts are not all read from the one selected PATH record")
			}
			var val *ssa.Extract
			for _, rf := range *lk.Referrers() {
				if ex, ok := rf.(*ssa.Extract); ok && ex.Index == 0 {
					val = ex
				}
			}
			if val == nil || val.Referrers() == nil {
				return
			}
			for _, rf := range *val.Referrers() {
				if st, ok := rf.(*ssa.Store); ok && st.Val == ssa.Value(val) {
					t := AddrTerm(st.Addr)
					t = strings.TrimPrefix(t, "p0.")
					got[k] = append(got[k], t)
				}
			}
		})
		var ks []string
		for k := range want {
			ks = append(ks, k)
		}
		sort.Strings(ks)
		for _, k := range ks {
			g := append([]string{}, got[k]...)
			sort.Strings(g)
			r.Check(strings.Join(g, ",") == strings.Join(want[k], ","), "PATH."+k, fn.Pos(), "→ "+strings.Join(want[k], ","), fmt.Sprintf("PATH field %q is stored into %v; want %v", k, g, want[k]))
		}
		// the selected record: φ over Paths[pathIndex] / a later non-PARENT/UNKNOWN element
		okSel := pathVal != nil && strings.Contains(Term(pathVal), "p0.Paths[")
		r.Check(okSel, "selected record comes from event.Paths", fn.Pos(), "", "the record the summary is read from is not an element of event.Paths")
		// every value the selection can take is a record of the event (never nil or a fresh
		// map: the fall-back to the hinted record must survive), and a record that replaces
		// the hinted one is known not to be a PARENT/UNKNOWN entry
		if okSel {
			seenPhi := map[*ssa.Phi]bool{}
			var leaves func(v ssa.Value, via *ssa.BasicBlock)
			nLeaf, nHint := 0, 0
			leaves = func(v ssa.Value, via *ssa.BasicBlock) {
				if ph, isPhi := v.(*ssa.Phi); isPhi {
					if seenPhi[ph] {
						return
					}
					seenPhi[ph] = true
					for i, e := range ph.Edges {
						leaves(e, ph.Block().Preds[i])
					}
					return
				}
				nLeaf++
				t := Term(v)
				if !strings.HasPrefix(t, "p0.Paths[") {
					r.Fail("selected record "+t, fn.Pos(), "the selected PATH record can be "+t+", which is not a record of the event: the file summary is then empty although the event has PATH records")
					return
				}
				// the hinted record needs no test; a replacement does
				guarded := false
				if via != nil {
					np, nu := false, false
					ls := GuardLits(via)
					if ifi, isIf := via.Instrs[len(via.Instrs)-1].(*ssa.If); isIf && len(via.Succs) == 2 && via.Succs[0] != via.Succs[1] {
						// the edge's own condition
						for si, sb := range via.Succs {
							for _, in := range sb.Instrs {
								if ph, isPhi := in.(*ssa.Phi); isPhi && seenPhi[ph] {
									ls = append(ls, Lit(ifi.Cond, si == 0))
									ls = append(ls, expandBoolPhi(ifi.Cond, si == 0)...)
								}
							}
						}
					}
					for _, l := range ls {
						if strings.HasSuffix(l, "[\"nametype\"] != \"PARENT\"") {
							np = true
						}
						if strings.HasSuffix(l, "[\"nametype\"] != \"UNKNOWN\"") {
							nu = true
						}
					}
					guarded = np && nu
				}
				if guarded {
					r.OK("selected record "+t+" (replacement, not PARENT/UNKNOWN)", fn.Pos(), "")
				} else {
					nHint++
					r.OK("selected record "+t+" (hinted)", fn.Pos(), "")
				}
			}
			leaves(pathVal, nil)
			r.Check(nLeaf >= 2 && nHint == 1, "selection shape", fn.Pos(), "", fmt.Sprintf("the selected PATH record has %d possible sources of which %d are taken without the nametype test; want the hinted record plus tested replacements", nLeaf, nHint))
		}
		// mode
		undo := autoAlias(fn)
		okMode := false
		for _, c := range callsNamedIn(fn, "fmt.Sprintf") {
			f, _ := constString(c.Common().Args[0])
			if f != "%04o" {
				continue
			}
			// vararg = 0o7777 & FileMode(ParseUint#1#0)
			if sl, ok := c.Common().Args[1].(*ssa.Slice); ok {
				if al, ok := sl.X.(*ssa.Alloc); ok {
					for _, st := range storesOf(fn) {
						if ia, ok := st.Addr.(*ssa.IndexAddr); ok && ia.X == ssa.Value(al) {
							t := Term(st.Val)
							t = strings.ReplaceAll(t, "io/fs.FileMode", "os.FileMode")
							if t == "(4095 & os.FileMode(ParseUint#1#0))" || t == "(os.FileMode(ParseUint#1#0) & 4095)" || t == "(ParseUint#1#0 & 4095)" || t == "(4095 & ParseUint#1#0)" ||
								t == "(4095 & uint32(ParseUint#1#0))" || t == "(uint32(ParseUint#1#0) & 4095)" {
								okMode = true
							}
						}
					}
				}
			}
		}
		if !okMode {
			// the same text without fmt: strconv.FormatUint(masked, 8) left-padded with "0" to four digits
			for _, c := range callsNamedIn(fn, "strconv.FormatUint") {
				a := c.Common().Args
				if len(a) != 2 || !isConstInt(a[1], 8) {
					continue
				}
				t := Term(a[0])
				t = strings.ReplaceAll(t, "io/fs.FileMode", "os.FileMode")
				masked := t == "uint64((4095 & os.FileMode(ParseUint#1#0)))" || t == "uint64((os.FileMode(ParseUint#1#0) & 4095))" || t == "(ParseUint#1#0 & 4095)" || t == "(4095 & ParseUint#1#0)"
				if !masked {
					continue
				}
				digits := Term(c.Value())
				padded := false
				for _, rp := range callsNamedIn(fn, "strings.Repeat") {
					ra := rp.Common().Args
					if z, isZ := constString(ra[0]); isZ && z == "0" && Term(ra[1]) == "(4 - len("+digits+"))" {
						padded = true
					}
				}
				stored := false
				for _, st := range storesOf(fn) {
					if strings.HasSuffix(AddrTerm(st.Addr), "File.Mode") {
						stored = allPhiLeaves(st.Val, func(l ssa.Value) bool { return strings.Contains(Term(l), digits) })
					}
				}
				okMode = padded && stored
			}
		}
		for _, c := range callsNamedIn(fn, "strconv.ParseUint") {
			okMode = okMode && isConstInt(c.Common().Args[1], 8)
		}
		r.Check(okMode, "File.Mode = %04o of mode & 07777", fn.Pos(), "", "File.Mode is not the octal rendering of (parsed octal mode & 07777)")
		undo()
	}
	// R6a
	r.Rule("C09.R6", "file type from the kernel's mode bits: a raw st_mode converted to os.FileMode may be masked with numbers but must not be tested with FileMode methods or os.Mode* type constants (Go's type bits are not S_IF*); a classification on mode & S_IFMT must agree with the POSIX values for all seven types", 1)
	{
		fn := x.setFileObject
		n := 0
		instrsOf(fn, func(in ssa.Instruction) {
			cv, ok := in.(*ssa.Convert)
			if !ok || !isFSFileMode(cv.Type()) {
				return
			}
			// raw: operand is an integer not produced by os/io/fs
			src := Term(cv.X)
			if !strings.Contains(src, "strconv.ParseUint") && !strings.Contains(src, "strconv.ParseInt") && !strings.Contains(src, "strconv.Atoi") {
				return
			}
			n++
			for _, use := range fileModeUses(cv, map[ssa.Value]bool{}) {
				r.Fail("aucoalesce.setFileObject raw-st_mode-as-FileMode "+use.what, use.pos, "a kernel st_mode (octal text parsed with strconv) is converted to os.FileMode and tested with "+use.what+": Go's FileMode type bits are not the S_IF* bits, so the object type is wrong for every non-regular file")
			}
		})
		if n == 0 {
			// repaired shape: classification on mode & S_IFMT
			ref, err := loadUAPI()
			if err != nil {
				r.Undecided("reference", token.NoPos, err.Error())
			} else {
				wantLabel := map[uint64]string{ref.StatModes["S_IFREG"]: "file", ref.StatModes["S_IFDIR"]: "directory", ref.StatModes["S_IFCHR"]: "character-device",
					ref.StatModes["S_IFBLK"]: "block-device", ref.StatModes["S_IFIFO"]: "named-pipe", ref.StatModes["S_IFLNK"]: "symlink", ref.StatModes["S_IFSOCK"]: "socket"}
				seen := 0
				for _, arm := range switchArms(fn) {
					if !strings.Contains(arm.Subject, fmt.Sprint(ref.StatModes["S_IFMT"])) {
						continue
					}
					v, _ := constInt(arm.Const)
					eff, pos := armEffect(arm.Arm, arm.If.Block())
					lbl, known := wantLabel[uint64(v)]
					seen++
					r.Check(known && eff == "store p0.Summary.Object.Type = \""+lbl+"\"", fmt.Sprintf("file type case %#o", v), pos, lbl, fmt.Sprintf("mode & S_IFMT == %#o is classified by [%s]; POSIX says %q", v, eff, lbl))
				}
				r.Check(seen == 7, "file type classification covers the seven POSIX types", fn.Pos(), "", fmt.Sprintf("found %d cases on mode & S_IFMT and no FileMode conversion: the object type is not derived from the mode's file-type bits", seen))
			}
		}
	}
	// R7
	r.Rule("C09.R7", "event identity: Timestamp, Sequence and Type are read from one message value, the one selected before the SYSCALL record replaces msg", 1)
	{
		fn := x.newEvent
		vals := map[string]string{}
		for _, st := range storesOf(fn) {
			t := AddrTerm(st.Addr)
			if strings.HasPrefix(t, "new(aucoalesce.Event)#") {
				rest := strings.TrimPrefix(t, "new(aucoalesce.Event)#")
				if i := strings.Index(rest, "."); i >= 0 {
					vals[rest[i+1:]] = Term(st.Val)
				}
			}
		}
		base := strings.TrimSuffix(vals["Timestamp"], ".Timestamp")
		ok := base != "" && vals["Sequence"] == base+".Sequence" && vals["Type"] == base+".RecordType" && base == "φ{p0 | p1}" &&
			vals["Category"] == "aucoalesce.GetAuditEventType("+base+".RecordType)"
		r.Check(ok, "newEvent identity", fn.Pos(), "all from φ{msg | syscall}", fmt.Sprintf("identity fields come from %v", vals))
		// normalizeCompound passes (special, syscall) where special is msgs[0] when it is not a SYSCALL
		calls := callsIn(x.normCompound, x.newEvent)
		r.Check(len(calls) == 1, "normalizeCompound → newEvent once", x.normCompound.Pos(), "", fmt.Sprintf("%d calls", len(calls)))
		// the first argument is the leading record whenever that is not the SYSCALL record: the
		// only conditions under which the loop-carried `special` takes the range element are
		// "first element" and "not a SYSCALL record"
		if len(calls) == 1 {
			arg := calls[0].Common().Args[0]
			var phis []*ssa.Phi
			var collect func(v ssa.Value, depth int)
			seenPhi := map[*ssa.Phi]bool{}
			collect = func(v ssa.Value, depth int) {
				if ph, ok := v.(*ssa.Phi); ok && !seenPhi[ph] && depth < 6 {
					seenPhi[ph] = true
					phis = append(phis, ph)
					for _, e := range ph.Edges {
						collect(e, depth+1)
					}
				}
			}
			collect(arg, 0)
			nTake := 0
			for _, ph := range phis {
				for i, e := range ph.Edges {
					if _, isPhi := e.(*ssa.Phi); isPhi || isNilConst(e) {
						continue
					}
					nTake++
					from := ph.Block().Preds[i]
					var extra []string
					first, notSys := false, false
					gs := GuardsAt(from)
					if ifi, ok := from.Instrs[len(from.Instrs)-1].(*ssa.If); ok {
						// the edge itself may be one arm of a test ending the block
						gs = append(gs, Guard{Cond: ifi.Cond, Pol: from.Succs[0] == ph.Block(), If: ifi})
					}
					for _, g := range gs {
						l := g.String()
						switch {
						case strings.Contains(l, "== 0") && !strings.Contains(l, "RecordType") && !strings.Contains(l, "len("):
							first = true
						case strings.Contains(l, ".RecordType != 1300"):
							notSys = true
						case strings.Contains(l, "< len(") || strings.HasPrefix(l, "rangeok") || strings.Contains(l, "next("):
						default:
							extra = append(extra, l)
						}
					}
					r.Check(first && notSys && len(extra) == 0 && strings.Contains(Term(e), "p0["), "normalizeCompound special ← "+Term(e), x.normCompound.Pos(), "taken under first-element && not-SYSCALL only",
						fmt.Sprintf("the record that gives the event its timestamp, sequence and type is taken from %s under the conditions %v (first=%v notSyscall=%v, additional: %v): a leading non-SYSCALL record is then not always the event's identity", Term(e), GuardLits(from), first, notSys, extra))
				}
			}
			r.Check(nTake >= 1, "normalizeCompound special source", x.normCompound.Pos(), "", "the first argument of newEvent is never set from a record")
		}
	}
}

func isFSFileMode(t types.Type) bool {
	n, ok := types.Unalias(t).(*types.Named)
	return ok && n.Obj().Name() == "FileMode" && n.Obj().Pkg() != nil && n.Obj().Pkg().Path() == "io/fs"
}

type fmUse struct {
	what string
	pos  token.Pos
}

// fileModeUses lists FileMode-typed predicate uses of v (methods of fs.FileMode, and-ing with os.Mode* type bits).
func fileModeUses(v ssa.Value, seen map[ssa.Value]bool) []fmUse {
	if seen[v] || v.Referrers() == nil {
		return nil
	}
	seen[v] = true
	var out []fmUse
	goModeBits := map[int64]string{1 << 31: "ModeDir", 1 << 27: "ModeSymlink", 1 << 26: "ModeDevice", 1 << 25: "ModeNamedPipe", 1 << 24: "ModeSocket", 1 << 21: "ModeCharDevice", 1 << 19: "ModeIrregular"}
	for _, ref := range *v.Referrers() {
		switch u := ref.(type) {
		case *ssa.Call:
			if f := u.Call.StaticCallee(); f != nil && f.Signature.Recv() != nil && isFSFileMode(f.Signature.Recv().Type()) {
				out = append(out, fmUse{"FileMode." + f.Name() + "()", u.Pos()})
			}
		case *ssa.BinOp:
			if u.Op == token.AND {
				other := u.Y
				if other == v {
					other = u.X
				}
				if c, ok := constInt(other); ok {
					if name, isGo := goModeBits[c]; isGo {
						out = append(out, fmUse{"os." + name, u.Pos()})
					}
				}
			}
		case *ssa.Phi, *ssa.ChangeType, *ssa.MakeInterface:
			out = append(out, fileModeUses(u.(ssa.Value), seen)...)
		}
	}
	return out
}

// consumedBefore: before the loop, map[key] (key a quoted constant term) was looked up under has()
// and its value stored into an event field.
func (x *coal) consumedBefore(fn *ssa.Function, l *Loop, mapTerm, keyTerm string) bool {
	ok := false
	instrsOf(fn, func(in ssa.Instruction) {
		lk, isLk := in.(*ssa.Lookup)
		if !isLk || l.Body[lk.Block()] || Term(lk.X) != mapTerm || Term(lk.Index) != keyTerm {
			return
		}
		if !lk.Block().Dominates(l.Header) {
			return
		}
		var val ssa.Value = lk
		if lk.CommaOk {
			val = nil
			for _, rf := range *lk.Referrers() {
				if ex, isEx := rf.(*ssa.Extract); isEx && ex.Index == 0 {
					val = ex
				}
			}
		}
		if val == nil || val.Referrers() == nil {
			return
		}
		for _, rf := range *val.Referrers() {
			if st, isSt := rf.(*ssa.Store); isSt && st.Val == val {
				if _, isFA := st.Addr.(*ssa.FieldAddr); isFA {
					ok = true
				}
			}
		}
	})
	return ok
}

// ----------------------------------------------------------------------------------------------
// C15

func init() {
	props["C15"] = propC15
	propMeta["C15"] = PropMeta{
		Technique:   "static analysis: value-origin (taint) propagation with a field-based heap, lockset, writer census",
		Explanation: "Repeatability and isolation decided structurally: no map insert/delete, element store, copy or clear on a value whose origin is (*AuditMessage).Data() or Tags() anywhere in aucoalesce (the maps are the messages' memoised state, handed out by reference); the functions reachable from CoalesceMessages/ResolveIDs write no package-level variable and nothing reachable from the global normalisation tables, which are assigned only in init; every access to the mutable state of the ID caches is under the cache mutex, and the only call made while holding it is the lookup function, which cannot re-enter the cache; the coalescer's own slicing/indexing is in bounds; normalisation selection does not depend on map iteration order. No value loaded from any package-level variable of aucoalesce (ID caches excepted) is written through on the coalescing path; Data() memoises success and failure alike (shared with C05.R3).",
		NotDecided:  "Deep equality of two coalescings; data races outside the ID caches (messages memoise Data() without a lock: sharing one message between goroutines is outside the property); aliasing of ECS category/type slices with the global tables through append (safe today only because yaml.v3 allocates cap == len; noted, not armed).",
		Assumptions: []string{"sync.Mutex semantics", "field-based heap abstraction (coarse: may over-report)"},
	}
}

func propC15(r *Run, w *World) {
	x := loadCoal(r, w)
	if !x.ok {
		return
	}
	scope := w.PkgFuncs("aucoalesce")
	for _, f := range x.scope() {
		r.UseFn(fnName(f))
	}
	// R1
	r.Rule("C15.R1", "inputs are read-only: no map insert/delete, element store, in-place append, copy or clear on a value whose origin is (*AuditMessage).Data() or .Tags(), anywhere in aucoalesce", 6)
	nSrc := 0
	isSrc := func(v ssa.Value) bool {
		ex, ok := v.(*ssa.Extract)
		if !ok || ex.Index != 0 {
			return false
		}
		c, ok := ex.Tuple.(*ssa.Call)
		if !ok {
			return false
		}
		f := c.Call.StaticCallee()
		return f == x.dataFn || f == x.tagsFn
	}
	for _, fn := range scope {
		instrsOf(fn, func(in ssa.Instruction) {
			if v, ok := in.(ssa.Value); ok && isSrc(v) {
				nSrc++
				r.OK("source "+fnName(fn)+" "+Term(v.(*ssa.Extract).Tuple), in.Pos(), "origin tracked")
			}
		})
	}
	t := w.TaintFrom(scope, isSrc)
	muts := t.Mutations(scope, true)
	for _, m := range muts {
		what := ""
		switch in := m.Instr.(type) {
		case *ssa.Call:
			if len(in.Call.Args) > 1 {
				what = Term(in.Call.Args[1])
			}
		case *ssa.MapUpdate:
			what = Term(in.Key)
		}
		r.Fail(fmt.Sprintf("%s %s %s", fnName(m.Fn), m.Kind, what), m.Instr.Pos(),
			fmt.Sprintf("%s on %s, which originates from (*AuditMessage).Data()/Tags() (%s): the message's memoised data is modified, so Data()/ToMapStr() differ afterwards and coalescing the same messages again gives a different event", m.Kind, Term(m.On), t.Why[m.On]))
	}
	r.Check(nSrc >= 6, "Data()/Tags() call sites tracked", token.NoPos, fmt.Sprint(nSrc), fmt.Sprintf("only %d origins found", nSrc))

	// R2
	r.Rule("C15.R2", "no hidden global state: functions reachable from CoalesceMessages/ResolveIDs store to no package-level variable and modify nothing reachable from syscallNorms/recordTypeNorms; those two variables are assigned only in init", 3)
	reach := x.scope()
	for _, fn := range reach {
		instrsOf(fn, func(in ssa.Instruction) {
			if st, ok := in.(*ssa.Store); ok {
				if g, isG := st.Addr.(*ssa.Global); isG {
					r.Fail("store to global "+g.Name()+" in "+fnName(fn), st.Pos(), "a package-level variable is written on the coalescing path: one event's processing can change the outcome for another")
				}
			}
		})
	}
	for _, gname := range []string{"syscallNorms", "recordTypeNorms"} {
		g, err := w.Global("aucoalesce", gname)
		if err != nil {
			r.Anchor(err)
			continue
		}
		for _, fn := range scope {
			instrsOf(fn, func(in ssa.Instruction) {
				if st, ok := in.(*ssa.Store); ok && st.Addr == ssa.Value(g) {
					r.Check(strings.HasPrefix(fn.Name(), "init"), gname+" assigned in "+fnName(fn), st.Pos(), "init only", gname+" is reassigned outside init")
				}
			})
		}
	}
	{
		isG := func(v ssa.Value) bool {
			u, ok := v.(*ssa.UnOp)
			if !ok || u.Op != token.MUL {
				return false
			}
			g, ok := u.X.(*ssa.Global)
			return ok && (g.Name() == "syscallNorms" || g.Name() == "recordTypeNorms")
		}
		tg := w.TaintFrom(reach, isG)
		gm := tg.Mutations(reach, false)
		for _, m := range gm {
			r.Fail(fmt.Sprintf("%s %s on normalisation tables", fnName(m.Fn), m.Kind), m.Instr.Pos(), m.Kind+" on "+Term(m.On)+", which is reachable from the global normalisation tables ("+tg.Why[m.On]+")")
		}
		r.OK("normalisation tables: mutation census", x.applyNorm.Pos(), fmt.Sprintf("%d functions reachable, %d mutations", len(reach), len(gm)))
		// the same for every other package-level variable: an event must not hold (and later
		// write through) a pointer that another event holds too. The ID caches are exempt: they
		// are meant to be shared and their discipline is R3.
		isAnyG := func(v ssa.Value) bool {
			u, ok := v.(*ssa.UnOp)
			if !ok || u.Op != token.MUL {
				return false
			}
			g, ok := u.X.(*ssa.Global)
			if !ok || g.Pkg == nil || !w.inPkg(reach[0], "aucoalesce") || g.Pkg != reach[0].Pkg {
				return false
			}
			if g.Name() == "syscallNorms" || g.Name() == "recordTypeNorms" {
				return false
			}
			if strings.Contains(typeStr(u.Type()), "stringCache") || strings.Contains(typeStr(u.Type()), "EntityCache") {
				return false
			}
			switch u.Type().Underlying().(type) {
			case *types.Pointer, *types.Map, *types.Slice:
				return true
			}
			return false
		}
		ta := w.TaintFrom(reach, isAnyG)
		am := ta.Mutations(reach, false)
		for _, m := range am {
			r.Fail(fmt.Sprintf("%s %s on shared package-level value", fnName(m.Fn), m.Kind), m.Instr.Pos(), m.Kind+" on "+Term(m.On)+", which is reachable from a package-level variable ("+ta.Why[m.On]+"): every event that was handed the same value changes with it, including events returned earlier")
		}
		r.OK("package-level values: mutation census", x.applyNorm.Pos(), fmt.Sprintf("%d mutations through values loaded from package-level variables", len(am)))
	}

	// R6
	r.Rule("C15.R6", "shared table slices have exact capacity: applyNormalization appends to event slices that alias the global normalisation tables (ECS category/type), which is safe only while cap == len; so every writer of Strings.Values stores a slice literal or decodes in place with yaml (exact capacity) - never an append result or a reslice", 2)
	if fv, err := w.FieldVar("aucoalesce", "Strings", "Values"); err != nil {
		r.Anchor(err)
	} else {
		for _, a := range w.FieldAccesses(fv) {
			key := "Strings.Values " + a.Kind + " in " + fnName(a.Fn)
			switch a.Kind {
			case "load", "valarg", "alias", "returned":
				if a.Kind == "valarg" && calleeName(a.Instr) == "append" {
					// appending *to* Values (as the first argument) would also leave spare capacity behind
					if c, ok := a.Instr.(*ssa.Call); ok {
						if f, _ := loadedField(c.Call.Args[0]); f == fv {
							r.Fail(key+" append-base", a.Instr.Pos(), "Strings.Values is extended with append: the result may have spare capacity, and events alias these slices")
						}
					}
				}
			case "store":
				ok := false
				switch v := a.Val.(type) {
				case *ssa.Slice:
					if al, isAl := v.X.(*ssa.Alloc); isAl && al.Comment == "slicelit" && v.Low == nil && v.High == nil {
						ok = true
					}
				case *ssa.Const:
					ok = v.Value == nil
				}
				r.Check(ok, key, a.Instr.Pos(), "slice literal (cap == len)", "Strings.Values is assigned "+Term(a.Val)+": unless its capacity equals its length, the appends in applyNormalization write into the shared normalisation table (one event then changes another, and concurrent coalescing races)")
			case "escape":
				// &s.Values handed to (*yaml.Node).Decode: the decoder allocates exactly len elements
				n := calleeName(a.Instr)
				pos := a.Instr.Pos()
				if mi, ok := a.Instr.(*ssa.MakeInterface); ok && mi.Referrers() != nil {
					for _, rf := range *mi.Referrers() {
						if c, ok := rf.(ssa.CallInstruction); ok {
							n = calleeName(c)
							pos = c.Pos()
						}
					}
				}
				r.Check(n == "(*gopkg.in/yaml.v3.Node).Decode", key+" "+n, pos, "decoded in place by yaml.v3 (exact capacity)", "the address of Strings.Values is handed to "+n)
			default:
				r.Fail(key, a.Instr.Pos(), "Strings.Values is "+a.Kind+" here (not in the reviewed table)")
			}
		}
		// the alias sites themselves (information): appends onto slices that originate in the tables
		isG := func(v ssa.Value) bool {
			u, ok := v.(*ssa.UnOp)
			if !ok || u.Op != token.MUL {
				return false
			}
			g, ok := u.X.(*ssa.Global)
			return ok && (g.Name() == "syscallNorms" || g.Name() == "recordTypeNorms")
		}
		tg := w.TaintFrom(x.scope(), isG)
		n := 0
		for _, m := range tg.Mutations(x.scope(), true) {
			if m.Kind == "append in place" {
				n++
			}
		}
		r.Info(fmt.Sprintf("%d append sites onto slices reachable from the global normalisation tables (safe while cap == len)", n))
	}

	// R3
	r.Rule("C15.R3", "cache discipline: every access to the mutable state of stringCache (data) is under c.mutex (constructors exempt); the only call made while holding it is lookupFn, and nothing called under it locks a stringCache again", 4)
	{
		li := w.Locksets(scope)
		class := "aucoalesce.stringCache.mutex"
		scT, err := w.Named("aucoalesce", "stringCache")
		if err != nil {
			r.Anchor(err)
		} else {
			st := scT.Underlying().(*types.Struct)
			constructOnly := map[string]bool{"expiration": true, "lookupFn": true}
			// a constructor, or an unexported helper that only the constructors call, that is
			// only ever called statically and that is handed no stringCache to write into (it
			// builds the value it returns): the object is not shared yet there either
			var isCtorFn func(f *ssa.Function, depth int) bool
			isCtorFn = func(f *ssa.Function, depth int) bool {
				if f.Name() == "NewUserCache" || f.Name() == "NewGroupCache" {
					return f.Signature.Recv() == nil
				}
				if depth > 2 || f.Object() == nil || f.Object().Exported() || f.Signature.Recv() != nil {
					return false
				}
				for i := 0; i < f.Signature.Params().Len(); i++ {
					t := f.Signature.Params().At(i).Type()
					if pt, isPtr := t.Underlying().(*types.Pointer); isPtr {
						t = pt.Elem()
					}
					if types.Identical(t, scT) {
						return false
					}
				}
				cs := w.CallSites(f)
				if len(cs) == 0 {
					return false
				}
				for _, c := range cs {
					if c.Kind != "static" || !isCtorFn(c.Caller, depth+1) {
						return false
					}
				}
				return true
			}
			for i := 0; i < st.NumFields(); i++ {
				fv := st.Field(i)
				if fieldName(fv) == "mutex" {
					continue
				}
				for _, a := range w.FieldAccesses(fv) {
					if a.Kind == "valarg" || a.Kind == "alias" || a.Kind == "returned" || a.Kind == "reslice" {
						continue
					}
					key := fmt.Sprintf("stringCache.%s %s in %s", fieldName(fv), a.Kind, fnName(a.Fn))
					held := li.HeldFor(a.Instr, class, a.Kind)
					isCtor := isCtorFn(a.Fn, 0)
					switch {
					case held:
						r.OK(key, a.Instr.Pos(), "mutex held")
					case isCtor:
						r.OK(key, a.Instr.Pos(), "constructor: object not yet shared")
					case constructOnly[fieldName(fv)] && a.Kind == "load":
						// only constructors may write it
						r.OK(key, a.Instr.Pos(), "immutable after construction")
					default:
						r.Fail(key, a.Instr.Pos(), fmt.Sprintf("stringCache.%s is accessed (%s) without the cache mutex", fieldName(fv), a.Kind))
					}
				}
				if constructOnly[fieldName(fv)] {
					for _, a := range Writes(w.FieldAccesses(fv)) {
						isCtor := isCtorFn(a.Fn, 0)
						r.Check(isCtor, "stringCache."+fieldName(fv)+" written in "+fnName(a.Fn), a.Instr.Pos(), "", "stringCache."+fieldName(fv)+" is written after construction")
					}
				}
			}
			for _, fn := range scope {
				var locks, defers, unlocks int
				instrsOf(fn, func(in ssa.Instruction) {
					op, c := lockOp(in)
					if c != class {
						return
					}
					switch op {
					case "lock":
						locks++
					case "defer-unlock":
						defers++
					case "unlock":
						unlocks++
					}
				})
				if locks+defers+unlocks > 0 {
					r.Check(locks == 1 && defers == 1 && unlocks == 0, "lock pairing in "+fnName(fn), fn.Pos(), "Lock + defer Unlock", fmt.Sprintf("locks=%d deferred unlocks=%d unlocks=%d", locks, defers, unlocks))
				}
				instrsOf(fn, func(in ssa.Instruction) {
					ci, ok := in.(ssa.CallInstruction)
					if !ok || !li.Held(in)[class] {
						return
					}
					if op, c := lockOp(in); c == class {
						if op == "lock" {
							r.Fail("re-lock in "+fnName(fn), in.Pos(), "the cache mutex is locked while held")
						}
						return
					}
					n := calleeName(in)
					key := "call under cache mutex: " + fnName(fn) + " → " + n
					switch {
					case n == "time.Now" || n == "(time.Time).Add" || n == "(time.Time).After" || n == "len" || n == "delete":
						r.OK(key, in.Pos(), "reviewed callee")
					case ci.Common().StaticCallee() != nil && w.isRepoFn(ci.Common().StaticCallee()):
						r.OK(key, in.Pos(), "repository function, analysed with the lock inherited")
					case strings.HasPrefix(n, "dyn") && strings.Contains(Term(ci.Common().Value), ".lookupFn"):
						// lookupFn: closures created by the constructors; they call only os/user
						okFn := true
						for _, ctor := range []string{"NewUserCache", "NewGroupCache"} {
							if cf, err := w.Func("aucoalesce", ctor); err == nil {
								for _, an := range cf.AnonFuncs {
									instrsOf(an, func(i2 ssa.Instruction) {
										if c2, ok := i2.(ssa.CallInstruction); ok {
											if f := c2.Common().StaticCallee(); f != nil && w.isRepoFn(f) {
												okFn = false
											}
											if c2.Common().StaticCallee() == nil {
												if _, isB := c2.Common().Value.(*ssa.Builtin); !isB {
													okFn = false
												}
											}
										}
									})
								}
							}
						}
						r.Check(okFn, key, in.Pos(), "lookupFn (constructor closures call only os/user)", "a lookup function can call back into the repository while the cache mutex is held")
					default:
						r.Undecided(key, in.Pos(), "call to "+n+" while holding the cache mutex is not in the reviewed table")
					}
				})
			}
		}
	}
	// R4 bounds of the coalescer's own indexing
	boundsRule(r, w, "C15.R4", "aucoalesce", x.scope())
	// R5
	c15Deterministic(r, w, "C15.R5")
	// a message reports the same before and after being coalesced only if what Data()/Tags()
	// hand out is computed once: shared with C05.R3
	if ax := loadAup(r, w); ax.ok {
		ax.dataIdempotence("C15.R7")
	}
}
