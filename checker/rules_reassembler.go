package main

// Rules over reassembler.go: C01, C02, C03, C10, C11, C19.

import (
	"fmt"
	"go/constant"
	"go/token"
	"go/types"
	"sort"
	"strings"

	"golang.org/x/tools/go/ssa"
)

type reasm struct {
	r *Run
	w *World

	put, cleanUp, clear, remove, add, isExpired, callback              *ssa.Function
	pushMessage, push, maintain, closeFn, newReassembler, newEventList *ssa.Function
	less, sortFn, absFn                                                *ssa.Function

	fSeqs, fEvents, fLastSeq, fMaxSize, fTimeout, fMutex *types.Var
	fMsgs, fComplete, fExpire                            *types.Var
	fClosed, fList, fStream                              *types.Var
	stream                                               *types.Named

	eoe, proctitle, lastDaemon, anomLoginFailures string
	ok                                            bool
}

func loadReasm(r *Run, w *World) *reasm {
	x := &reasm{r: r, w: w, ok: true}
	m := func(typ, name string) *ssa.Function {
		f, err := w.Method("libaudit", typ, name)
		if err != nil {
			r.Anchor(err)
			x.ok = false
		}
		return f
	}
	fn := func(name string) *ssa.Function {
		f, err := w.Func("libaudit", name)
		if err != nil {
			r.Anchor(err)
			x.ok = false
		}
		return f
	}
	fv := func(typ, name string) *types.Var {
		v, err := w.FieldVar("libaudit", typ, name)
		if err != nil {
			r.Anchor(err)
			x.ok = false
		}
		return v
	}
	cv := func(name string) string {
		c, err := w.Const("auparse", name)
		if err != nil {
			r.Anchor(err)
			x.ok = false
			return "?"
		}
		return constVal(c)
	}
	x.fSeqs, x.fEvents, x.fLastSeq = fv("eventList", "seqs"), fv("eventList", "events"), fv("eventList", "lastSeq")
	if n, err := w.Named("libaudit", "Stream"); err != nil {
		r.Anchor(err)
		x.ok = false
	} else {
		x.stream = n
	}
	x.put, x.cleanUp, x.clear = m("eventList", "Put"), m("eventList", "CleanUp"), m("eventList", "Clear")
	// unexported helpers are found by name or, after a rename, by the role the rules give them
	x.remove = roleFn(r, w, &x.ok, "libaudit", "eventList", "remove", "the only function that deletes from eventList.events", func(f *ssa.Function) bool {
		found := false
		instrsOf(f, func(in ssa.Instruction) {
			if c, ok := in.(*ssa.Call); ok && calleeName(c) == "delete" {
				if fvv, _ := loadedField(c.Call.Args[0]); fvv != nil && fvv == x.fEvents {
					found = true
				}
			}
		})
		return found
	})
	x.add, x.isExpired = m("event", "Add"), m("event", "IsExpired")
	x.callback = roleFn(r, w, &x.ok, "libaudit", "Reassembler", "callback", "the only function that invokes Stream.ReassemblyComplete", func(f *ssa.Function) bool {
		found := false
		instrsOf(f, func(in ssa.Instruction) {
			if c, ok := in.(ssa.CallInstruction); ok && c.Common().IsInvoke() && c.Common().Method.Name() == "ReassemblyComplete" &&
				x.stream != nil && types.Identical(c.Common().Value.Type(), x.stream) {
				found = true
			}
		})
		return found
	})
	x.pushMessage, x.push = m("Reassembler", "PushMessage"), m("Reassembler", "Push")
	x.maintain, x.closeFn = m("Reassembler", "Maintain"), m("Reassembler", "Close")
	x.newReassembler = fn("NewReassembler")
	x.newEventList = roleFn(r, w, &x.ok, "libaudit", "", "newEventList", "the only function that allocates an eventList", func(f *ssa.Function) bool {
		found := false
		instrsOf(f, func(in ssa.Instruction) {
			if al, ok := in.(*ssa.Alloc); ok {
				if nt, isN := al.Type().(*types.Pointer).Elem().(*types.Named); isN && nt.Obj().Name() == "eventList" && nt.Obj().Pkg() == w.Pkgs["libaudit"].Types {
					found = true
				}
			}
		})
		return found
	})
	x.less, x.sortFn = m("sequenceNumSlice", "Less"), m("sequenceNumSlice", "Sort")
	if f, err := w.Func("libaudit", "abs"); err == nil {
		x.absFn = f // optional: a refactor may fold it into Less
	}
	x.fMaxSize, x.fTimeout, x.fMutex = fv("eventList", "maxSize"), fv("eventList", "timeout"), fv("eventList", "Mutex")
	x.fMsgs, x.fComplete, x.fExpire = fv("event", "msgs"), fv("event", "complete"), fv("event", "expireTime")
	x.fClosed, x.fList, x.fStream = fv("Reassembler", "closed"), fv("Reassembler", "list"), fv("Reassembler", "stream")
	x.eoe, x.proctitle = cv("AUDIT_EOE"), cv("AUDIT_PROCTITLE")
	x.lastDaemon, x.anomLoginFailures = cv("AUDIT_LAST_DAEMON"), cv("AUDIT_ANOM_LOGIN_FAILURES")
	if x.ok {
		r.UseFn(fnName(x.put), fnName(x.cleanUp), fnName(x.clear), fnName(x.remove), fnName(x.add), fnName(x.isExpired),
			fnName(x.callback), fnName(x.pushMessage), fnName(x.maintain), fnName(x.closeFn), fnName(x.newReassembler),
			fnName(x.newEventList), fnName(x.less), fnName(x.sortFn))
	}
	return x
}

// roleFn resolves an unexported helper by name (method of typ, or package function when typ is
// empty); when the name no longer exists it falls back to the unique function of the package
// that plays the stated role, so a rename alone does not leave the rules without their anchor.
func roleFn(r *Run, w *World, okFlag *bool, pkg, typ, name, roleDesc string, role func(*ssa.Function) bool) *ssa.Function {
	var f *ssa.Function
	var err error
	if typ != "" {
		f, err = w.Method(pkg, typ, name)
	} else {
		f, err = w.Func(pkg, name)
	}
	if err == nil {
		return f
	}
	var cands []*ssa.Function
	for _, g := range w.PkgFuncs(pkg) {
		if g.Parent() == nil && g.Synthetic == "" && role(g) {
			cands = append(cands, g)
		}
	}
	if len(cands) == 1 {
		anchored[cands[0]] = true
		r.Info(fmt.Sprintf("anchor %s.%s no longer exists by name; resolved by role (%s) to %s", pkg, name, roleDesc, fnName(cands[0])))
		return cands[0]
	}
	r.Anchor(err)
	*okFlag = false
	return nil
}

func accessSummary(as []Access) string {
	var s []string
	for _, a := range as {
		s = append(s, fnName(a.Fn)+":"+a.Kind)
	}
	sort.Strings(s)
	return strings.Join(s, " ")
}

// ----------------------------------------------------------------------------------------------
// C01

func init() {
	props["C01"] = propC01
	propMeta["C01"] = PropMeta{
		Explanation: "Conservation argument over the only places a pushed message can live (event.msgs, eventList.events, eventList.seqs, the evicted slice): single producer of msgs, one key for lookup/insert/sequence list, EOE never buffered and everything else buffered exactly once on every path of Put, eviction hands off exactly what it removes (append+remove paired once per iteration, head only), whitelisted writers of events/seqs, exactly one ReassemblyComplete per evicted event and one callback per CleanUp/Clear with both of its results, nil messages return before Put. Each rule is a necessary condition: breaking it duplicates, loses, splits or re-orders a record.",
		NotDecided:  "The delivered-exactly-once outcome under concurrent callers (see C11) and the semantics of Go's map/append (trusted).",
		Assumptions: []string{"go/ssa models the source faithfully", "Go map/append/slice semantics"},
	}
}

func propC01(r *Run, w *World) {
	x := loadReasm(r, w)
	if !x.ok {
		return
	}
	x.c01r1()
	x.c01r2()
	x.c01r3()
	x.evictionLoops("C01.R4", "eviction hands off exactly what it removes: append(evicted, head) and remove() paired once per iteration, in that order; remove() drops seqs[0] and its events entry")
	x.c01r5()
	x.c01r6()
	x.c01r7()
}

// R1: single producer of event.msgs.
func (x *reasm) c01r1() {
	r := x.r
	r.Rule("C01.R1", "single producer of event.msgs: only the empty slice at construction in Put and append(e.msgs, msg) in Add with Add's own parameter; Add is called only from Put with the pushed message", 5)
	for _, a := range x.w.FieldAccesses(x.fMsgs) {
		key := fnName(a.Fn) + " " + a.Kind
		switch a.Kind {
		case "load":
			continue
		case "store":
			switch x.w.ownerAmong(a.Fn, x.put, x.add) {
			case x.put:
				// must be an empty slice
				ok := false
				switch v := a.Val.(type) {
				case *ssa.Slice:
					if al, isAl := v.X.(*ssa.Alloc); isAl && al.Comment == "makeslice" && v.High != nil && isConstInt(v.High, 0) {
						ok = true
					}
				case *ssa.MakeSlice:
					ok = isConstInt(v.Len, 0)
				case *ssa.Const:
					ok = v.Value == nil
				}
				r.Check(ok, key, a.Instr.Pos(), "new event starts with an empty msgs slice", "event constructed with a non-empty msgs slice: "+Term(a.Val))
			case x.add:
				c, isApp := isAppendCall(a.Val)
				ok := false
				if isApp {
					base, elems, _, _ := appendParts(c)
					f, recv := loadedField(base)
					ok = f == x.fMsgs && isParamValue(recv, x.add.Params[0]) && len(elems) == 1 && isParamValue(elems[0], x.add.Params[1])
				}
				r.Check(ok, key, a.Instr.Pos(), "e.msgs = append(e.msgs, msg) with Add's own parameter", "store to msgs in Add is not append(e.msgs, <parameter>): "+Term(a.Val))
			default:
				r.Fail(key, a.Instr.Pos(), "event.msgs is stored outside Put's constructor and Add: "+Term(a.Val))
			}
		case "valarg":
			// passing the loaded slice: allowed to ReassemblyComplete (delivery), append and len.
			n := calleeName(a.Instr)
			okc := n == "invoke:libaudit.Stream.ReassemblyComplete" || n == "append" || n == "len" || n == "cap"
			r.Check(okc, key+" "+n, a.Instr.Pos(), "msgs handed to "+n, "msgs handed to "+n+" (not in the reviewed table: delivery, append, len)")
		default:
			r.Fail(key, a.Instr.Pos(), "event.msgs is "+a.Kind+" here; only construction and Add's append may produce it")
		}
	}
	// every path of Add appends exactly once
	ps, complete := Paths(x.add, PathOpts{})
	if !complete {
		r.Undecided(fnName(x.add)+" paths", x.add.Pos(), "path cap exceeded")
	}
	for i, p := range ps {
		n := 0
		for _, e := range p.Events {
			if st, ok := e.Instr.(*ssa.Store); ok && e.Kind == EvStore {
				if fa, ok := st.Addr.(*ssa.FieldAddr); ok && fieldOfAddr(fa) == x.fMsgs {
					n++
				}
			}
		}
		r.Check(n == 1 && p.End == "return", fmt.Sprintf("%s path#%d appends once", fnName(x.add), i), x.add.Pos(),
			"one append on this path", fmt.Sprintf("path of Add with %d stores to msgs: %s", n, describePath(p)))
	}
	// Add is called only from Put, with Put's msg parameter
	sites := x.w.CallSites(x.add)
	for _, s := range sites {
		ok := s.Kind == "static" && x.w.ownedBy(s.Caller, x.put)
		if ok {
			args := s.Instr.(ssa.CallInstruction).Common().Args
			ok = len(args) == 2 && isParamValue(args[1], x.put.Params[1])
		}
		r.Check(ok, "caller of Add: "+fnName(s.Caller), s.Instr.Pos(), "Put passes its own msg parameter", "Add called from "+fnName(s.Caller)+" ("+s.Kind+") or with a value other than the pushed message")
	}
	// (how often Add runs per push is decided on the paths of Put, R3; one call per branch is fine)
	r.Check(len(sites) >= 1, "Add is called", x.add.Pos(), "", "Add has no call site")
}

// R2: keying.
func (x *reasm) c01r2() {
	r := x.r
	r.Rule("C01.R2", "keying: the lookup key, the inserted key and the element appended to seqs are one value derived from the pushed message's Sequence; Add's receiver is the found event or the one just inserted", 4)
	var lookups []*ssa.Lookup
	var updates []*ssa.MapUpdate
	var appends []*ssa.Call
	instrsOf(x.put, func(in ssa.Instruction) {
		switch v := in.(type) {
		case *ssa.Lookup:
			if f, _ := loadedField(v.X); f == x.fEvents {
				lookups = append(lookups, v)
			}
		case *ssa.MapUpdate:
			if f, _ := loadedField(v.Map); f == x.fEvents {
				updates = append(updates, v)
			}
		case *ssa.Call:
			if c, ok := isAppendCall(v); ok {
				base, _, _, _ := appendParts(c)
				if f, _ := loadedField(base); f == x.fSeqs {
					appends = append(appends, c)
				}
			}
		}
	})
	if len(lookups) != 1 || len(updates) != 1 || len(appends) != 1 {
		r.Fail("Put shape", x.put.Pos(), fmt.Sprintf("expected one lookup, one insert and one seqs append in Put, found %d/%d/%d", len(lookups), len(updates), len(appends)))
		return
	}
	key := stripConv(lookups[0].Index)
	want := "p1.Sequence"
	r.Check(Term(key) == want, "lookup key", lookups[0].Pos(), "events looked up by msg.Sequence", "lookup key is "+Term(key)+", want "+want)
	r.Check(stripConv(updates[0].Key) == key, "insert key", updates[0].Pos(), "inserted under the same value", "insert key "+Term(updates[0].Key)+" is not the lookup key")
	_, elems, _, _ := appendParts(appends[0])
	r.Check(len(elems) == 1 && stripConv(elems[0]) == key, "seqs element", appends[0].Pos(), "same value appended to seqs", "element appended to seqs is not the lookup key")
	// receiver of Add
	calls := callsIn(x.put, x.add)
	// every receiver of Add is the found event or the one just inserted (one call on a merged
	// value, or one call per branch); both must occur
	var hasFound, hasNew bool
	okRecv := len(calls) >= 1
	isFound := func(e ssa.Value) bool {
		ex, ok := e.(*ssa.Extract)
		return ok && ex.Tuple == ssa.Value(lookups[0]) && ex.Index == 0
	}
	for _, c := range calls {
		recv := c.Common().Args[0]
		var vals []ssa.Value
		if phi, ok := recv.(*ssa.Phi); ok {
			vals = phi.Edges
		} else {
			vals = []ssa.Value{recv}
		}
		for _, e := range vals {
			switch {
			case isFound(e):
				hasFound = true
			case e == updates[0].Value:
				hasNew = true
			default:
				okRecv = false
			}
		}
		// a call on the found event alone must be under `found`
		if len(vals) == 1 && isFound(vals[0]) {
			okRecv = okRecv && HoldsAt(c.Block(), "has("+Term(lookups[0].X)+", "+Term(lookups[0].Index)+")")
		}
	}
	pos := x.put.Pos()
	if len(calls) > 0 {
		pos = calls[0].Pos()
	}
	r.Check(okRecv && hasFound && hasNew, "Add receiver", pos, "Add's receiver is the found event or the inserted event", fmt.Sprintf("Add is called on something other than the found or the newly inserted event (%d calls)", len(calls)))
}

// R3: EOE never buffered, everything else exactly once.
func (x *reasm) c01r3() {
	r := x.r
	r.Rule("C01.R3", "on every path of Put: an EOE record is never appended and opens no event; any other record is appended exactly once", 3)
	eoeLit := "p1.RecordType == " + x.eoe
	notEoe := NegLit(eoeLit)
	ps, complete := Paths(x.put, PathOpts{})
	if !complete {
		r.Undecided("Put paths", x.put.Pos(), "path cap exceeded")
	}
	for i, p := range ps {
		if p.End != "return" {
			r.Fail(fmt.Sprintf("Put path#%d", i), x.put.Pos(), "path does not end in return: "+describePath(p))
			continue
		}
		nAdd := len(p.Calls(x.add))
		nIns := 0
		for _, e := range p.Events {
			if e.Kind == EvMapUpdate {
				nIns++
			}
			if st, ok := e.Instr.(*ssa.Store); ok && e.Kind == EvStore {
				if fa, ok := st.Addr.(*ssa.FieldAddr); ok && fieldOfAddr(fa) == x.fSeqs {
					nIns++
				}
			}
		}
		key := fmt.Sprintf("Put path#%d [%s]", i, strings.Join(p.Lits(), " ∧ "))
		switch {
		case p.HasLit(eoeLit):
			r.Check(nAdd == 0 && nIns == 0, key, x.put.Pos(), "EOE: not appended, nothing inserted", "an EOE record is buffered or opens an event: "+describePath(p))
		case p.HasLit(notEoe):
			r.Check(nAdd == 1, key, x.put.Pos(), "non-EOE: appended once", fmt.Sprintf("a non-EOE record is appended %d times: %s", nAdd, describePath(p)))
		default:
			r.Undecided(key, x.put.Pos(), "path does not decide RecordType == AUDIT_EOE: "+describePath(p))
		}
	}
}

// loadedBefore: every instruction v is computed from runs before `before` on the path — the
// value is the head as it was before remove() changed the list (whether it is appended to the
// batch before or after the removal does not matter).
func loadedBefore(p *Path, v ssa.Value, before ssa.Instruction) bool {
	var ins []ssa.Instruction
	leafInstrs(v, map[ssa.Value]bool{}, &ins)
	for _, in := range ins {
		if _, isAl := in.(*ssa.Alloc); isAl {
			continue
		}
		if o := p.order(in); o >= 0 && o > p.order(before) {
			return false
		}
	}
	return true
}

// evictionLoops implements C01.R4 (+ C02.R5 and C19.R4 checks share the same loop analysis).
func (x *reasm) evictionLoops(ruleID, clause string) {
	r := x.r
	r.Rule(ruleID, clause, 6)
	for _, fn := range []*ssa.Function{x.cleanUp, x.clear} {
		loops := NaturalLoops(fn)
		if len(loops) != 1 {
			r.Fail(fnName(fn)+" loop", fn.Pos(), fmt.Sprintf("expected exactly one loop, found %d", len(loops)))
			continue
		}
		l := loops[0]
		ps, complete := IterationPaths(fn, l)
		if !complete {
			r.Undecided(fnName(fn)+" iteration paths", fn.Pos(), "path cap exceeded")
		}
		for i, p := range ps {
			key := fmt.Sprintf("%s iteration#%d [%s]", fnName(fn), i, p.End)
			removes := p.Calls(x.remove)
			var apps []Event
			for _, e := range p.CallsNamed("append") {
				c := e.Instr.(*ssa.Call)
				if types.Identical(c.Type(), fn.Signature.Results().At(0).Type()) {
					apps = append(apps, e)
				}
			}
			switch p.End {
			case "stop": // iteration continues: must evict exactly one head
				ok := len(removes) == 1 && len(apps) == 1
				detail := ""
				if ok {
					c := apps[0].Instr.(*ssa.Call)
					base, elems, _, _ := appendParts(c)
					_, isPhi := base.(*ssa.Phi)
					ok = isPhi && len(elems) == 1 && Term(elems[0]) == "p0.events[p0.seqs[0]]" &&
						computedIn(elems[0], l.Body) &&
						loadedBefore(p, elems[0], removes[0].Instr) &&
						isParamValue(removes[0].Instr.(ssa.CallInstruction).Common().Args[0], fn.Params[0])
					if ok {
						// the appended slice must be what flows round the loop and is returned
						ok = flowsToPhi(c, base.(*ssa.Phi))
					}
					if !ok {
						detail = "append/remove not paired on the head event: " + describePath(p)
					}
				} else {
					detail = fmt.Sprintf("iteration that continues has %d remove() and %d append(evicted): %s", len(removes), len(apps), describePath(p))
				}
				r.Check(ok, key, fn.Pos(), "evicts the head once: append(evicted, events[seqs[0]]) then remove()", detail)
			case "return":
				r.Check(len(removes) == 0 && len(apps) == 0, key, fn.Pos(), "leaving the loop evicts nothing",
					"a path that leaves the loop removes or appends: "+describePath(p))
			default:
				r.Fail(key, fn.Pos(), "unexpected path end "+p.End+": "+describePath(p))
			}
		}
		// returned values: (evicted phi, lost)
		for _, ret := range retEdges(fn) {
			vals := ret.Results
			ok := len(vals) == 2
			if ok {
				leaves, _ := phiLeaves(vals[0])
				for _, lf := range leaves {
					if isNilConst(lf) {
						continue
					}
					if c, isApp := isAppendCall(lf); isApp && c.Parent() == fn {
						continue
					}
					ok = false
				}
			}
			r.Check(ok, fnName(fn)+" returns evicted", ret.Pos(), "first result is the accumulated evicted slice", "first result is not the evicted accumulator: "+Term(vals[0]))
		}
	}
	// remove(): reslices seqs[1:] and deletes events[seqs[0]] of the same load
	ps, _ := Paths(x.remove, PathOpts{})
	for i, p := range ps {
		key := fmt.Sprintf("%s path#%d", fnName(x.remove), i)
		var stores []*ssa.Store
		var dels []*ssa.Call
		for _, e := range p.Events {
			if st, ok := e.Instr.(*ssa.Store); ok && e.Kind == EvStore {
				if fa, isFA := st.Addr.(*ssa.FieldAddr); isFA && addedField(fieldOfAddr(fa)) {
					continue // a field the reference struct does not have (statistics, debugging)
				}
				stores = append(stores, st)
			}
			if e.Kind == EvCall && calleeName(e.Instr) == "delete" {
				dels = append(dels, e.Instr.(*ssa.Call))
			}
			if e.Kind == EvMapUpdate {
				stores = append(stores, nil)
			}
		}
		if p.HasLit("len(p0.seqs) > 0") || p.HasLit("len(p0.seqs) != 0") {
			ok := len(stores) == 1 && stores[0] != nil && len(dels) == 1
			if ok {
				st := stores[0]
				sl, isSl := st.Val.(*ssa.Slice)
				ok = AddrTerm(st.Addr) == "p0.seqs" && isSl && Term(sl) == "p0.seqs[1:]"
				if ok {
					// the deleted key was loaded before the reslice
					keyv := dels[0].Call.Args[1]
					ld, isLd := stripConv(keyv).(*ssa.UnOp)
					ok = Term(dels[0].Call.Args[0]) == "p0.events" && Term(keyv) == "p0.seqs[0]" && isLd && p.order(ld) >= 0 && p.order(ld) < p.order(st)
				}
			}
			r.Check(ok, key, x.remove.Pos(), "seqs = seqs[1:]; delete(events, old seqs[0])", "remove() does not drop exactly the head from both seqs and events: "+describePath(p))
		} else {
			r.Check(len(stores) == 0 && len(dels) == 0, key, x.remove.Pos(), "empty list: nothing removed", "remove() modifies state on the empty-list path: "+describePath(p))
		}
	}
}

// flowsToPhi: v is one of the incoming values of phi (directly or through other phis).
func flowsToPhi(v ssa.Value, phi *ssa.Phi) bool {
	seen := map[*ssa.Phi]bool{}
	var walk func(p *ssa.Phi) bool
	walk = func(p *ssa.Phi) bool {
		if seen[p] {
			return false
		}
		seen[p] = true
		for _, e := range p.Edges {
			if e == v {
				return true
			}
			if pp, ok := e.(*ssa.Phi); ok && walk(pp) {
				return true
			}
		}
		return false
	}
	return walk(phi)
}

// R5: ownership of events / seqs / remove.
func (x *reasm) c01r5() { x.ownership("C01.R5") }

func (x *reasm) ownership(ruleID string) {
	r := x.r
	r.Rule(ruleID, "ownership: events is inserted into only in Put and deleted from only in remove; seqs is stored only in Put, remove and the constructor; remove is called only from CleanUp/Clear", 6)
	for _, a := range x.w.FieldAccesses(x.fEvents) {
		key := "events " + fnName(a.Fn) + " " + a.Kind
		switch a.Kind {
		case "load":
		case "mapupdate":
			r.Check(x.w.ownedBy(a.Fn, x.put), key, a.Instr.Pos(), "insert in Put", "events is inserted into outside Put")
		case "delete":
			r.Check(x.w.ownedBy(a.Fn, x.remove), key, a.Instr.Pos(), "delete in remove", "events is deleted from outside remove()")
		case "store":
			r.Check(x.w.ownedBy(a.Fn, x.newEventList), key, a.Instr.Pos(), "map created by the constructor", "the events map is replaced outside the constructor")
		case "valarg":
			n := calleeName(a.Instr)
			r.Check(n == "len", key+" "+n, a.Instr.Pos(), "", "events map handed to "+n)
		default:
			r.Fail(key, a.Instr.Pos(), "events is "+a.Kind+" here (not in the reviewed table)")
		}
	}
	for _, a := range x.w.FieldAccesses(x.fSeqs) {
		key := "seqs " + fnName(a.Fn) + " " + a.Kind
		switch a.Kind {
		case "load":
		case "store":
			r.Check(x.w.ownedBy(a.Fn, x.put) || x.w.ownedBy(a.Fn, x.remove) || x.w.ownedBy(a.Fn, x.newEventList), key, a.Instr.Pos(), "", "seqs is stored outside Put, remove and the constructor")
		case "reslice":
			r.Check(x.w.ownedBy(a.Fn, x.remove), key, a.Instr.Pos(), "", "seqs is resliced outside remove()")
		case "valarg":
			n := calleeName(a.Instr)
			okc := n == "len" || n == "append" && x.w.ownedBy(a.Fn, x.put) || n == fnName(x.sortFn) && x.w.ownedBy(a.Fn, x.put)
			r.Check(okc, key+" "+n, a.Instr.Pos(), "", "seqs handed to "+n+" in "+fnName(a.Fn))
		default:
			r.Fail(key, a.Instr.Pos(), "seqs is "+a.Kind+" here (not in the reviewed table)")
		}
	}
	for _, s := range x.w.CallSites(x.remove) {
		r.Check(s.Kind == "static" && (x.w.ownedBy(s.Caller, x.cleanUp) || x.w.ownedBy(s.Caller, x.clear)), "caller of remove: "+fnName(s.Caller), s.Instr.Pos(),
			"", "remove() is called from "+fnName(s.Caller)+" ("+s.Kind+")")
	}
}

// R6: one callback per evicted event, one callback call per CleanUp/Clear.
func (x *reasm) c01r6() { x.deliveryFromEviction("C01.R6") }

func (x *reasm) deliveryFromEviction(ruleID string) {
	r := x.r
	r.Rule(ruleID, "one ReassemblyComplete per evicted event (single forward loop in callback, no other invoke); PushMessage, Maintain and Close each call callback exactly once with both results of the CleanUp/Clear made on that path", 6)
	inv := x.w.Invokes(x.stream, "ReassemblyComplete")
	for _, s := range inv {
		r.Check(x.w.ownedBy(s.Caller, x.callback), "ReassemblyComplete invoked in "+fnName(s.Caller), s.Instr.Pos(), "", "ReassemblyComplete is invoked outside callback")
	}
	r.Check(len(inv) == 1, "single ReassemblyComplete site", x.callback.Pos(), "", fmt.Sprintf("%d invoke sites of ReassemblyComplete", len(inv)))
	loops := NaturalLoops(x.callback)
	if len(loops) != 1 {
		r.Fail("callback loop", x.callback.Pos(), fmt.Sprintf("expected one loop in callback, found %d", len(loops)))
	} else {
		l := loops[0]
		ps, _ := IterationPaths(x.callback, l)
		for i, p := range ps {
			calls := p.CallsNamed("invoke:libaudit.Stream.ReassemblyComplete")
			key := fmt.Sprintf("callback iteration#%d [%s]", i, p.End)
			if p.End == "stop" {
				ok := len(calls) == 1
				if ok {
					cc := calls[0].Instr.(ssa.CallInstruction).Common()
					f, base := loadedField(cc.Args[0])
					ok = f == x.fMsgs && Term(cc.Value) == "p0.stream"
					if ok {
						// base is the element p1[idx] of the forward range
						ok = isForwardRangeElem(base, x.callback.Params[1])
					}
				}
				r.Check(ok, key, x.callback.Pos(), "delivers e.msgs of the current element of the forward walk over the evicted slice", "iteration does not deliver exactly the current element's msgs once: "+describePath(p))
			} else {
				r.Check(len(calls) == 0, key, x.callback.Pos(), "", "ReassemblyComplete on a path leaving the loop: "+describePath(p))
			}
		}
		// the loop must be left only when the index reaches len
		_ = l
	}
	for _, fn := range []*ssa.Function{x.pushMessage, x.maintain, x.closeFn} {
		ps, _ := Paths(fn, PathOpts{})
		for i, p := range ps {
			cbs := p.Calls(x.callback)
			var srcs []Event
			srcs = append(srcs, p.Calls(x.cleanUp)...)
			srcs = append(srcs, p.Calls(x.clear)...)
			key := fmt.Sprintf("%s path#%d [%s]", fnName(fn), i, strings.Join(p.Lits(), " ∧ "))
			if len(srcs) == 0 && len(cbs) == 0 {
				r.OK(key, fn.Pos(), "no eviction, no callback")
				continue
			}
			ok := len(srcs) == 1 && len(cbs) == 1
			if ok {
				src := srcs[0].Instr.(*ssa.Call)
				args := cbs[0].Instr.(ssa.CallInstruction).Common().Args
				e0, ok0 := args[1].(*ssa.Extract)
				e1, ok1 := args[2].(*ssa.Extract)
				ok = ok0 && ok1 && e0.Tuple == ssa.Value(src) && e0.Index == 0 && e1.Tuple == ssa.Value(src) && e1.Index == 1 &&
					isParamValue(args[0], fn.Params[0]) && len(fullArgs(&src.Call)) > 0 && Term(fullArgs(&src.Call)[0]) == "p0.list" && p.order(src) < p.order(cbs[0].Instr)
			}
			r.Check(ok, key, fn.Pos(), "callback(evicted, lost) of the same CleanUp/Clear call", "eviction results and callback are not paired one-to-one: "+describePath(p))
		}
	}
	// CleanUp / Clear are called only from these three
	for _, f := range []*ssa.Function{x.cleanUp, x.clear, x.callback} {
		for _, s := range x.w.CallSites(f) {
			ok := s.Kind == "static" && (x.w.ownedBy(s.Caller, x.pushMessage) || x.w.ownedBy(s.Caller, x.maintain) || x.w.ownedBy(s.Caller, x.closeFn))
			r.Check(ok, "caller of "+f.Name()+": "+fnName(s.Caller), s.Instr.Pos(), "", f.Name()+" is called from "+fnName(s.Caller)+", whose handling of the results is not checked")
		}
	}
}

// isForwardRangeElem: v is the address/value of base[i] where i walks 0,1,2,... (go/ssa's lowering
// of `for _, e := range base`: i = φ{-1, i+1}; element index i+1).
func isForwardRangeElem(v ssa.Value, base ssa.Value) bool {
	return isForwardElem(v, func(b ssa.Value) bool { return b == base })
}

// isForwardElem: v is base[i] for a base accepted by isBase and an index i that walks forward
// from 0 in steps of one (range loop or counted loop).
func isForwardElem(v ssa.Value, isBase func(ssa.Value) bool) bool {
	v = stripConv(v)
	var idx ssa.Value
	switch e := v.(type) {
	case *ssa.UnOp:
		ia, ok := e.X.(*ssa.IndexAddr)
		if !ok || !isBase(ia.X) {
			return false
		}
		idx = ia.Index
	case *ssa.Index:
		if !isBase(e.X) {
			return false
		}
		idx = e.Index
	default:
		return false
	}
	// counted form `for i := 0; i < len(s); i++ { s[i] }`: the index is φ{0 | φ+1}
	if phi, isPhi := idx.(*ssa.Phi); isPhi && len(phi.Edges) == 2 {
		hasInit, hasInc := false, false
		for _, e := range phi.Edges {
			if isConstInt(e, 0) {
				hasInit = true
			}
			if b, isB := e.(*ssa.BinOp); isB && b.Op == token.ADD && b.X == ssa.Value(phi) && isConstInt(b.Y, 1) {
				hasInc = true
			}
		}
		return hasInit && hasInc
	}
	inc, ok := idx.(*ssa.BinOp)
	if !ok || inc.Op != token.ADD || !isConstInt(inc.Y, 1) {
		return false
	}
	phi, ok := inc.X.(*ssa.Phi)
	if !ok || len(phi.Edges) != 2 {
		return false
	}
	hasInit, hasInc := false, false
	for _, e := range phi.Edges {
		if isConstInt(e, -1) {
			hasInit = true
		}
		if e == ssa.Value(inc) {
			hasInc = true
		}
	}
	return hasInit && hasInc
}

func (x *reasm) c01r7() {
	r := x.r
	r.Rule("C01.R7", "a nil message returns before Put", 1)
	calls := callsIn(x.pushMessage, x.put)
	for _, c := range calls {
		r.Check(HoldsAt(c.Block(), "p1 != nil") && isParamValue(c.Common().Args[1], x.pushMessage.Params[1]),
			"PushMessage→Put", c.Pos(), "Put(msg) dominated by msg != nil", "Put is reached without the msg != nil guard, or with another value")
	}
	r.Check(len(calls) == 1, "PushMessage calls Put once", x.pushMessage.Pos(), "", fmt.Sprintf("%d calls of Put in PushMessage", len(calls)))
	for _, s := range x.w.CallSites(x.put) {
		r.Check(x.w.ownedBy(s.Caller, x.pushMessage) && s.Kind == "static", "caller of Put: "+fnName(s.Caller), s.Instr.Pos(), "", "Put is called from "+fnName(s.Caller))
	}
	// Push → PushMessage with the parsed message under err == nil
	for _, c := range callsIn(x.push, x.pushMessage) {
		r.Check(HoldsAt(c.Block(), "auparse.Parse(p1, string(p2))#1 == nil"), "Push→PushMessage", c.Pos(), "parsed message pushed only when parsing succeeded", "Push forwards a message although Parse failed")
	}
}

// ----------------------------------------------------------------------------------------------
// C02

func init() {
	props["C02"] = propC02
	propMeta["C02"] = PropMeta{
		Explanation: "Ordering ingredients decided structurally: the roll-over window constant; the comparator Less decided exactly as a function of its two elements (every path is a conjunction of linear comparisons of the widened elements; for each region a-b > M, b-a > M, |a-b| <= M a path can reach, Fourier-Motzkin refutation shows the returned comparison is the serial-number order, with no 32-bit wrap in any subtraction); sort-after-insert on every path of Put that grows seqs, head-of-line-only eviction (only seqs[0] is ever evicted and a non-evicting iteration leaves the loop), forward walk of the evicted slice in callback with append-at-end accumulation.",
		NotDecided:  "That sort.Sort sorts a window in which Less is a strict weak order (it is one when all buffered sequence numbers lie within one 2^24 window, which is the property's stated domain), and the delivered order under concurrent callers.",
		Assumptions: []string{"sort.Sort sorts according to Less"},
	}
}

// lessSemantics decides what Less computes from the shape of its paths: every branch of Less
// compares linear expressions of the two elements a = p[i], b = p[j] (widened to int64), so
// each path is a conjunction of linear constraints. For every path and every region of the
// plane — a-b > M, b-a > M, |a-b| <= M — that the path can reach, the returned comparison is
// shown (by Fourier–Motzkin refutation over the path's constraints) to coincide with the
// serial-number order: a > b when the elements are more than M apart, a < b otherwise. This is
// a finite case analysis over orderings; no input is run and no path is handed to a solver.
func (x *reasm) lessSemantics() { x.lessSemanticsAs("C02.R2", "C02.R3") }

func (x *reasm) lessSemanticsAs(idR2, idR3 string) {
	r := x.r
	M := int64(16777215)
	fn := x.less
	hasAbs := x.absFn != nil
	// R2: no narrow or unsigned subtraction feeds the decision
	r.Rule(idR2, "the distance is computed without 32-bit wrap: every subtraction in Less (and abs) has signed 64-bit operands that are widening conversions of the elements, or operates on such differences", 1)
	scopeFns := []*ssa.Function{fn}
	if hasAbs {
		scopeFns = append(scopeFns, x.absFn)
	}
	for _, f := range scopeFns {
		instrsOf(f, func(in ssa.Instruction) {
			var bt *types.Basic
			var ops []ssa.Value
			switch b := in.(type) {
			case *ssa.BinOp:
				if b.Op != token.SUB {
					return
				}
				bt, _ = b.Type().Underlying().(*types.Basic)
				ops = []ssa.Value{b.X, b.Y}
			case *ssa.UnOp:
				if b.Op != token.SUB {
					return
				}
				bt, _ = b.Type().Underlying().(*types.Basic)
			default:
				return
			}
			ok64 := bt != nil && bt.Kind() == types.Int64
			for _, op := range ops {
				if cv, isConv := op.(*ssa.Convert); isConv {
					st, _ := cv.X.Type().Underlying().(*types.Basic)
					if st == nil || st.Kind() != types.Uint32 {
						ok64 = false
					}
				} else if c, isC := op.(*ssa.Const); !isC || c.Value == nil {
					ob, _ := op.Type().Underlying().(*types.Basic)
					if ob == nil || ob.Kind() != types.Int64 {
						ok64 = false
					}
				}
			}
			r.Check(ok64, fnName(f)+" subtraction", in.Pos(), "signed 64-bit arithmetic on widened elements", "subtraction on narrow or unsigned operands: "+Term(in.(ssa.Value)))
		})
	}
	// abs, when it exists as a function, is the absolute value
	if hasAbs {
		absOK := false
		ps, _ := Paths(x.absFn, PathOpts{})
		if len(ps) == 2 {
			n := 0
			for _, p := range ps {
				ret := p.Ret()
				if ret == nil || len(ret.Results) != 1 {
					continue
				}
				t := Term(ret.Results[0])
				if p.HasLit("p0 < 0") && t == "-p0" {
					n++
				}
				if p.HasLit("p0 >= 0") && t == "p0" {
					n++
				}
			}
			absOK = n == 2
		}
		// the same function written with the builtin: max(x, -x)
		if len(ps) == 1 {
			if ret := ps[0].Return(); ret != nil && len(ret.Results) == 1 {
				t := Term(ret.Results[0])
				absOK = t == "max(p0, -p0)" || t == "max(-p0, p0)"
			}
		}
		r.Check(absOK, "abs", x.absFn.Pos(), "abs returns -x for x<0 and x otherwise", "abs is not the absolute value")
	}

	r.Rule(idR3, "Less is the serial-number order: on every path, for every region (a-b > M, b-a > M, |a-b| <= M) the path can reach, the returned comparison equals a > b when the elements are more than M = 2^24-1 apart and a < b otherwise (linear case analysis over the path conditions)", 2)
	aT, bT := "p0[p1]", "p0[p2]"
	ps, complete := Paths(fn, PathOpts{})
	if !complete || len(ps) == 0 {
		r.Undecided("Less paths", fn.Pos(), "cannot enumerate the paths of Less")
		return
	}
	for i, p := range ps {
		key := fmt.Sprintf("Less path#%d [%s]", i, strings.Join(p.Lits(), " ∧ "))
		ret := p.Ret()
		if ret == nil || len(ret.Results) != 1 {
			r.Fail(key, fn.Pos(), "no single result")
			continue
		}
		// linear reading of values along this path; abs(e) becomes a fresh atom with a case split
		type absUse struct {
			atom string
			arg  Lin
		}
		var absUses []absUse
		opaque := ""
		var lin func(v ssa.Value, depth int) Lin
		lin = func(v ssa.Value, depth int) Lin {
			v = p.Resolve(v)
			if depth > 12 {
				opaque = Term(v)
				return linAtom(Term(v))
			}
			switch y := v.(type) {
			case *ssa.Const:
				if k, ok := constInt(y); ok {
					return linConst(k)
				}
			case *ssa.Convert:
				// widening of an element (uint32 → int64) preserves the value
				st, _ := y.X.Type().Underlying().(*types.Basic)
				dt, _ := y.Type().Underlying().(*types.Basic)
				if st != nil && dt != nil && st.Kind() == types.Uint32 && (dt.Kind() == types.Int64 || dt.Kind() == types.Uint64 || dt.Kind() == types.Int) && x.w.Sizes.Sizeof(dt) == 8 {
					return lin(y.X, depth+1)
				}
			case *ssa.BinOp:
				if bt, _ := y.Type().Underlying().(*types.Basic); bt != nil && bt.Kind() == types.Int64 {
					switch y.Op {
					case token.SUB:
						return lin(y.X, depth+1).sub(lin(y.Y, depth+1))
					case token.ADD:
						return lin(y.X, depth+1).add(lin(y.Y, depth+1))
					}
				}
			case *ssa.UnOp:
				if y.Op == token.SUB {
					if bt, _ := y.Type().Underlying().(*types.Basic); bt != nil && bt.Kind() == types.Int64 {
						return lin(y.X, depth+1).neg()
					}
				}
				if y.Op == token.MUL {
					t := Term(y)
					if t == aT || t == bT {
						return linAtom(t)
					}
				}
			case *ssa.Call:
				if hasAbs && y.Call.StaticCallee() == x.absFn && len(y.Call.Args) == 1 {
					at := fmt.Sprintf("abs#%d", len(absUses))
					for _, u := range absUses {
						if u.arg.String() == lin(y.Call.Args[0], depth+1).String() {
							return linAtom(u.atom)
						}
					}
					absUses = append(absUses, absUse{at, lin(y.Call.Args[0], depth+1)})
					return linAtom(at)
				}
			case *ssa.ChangeType:
				return lin(y.X, depth+1)
			}
			t := Term(v)
			if t != aT && t != bT {
				opaque = t
			}
			return linAtom(t)
		}
		// a comparison with a truth value as a set of rows (each row: expr >= 0)
		cmpRows := func(v ssa.Value, truth bool) ([]Lin, bool) {
			v = p.Resolve(v)
			for {
				if u, ok := v.(*ssa.UnOp); ok && u.Op == token.NOT {
					v = p.Resolve(u.X)
					truth = !truth
					continue
				}
				break
			}
			if c, ok := v.(*ssa.Const); ok && c.Value != nil && c.Value.Kind() == constant.Bool {
				if constant.BoolVal(c.Value) == truth {
					return nil, true
				}
				return []Lin{linConst(-1)}, true // contradiction
			}
			bo, ok := v.(*ssa.BinOp)
			if !ok {
				return nil, false
			}
			op := bo.Op
			if !truth {
				op = negCmp(op)
			}
			X, Y := lin(bo.X, 0), lin(bo.Y, 0)
			switch op {
			case token.LSS:
				return []Lin{Y.sub(X).addK(-1)}, true
			case token.LEQ:
				return []Lin{Y.sub(X)}, true
			case token.GTR:
				return []Lin{X.sub(Y).addK(-1)}, true
			case token.GEQ:
				return []Lin{X.sub(Y)}, true
			case token.EQL:
				return []Lin{X.sub(Y), Y.sub(X)}, true
			}
			return nil, false // != is a disjunction: not used by an order function
		}
		var pathRows []Lin
		okLin := true
		for _, e := range p.Events {
			if e.Kind != EvCond || e.Val == nil {
				continue
			}
			rows, ok := cmpRows(e.Val, e.ValPol)
			if !ok {
				okLin = false
			}
			pathRows = append(pathRows, rows...)
		}
		A, B := linAtom(aT), linAtom(bT)
		domain := []Lin{A, B, linConst(4294967295).sub(A), linConst(4294967295).sub(B)}
		retT, okT := cmpRows(ret.Results[0], true)
		retF, okF := cmpRows(ret.Results[0], false)
		if !okLin || !okT || !okF || opaque != "" {
			r.Undecided(key, ret.Pos(), "a condition or the result of Less is not a linear comparison of the two elements ("+opaque+"): "+describePath(p))
			continue
		}
		// abs case splits
		splits := [][]Lin{nil}
		for _, u := range absUses {
			T := linAtom(u.atom)
			pos := []Lin{u.arg, T.sub(u.arg), u.arg.sub(T)}                      // e >= 0, T = e
			neg := []Lin{u.arg.neg().addK(-1), T.add(u.arg), T.add(u.arg).neg()} // e <= -1, T = -e
			var next [][]Lin
			for _, s := range splits {
				next = append(next, append(append([]Lin{}, s...), pos...), append(append([]Lin{}, s...), neg...))
			}
			splits = next
		}
		type region struct {
			name  string
			rows  []Lin
			expGT bool // expected result: a > b (else a < b)
		}
		regions := []region{
			{"a-b > M", []Lin{A.sub(B).addK(-(M + 1))}, true},
			{"b-a > M", []Lin{B.sub(A).addK(-(M + 1))}, true},
			{"|a-b| <= M", []Lin{linConst(M).sub(A.sub(B)), linConst(M).sub(B.sub(A))}, false},
		}
		bad := ""
		reached := 0
		for _, sp := range splits {
			for _, rg := range regions {
				base := append(append(append([]Lin{}, domain...), pathRows...), sp...)
				base = append(base, rg.rows...)
				if infeasible(base) {
					continue
				}
				reached++
				var expT, expF []Lin // expected comparison true / false
				if rg.expGT {
					expT, expF = []Lin{A.sub(B).addK(-1)}, []Lin{B.sub(A)}
				} else {
					expT, expF = []Lin{B.sub(A).addK(-1)}, []Lin{A.sub(B)}
				}
				c1 := append(append([]Lin{}, base...), append(retT, expF...)...)
				c2 := append(append([]Lin{}, base...), append(retF, expT...)...)
				if !infeasible(c1) || !infeasible(c2) {
					want := "a < b"
					if rg.expGT {
						want = "a > b"
					}
					bad = fmt.Sprintf("in the region %s the path returns %s, which is not %s", rg.name, Term(p.Resolve(ret.Results[0])), want)
				}
			}
		}
		r.Check(bad == "" && reached > 0, key, ret.Pos(), fmt.Sprintf("%d reachable region(s): result is the serial-number order", reached),
			"Less does not order the elements as uint32 serial numbers with window 2^24-1: "+bad+" — "+describePath(p))
	}
}

func propC02(r *Run, w *World) {
	x := loadReasm(r, w)
	if !x.ok {
		return
	}
	// R1
	r.Rule("C02.R1", "the roll-over window constant maxSortRange is 2^24-1 (the window Less is checked against in R3)", 1)
	if c, ok := r.constOf("libaudit", "maxSortRange"); ok {
		r.Check(constVal(c) == "16777215", "maxSortRange", c.Pos(), "= 1<<24 - 1", "maxSortRange = "+constVal(c)+", want 16777215")
	}
	x.lessSemantics()
	// what the order rests on besides Less: the sorted list is changed only by Put (sorted
	// insert) and remove (head drop) and evicted only from CleanUp/Clear, and nothing is
	// delivered that did not come out of such an eviction (shared with C01.R5 / C01.R6)
	x.ownership("C02.R7")
	x.deliveryFromEviction("C02.R8")

	x.sortAfterInsert("C02.R4", "sort after insert: every path of Put that stores seqs calls Sort on the stored slice afterwards; Sort hands the receiver to sort.Sort")

	x.evictionLoops("C02.R5", "head-of-line only: only seqs[0] is ever evicted, and an iteration that does not evict leaves the loop")

	r.Rule("C02.R6", "callback walks the evicted slice forward; evicted grows only by append at the end", 2)
	x.c01r6sub()
}

// sortAfterInsert: the sorted-list invariant every consumer of seqs[0] rests on (delivery order,
// "oldest buffered", the order Close flushes in, and the loss count, which ignores a head that
// is not after the last delivery). Stated under the rule id of the property that needs it.
func (x *reasm) sortAfterInsert(id, desc string) {
	r := x.r
	r.Rule(id, desc, 2)
	ps, _ := Paths(x.put, PathOpts{})
	n := 0
	for i, p := range ps {
		var st *ssa.Store
		for _, e := range p.Events {
			if s, ok := e.Instr.(*ssa.Store); ok && e.Kind == EvStore {
				if fa, ok := s.Addr.(*ssa.FieldAddr); ok && fieldOfAddr(fa) == x.fSeqs {
					st = s
				}
			}
		}
		if st == nil {
			continue
		}
		n++
		ok := false
		for _, c := range p.Calls(x.sortFn) {
			arg := c.Instr.(ssa.CallInstruction).Common().Args[0]
			ld, isLd := stripConv(arg).(*ssa.UnOp)
			if f, _ := loadedField(arg); f == x.fSeqs && isLd && p.order(ld) > p.order(st) {
				ok = true
			}
		}
		r.Check(ok, fmt.Sprintf("Put path#%d sorts after insert", i), st.Pos(), "seqs re-sorted after the append", "seqs grows without being re-sorted on this path: "+describePath(p))
	}
	if n == 0 {
		r.Fail("Put inserts", x.put.Pos(), "no path of Put stores seqs")
	}
	calls := callsNamedIn(x.sortFn, "sort.Sort")
	okS := len(calls) == 1 && isParamValue(stripConv(calls[0].Common().Args[0]), x.sortFn.Params[0])
	r.Check(okS, "Sort→sort.Sort(p)", x.sortFn.Pos(), "", "Sort does not pass its receiver to sort.Sort")
}

// c01r6sub: the forward-walk part of C01.R6, reported under the current rule.
func (x *reasm) c01r6sub() {
	r := x.r
	loops := NaturalLoops(x.callback)
	if len(loops) != 1 {
		r.Fail("callback loop", x.callback.Pos(), "expected one loop")
		return
	}
	for _, c := range callsNamedIn(x.callback, "invoke:libaudit.Stream.ReassemblyComplete") {
		_, base := loadedField(c.Common().Args[0])
		r.Check(base != nil && isForwardRangeElem(base, x.callback.Params[1]), "forward walk", c.Pos(), "element index 0,1,2,...", "callback does not walk the evicted slice forward")
	}
	for _, fn := range []*ssa.Function{x.cleanUp, x.clear} {
		instrsOf(fn, func(in ssa.Instruction) {
			c, ok := in.(*ssa.Call)
			if !ok {
				return
			}
			if _, isApp := isAppendCall(c); !isApp || !types.Identical(c.Type(), fn.Signature.Results().At(0).Type()) {
				return
			}
			base, elems, _, _ := appendParts(c)
			phi, isPhi := base.(*ssa.Phi)
			r.Check(isPhi && flowsToPhi(c, phi) && len(elems) == 1, fnName(fn)+" evicted grows at the end", c.Pos(), "evicted = append(evicted, e)", "evicted is not extended by appending one element to itself")
		})
	}
}

// ----------------------------------------------------------------------------------------------
// C03

func init() {
	props["C03"] = propC03
	propMeta["C03"] = PropMeta{
		Explanation: "Loss accounting decided structurally: every subtraction involving the last delivered sequence is guarded by a comparison that relates both operands (a one-sided guard does not count), lastSeq is never compared with the constant 0 as an 'unset' sentinel (0 is a reachable sequence number), EventsLost is invoked only under lost > 0 with the count returned by the same CleanUp/Clear, the only definitions of lost are 0 and lost + <guarded difference>, and the loss computation of Clear and CleanUp are the same event sequence. lastSeq only moves forward (every store is the first delivery or under a strict order test against the old value), and the list the head is taken from is re-sorted on every insert.",
		NotDecided:  "That the reported sum equals the number of skipped sequence numbers over all histories (arithmetic over histories), and that the guard chosen is the right roll-over comparison (C02.R1-R3 pin the comparator when it is reused).",
		Assumptions: []string{"go/ssa models the source faithfully"},
	}
}

func propC03(r *Run, w *World) {
	x := loadReasm(r, w)
	if !x.ok {
		return
	}
	// after() — which decides whether a sequence counts as newer than the last delivered one —
	// is built on Less: the window constant and the serial-number order are conditions of the
	// loss count as well (shared with C02.R1-R3)
	r.Rule("C03.R7", "the roll-over window constant maxSortRange is 2^24-1 (after() and with it the loss accounting use the same window as the sort order)", 1)
	if c, ok := r.constOf("libaudit", "maxSortRange"); ok {
		r.Check(constVal(c) == "16777215", "maxSortRange", c.Pos(), "= 1<<24 - 1", "maxSortRange = "+constVal(c)+", want 16777215: sequence numbers further apart than the window are taken to be on opposite sides of a roll-over, so a late event counts as newer (or the reverse) and the loss count is wrong")
	}
	x.lessSemanticsAs("C03.R8", "C03.R9")
	x.sortAfterInsert("C03.R10", "the list the head is taken from is kept sorted: every path of Put that stores seqs re-sorts it (the loss count skips a head that is not after the last delivery, so an unsorted list under-counts)")
	// R6: the arithmetic the accounting relies on
	r.Rule("C03.R6", "sequence numbers are 32-bit unsigned: sequenceNum's underlying type is uint32 (the gap is computed modulo 2^32, which is what makes it roll-over aware), lastSeq is a sequenceNum, and AuditMessage.Sequence is a uint32", 3)
	if n, err := w.Named("libaudit", "sequenceNum"); err != nil {
		r.Anchor(err)
	} else {
		b, _ := n.Underlying().(*types.Basic)
		r.Check(b != nil && b.Kind() == types.Uint32, "sequenceNum is uint32", n.Obj().Pos(), "", "sequenceNum is "+typeStr(n.Underlying())+": differences of sequence numbers no longer wrap modulo 2^32, so a gap across the roll-over comes out negative (and is dropped) or huge")
		r.Check(types.Identical(x.fLastSeq.Type(), n), "lastSeq is a sequenceNum", x.fLastSeq.Pos(), "", "lastSeq has type "+typeStr(x.fLastSeq.Type()))
	}
	if fv, err := w.FieldVar("auparse", "AuditMessage", "Sequence"); err != nil {
		r.Anchor(err)
	} else {
		b, _ := fv.Type().Underlying().(*types.Basic)
		r.Check(b != nil && b.Kind() == types.Uint32, "AuditMessage.Sequence is uint32", fv.Pos(), "", "AuditMessage.Sequence is "+typeStr(fv.Type()))
	}
	// R1
	r.Rule("C03.R1", "no unguarded sequence subtraction: every subtraction of sequence type involving lastSeq is dominated by a comparison (or a comparing helper) whose operands include both values", 1)
	var subs []*ssa.BinOp
	for _, fn := range w.PkgFuncs("libaudit") {
		instrsOf(fn, func(in ssa.Instruction) {
			b, ok := in.(*ssa.BinOp)
			if !ok || b.Op != token.SUB {
				return
			}
			var other ssa.Value
			if f, _ := loadedField(b.X); f == x.fLastSeq {
				other = b.Y
			} else if f, _ := loadedField(b.Y); f == x.fLastSeq {
				other = b.X
			} else {
				return
			}
			subs = append(subs, b)
			key := fnName(fn) + " sub(" + Term(b) + ")"
			bt, _ := b.Type().Underlying().(*types.Basic)
			if bt != nil && (bt.Kind() == types.Int64) {
				r.OK(key, b.Pos(), "difference taken in a signed 64-bit type")
				return
			}
			tA, tB := Term(other), "p0.lastSeq"
			if f, base := loadedField(b.X); f == x.fLastSeq {
				tB = Term(stripConv(b.X))
				_ = base
			} else {
				tB = Term(stripConv(b.Y))
			}
			guarded := false
			var seenGuards []string
			for _, g := range GuardsAt(b.Block()) {
				seenGuards = append(seenGuards, g.String())
				if relatesBoth(g.Cond, tA, tB, w) && impliesStrict(g.Cond, g.Pol, w, 0) {
					guarded = true
				}
			}
			r.Check(guarded, key, b.Pos(), "guarded by a strict ordering comparison of both operands",
				fmt.Sprintf("uint32 subtraction %s is not dominated by a strict ordering test relating %s and %s (guards in force: %v); a late or duplicate (equal) sequence wraps to ~2^32", Term(b), tA, tB, seenGuards))
		})
	}
	// R2
	r.Rule("C03.R2", "no zero sentinel: lastSeq is not compared with the constant 0 to decide whether a previous delivery exists", 1)
	nCmp := 0
	for _, fn := range w.PkgFuncs("libaudit") {
		instrsOf(fn, func(in ssa.Instruction) {
			b, ok := in.(*ssa.BinOp)
			if !ok {
				return
			}
			switch b.Op {
			case token.EQL, token.NEQ, token.LSS, token.LEQ, token.GTR, token.GEQ:
			default:
				return
			}
			fx, _ := loadedField(b.X)
			fy, _ := loadedField(b.Y)
			if fx != x.fLastSeq && fy != x.fLastSeq {
				return
			}
			nCmp++
			zero := isConstInt(b.X, 0) || isConstInt(b.Y, 0)
			r.Check(!zero, fnName(fn)+" cmp("+Lit(b, true)+")", b.Pos(), "lastSeq compared with another sequence",
				"lastSeq is compared with the constant 0 as an 'unset' marker; sequence 0 is reachable after roll-over, so the gap after it is never reported")
		})
	}
	if nCmp == 0 {
		// a tree that never compares lastSeq at all: R1 decides; record one obligation so the floor is about the census
		r.OK("census", token.NoPos, "lastSeq is never compared directly; it is only handed to a comparing helper (see R1)")
	}
	// R3
	r.Rule("C03.R3", "EventsLost is invoked only in callback under lost > 0 with callback's own lost parameter; the only definitions of the returned lost are 0 and lost + <loss term>", 4)
	inv := w.Invokes(x.stream, "EventsLost")
	for _, s := range inv {
		cc := s.Instr.(ssa.CallInstruction).Common()
		ok := x.w.ownedBy(s.Caller, x.callback) && HoldsAt(s.Instr.Block(), "p2 > 0") && len(cc.Args) == 1 && isParamValue(cc.Args[0], x.callback.Params[2])
		r.Check(ok, "EventsLost in "+fnName(s.Caller), s.Instr.Pos(), "under lost > 0, with the lost parameter", "EventsLost is not invoked under lost > 0 with callback's lost parameter")
	}
	r.Check(len(inv) == 1, "single EventsLost site", x.callback.Pos(), "", fmt.Sprintf("%d invoke sites of EventsLost", len(inv)))
	for _, fn := range []*ssa.Function{x.cleanUp, x.clear} {
		for _, ret := range retEdges(fn) {
			vals := ret.Results
			if len(vals) != 2 {
				r.Fail(fnName(fn)+" lost", ret.Pos(), "unexpected result count")
				continue
			}
			leaves, phis := phiLeaves(vals[1])
			ok := true
			why := ""
			for _, lf := range leaves {
				if isConstInt(lf, 0) {
					continue
				}
				b, isB := lf.(*ssa.BinOp)
				if !isB || b.Op != token.ADD {
					ok, why = false, Term(lf)
					break
				}
				acc, inc := b.X, b.Y
				if p, isP := acc.(*ssa.Phi); !isP || !phis[p] {
					acc, inc = b.Y, b.X
				}
				if p, isP := acc.(*ssa.Phi); !isP || !phis[p] {
					ok, why = false, "accumulator is not the lost variable: "+Term(lf)
					break
				}
				if !x.isLossTerm(inc, subs, 0) {
					ok, why = false, "increment is not a guarded sequence difference: "+Term(inc)
					break
				}
			}
			r.Check(ok, fnName(fn)+" lost definitions", ret.Pos(), "lost ∈ {0, lost + loss term}", "lost has another definition: "+why)
		}
	}
	// R5
	r.Rule("C03.R5", "lastSeq follows the deliveries: every store to lastSeq stores the sequence being evicted (the head seqs[0], directly or as the helper's parameter at every call site), every path that computes the loss difference also advances lastSeq to that sequence, and each evicting iteration accounts for its head exactly once before remove()", 4)
	{
		var helpers []*ssa.Function
		for _, a := range Writes(w.FieldAccesses(x.fLastSeq)) {
			key := "lastSeq " + a.Kind + " in " + fnName(a.Fn)
			if a.Kind != "store" {
				r.Fail(key, a.Instr.Pos(), "lastSeq is "+a.Kind+" here")
				continue
			}
			t := Term(stripConv(a.Val))
			switch {
			case x.w.ownedBy(a.Fn, x.cleanUp) || x.w.ownedBy(a.Fn, x.clear):
				r.Check(t == "p0.seqs[0]", key, a.Instr.Pos(), "stores the head sequence", "lastSeq is set to "+t+", not to the sequence being evicted")
			case x.w.ownedBy(a.Fn, x.newEventList):
				r.OK(key, a.Instr.Pos(), "constructor")
			default:
				// helper: value must be a parameter that every call site fills with the head
				prm, isP := stripConv(a.Val).(*ssa.Parameter)
				okH := isP
				if isP {
					pi := -1
					for i, pp := range a.Fn.Params {
						if pp == prm {
							pi = i
						}
					}
					sites := w.CallSites(a.Fn)
					if len(sites) == 0 {
						okH = false
					}
					for _, s := range sites {
						ci, isCall := s.Instr.(ssa.CallInstruction)
						if !isCall || s.Kind != "static" || !(x.w.ownedBy(s.Caller, x.cleanUp) || x.w.ownedBy(s.Caller, x.clear)) || Term(stripConv(ci.Common().Args[pi])) != "p0.seqs[0]" {
							okH = false
						}
					}
				}
				r.Check(okH, key, a.Instr.Pos(), "helper stores its parameter; every caller passes the head sequence", "lastSeq is set to "+t+" in "+fnName(a.Fn)+", which is not the evicted head at every call site")
				seen := false
				for _, h := range helpers {
					if h == a.Fn {
						seen = true
					}
				}
				if !seen {
					helpers = append(helpers, a.Fn)
				}
			}
		}
		// every path computing the difference advances lastSeq
		for _, sb := range subs {
			fn := sb.Parent()
			ps, _ := Paths(fn, PathOpts{MaxVisit: 2})
			okAdv := true
			n := 0
			for _, p := range ps {
				if p.order(sb) < 0 || p.End == "cut" {
					continue
				}
				n++
				// the store may come before or after the subtraction, but it must come after the
				// load of lastSeq the subtraction uses (the difference is taken from the old value)
				var loads []ssa.Instruction
				var leaves []ssa.Instruction
				leafInstrs(sb, map[ssa.Value]bool{}, &leaves)
				for _, lf := range leaves {
					if u, ok := lf.(*ssa.UnOp); ok && u.Op == token.MUL {
						if fa, ok := u.X.(*ssa.FieldAddr); ok && fieldOfAddr(fa) == x.fLastSeq {
							loads = append(loads, u)
						}
					}
				}
				adv := false
				for _, e := range p.Events {
					if st, ok := e.Instr.(*ssa.Store); ok && e.Kind == EvStore {
						if fa, ok := st.Addr.(*ssa.FieldAddr); ok && fieldOfAddr(fa) == x.fLastSeq {
							after := true
							for _, ld := range loads {
								if p.order(ld) >= 0 && p.order(st) < p.order(ld) {
									after = false
								}
							}
							if len(loads) == 0 {
								after = p.order(st) > p.order(sb)
							}
							if after {
								adv = true
							}
						}
					}
				}
				if !adv {
					okAdv = false
				}
			}
			r.Check(okAdv && n > 0, fnName(fn)+" difference ⇒ advance", sb.Pos(), "lastSeq advanced after the difference is taken", "a path counts a gap without advancing lastSeq: the same gap is counted again on the next delivery")
		}
		// each evicting iteration accounts exactly once, before remove()
		for _, fn := range []*ssa.Function{x.cleanUp, x.clear} {
			loops := NaturalLoops(fn)
			if len(loops) != 1 {
				continue
			}
			ps, _ := IterationPaths(fn, loops[0])
			for i, p := range ps {
				if p.End != "stop" {
					continue
				}
				acc := 0
				firstAcc := -1
				for _, e := range p.Events {
					if st, ok := e.Instr.(*ssa.Store); ok && e.Kind == EvStore {
						if fa, ok := st.Addr.(*ssa.FieldAddr); ok && fieldOfAddr(fa) == x.fLastSeq {
							acc++
							if firstAcc < 0 {
								firstAcc = p.order(st)
							}
						}
					}
					if c, ok := e.Instr.(*ssa.Call); ok && e.Kind == EvCall {
						for _, h := range helpers {
							if c.Call.StaticCallee() == h {
								acc++
								if firstAcc < 0 {
									firstAcc = p.order(c)
								}
							}
						}
					}
				}
				rm := p.Calls(x.remove)
				okI := acc == 1 && len(rm) == 1 && firstAcc < p.order(rm[0].Instr)
				r.Check(okI, fmt.Sprintf("%s iteration#%d accounts once", fnName(fn), i), fn.Pos(), "", fmt.Sprintf("an evicting iteration accounts for its head %d times (want once, before remove()): %s", acc, compactPath(p)))
			}
		}
	}
	// R11: the position only moves forward
	r.Rule("C03.R11", "the delivery position only moves forward: every store to lastSeq outside the constructor happens, on every path, either while no delivery has been recorded yet or under a strict ordering test that relates the stored sequence to the old lastSeq (a late or duplicate event must not drag the position back, or the next in-order event is counted as a gap)", 1)
	if hl, err := w.FieldVar("libaudit", "eventList", "hasLast"); err != nil {
		r.Anchor(err)
	} else {
		for _, a := range Writes(w.FieldAccesses(x.fLastSeq)) {
			if a.Kind != "store" || x.w.ownedBy(a.Fn, x.newEventList) {
				continue
			}
			st, _ := a.Instr.(*ssa.Store)
			if st == nil {
				continue
			}
			tA := Term(stripConv(a.Val))
			fa, _ := st.Addr.(*ssa.FieldAddr)
			tB := "p0.lastSeq"
			if fa != nil {
				tB = Term(fa.X) + ".lastSeq"
			}
			good := func(cond ssa.Value, pol bool) bool {
				c := cond
				pl := pol
				for {
					if u, ok := c.(*ssa.UnOp); ok && u.Op == token.NOT {
						c, pl = u.X, !pl
						continue
					}
					break
				}
				if f, _ := loadedField(c); f == hl && !pl {
					return true
				}
				return relatesBoth(cond, tA, tB, w) && impliesStrict(cond, pol, w, 0)
			}
			key := "lastSeq store in " + fnName(a.Fn) + " (" + tA + ")"
			dom := false
			for _, g := range GuardsAt(st.Block()) {
				if good(g.Cond, g.Pol) {
					dom = true
				}
			}
			if dom {
				r.OK(key, st.Pos(), "dominated by first-delivery or strict-order guard")
				continue
			}
			ps, complete := Paths(a.Fn, PathOpts{MaxVisit: 2})
			bad := ""
			n := 0
			for _, p := range ps {
				o := p.order(st)
				if o < 0 {
					continue
				}
				n++
				okP := false
				for _, e := range p.Events {
					if e.Kind != EvCond || e.Instr == nil || p.order(e.Instr) > o {
						continue
					}
					if e.Val != nil && good(e.Val, e.ValPol) {
						okP = true
					}
					if ifi, ok := e.Instr.(*ssa.If); ok && good(ifi.Cond, e.Pol) {
						okP = true
					}
				}
				if !okP && bad == "" {
					bad = describePath(p)
				}
			}
			r.Check(complete && n > 0 && bad == "", key, st.Pos(), "every path to the store passes a first-delivery or strict-order test",
				"lastSeq is overwritten with "+tA+" on a path that neither is the first delivery (hasLast false) nor has tested that "+tA+" is after "+tB+": "+bad)
		}
	}
	// R4 siblings
	r.Rule("C03.R4", "siblings agree: the loss computation and lastSeq update of an evicting iteration are the same event sequence in Clear and in CleanUp", 1)
	norm := func(fn *ssa.Function) []string {
		loops := NaturalLoops(fn)
		if len(loops) != 1 {
			return nil
		}
		ps, _ := IterationPaths(fn, loops[0])
		set := map[string]bool{}
		for _, p := range ps {
			if p.End != "stop" {
				continue
			}
			var evs []string
			for _, e := range p.Events {
				s := e.String()
				if strings.Contains(s, ".complete") || strings.Contains(s, "p0.maxSize") || strings.Contains(s, "IsExpired") ||
					s == "if len(p0.seqs) != 0" || s == "len(p0.seqs)" {
					continue
				}
				evs = append(evs, s)
			}
			set[strings.Join(evs, " ; ")] = true
		}
		var out []string
		for k := range set {
			out = append(out, k)
		}
		sort.Strings(out)
		return out
	}
	a, b := norm(x.cleanUp), norm(x.clear)
	same := len(a) > 0 && strings.Join(a, "\n") == strings.Join(b, "\n")
	// the value added to lost must also be the same term
	lostTerm := func(fn *ssa.Function) string {
		for _, ret := range retEdges(fn) {
			vals := ret.Results
			if len(vals) == 2 {
				return Term(vals[1])
			}
		}
		return "?"
	}
	same = same && lostTerm(x.cleanUp) == lostTerm(x.clear)
	r.Check(same, "Clear vs CleanUp", x.clear.Pos(), "same loss accounting in both eviction loops",
		fmt.Sprintf("the evicting iteration differs between CleanUp and Clear:\n  CleanUp: %v / %s\n  Clear:   %v / %s", a, lostTerm(x.cleanUp), b, lostTerm(x.clear)))
}

// relatesBoth: cond compares (or hands to a repository helper that compares) both terms.
func relatesBoth(cond ssa.Value, tA, tB string, w *World) bool {
	for {
		if u, ok := cond.(*ssa.UnOp); ok && u.Op == token.NOT {
			cond = u.X
			continue
		}
		break
	}
	switch c := cond.(type) {
	case *ssa.BinOp:
		switch c.Op {
		case token.EQL, token.NEQ, token.LSS, token.LEQ, token.GTR, token.GEQ:
			x, y := Term(stripConv(c.X)), Term(stripConv(c.Y))
			return (x == tA && y == tB) || (x == tB && y == tA)
		}
	case *ssa.Call:
		f := c.Call.StaticCallee()
		if f == nil || !w.isRepoFn(f) {
			return false
		}
		hasA, hasB := false, false
		for _, a := range c.Call.Args {
			t := Term(stripConv(a))
			if t == tA {
				hasA = true
			}
			if t == tB {
				hasB = true
			}
		}
		if !(hasA && hasB) {
			return false
		}
		// the helper must compare its parameters: some comparison in it (or in what it calls
		// with them) has operands derived from two different parameters.
		return helperCompares(f, w, 0)
	case *ssa.Phi:
		// short-circuit: a && b — accept if any non-constant edge relates both
		for _, e := range c.Edges {
			if _, isC := e.(*ssa.Const); isC {
				continue
			}
			if relatesBoth(e, tA, tB, w) {
				return true
			}
		}
	}
	return false
}

// impliesStrict: "v has truth value pol" can only come from strict comparisons (<, >, or a
// comparator built from them), never from a negated strict test or a non-strict one: equal
// operands must not pass the guard.
func impliesStrict(v ssa.Value, pol bool, w *World, depth int) bool {
	if depth > 5 {
		return false
	}
	switch x := v.(type) {
	case *ssa.Const:
		if x.Value == nil || x.Value.Kind() != constant.Bool {
			return false
		}
		return constant.BoolVal(x.Value) != pol // this value cannot be the one that lets the guard pass
	case *ssa.UnOp:
		if x.Op == token.NOT {
			return impliesStrict(x.X, !pol, w, depth+1)
		}
	case *ssa.BinOp:
		switch x.Op {
		case token.LSS, token.GTR:
			return pol
		case token.LEQ, token.GEQ:
			return !pol
		}
		return false
	case *ssa.Phi:
		for _, e := range x.Edges {
			if !impliesStrict(e, pol, w, depth+1) {
				return false
			}
		}
		return len(x.Edges) > 0
	case *ssa.Call:
		f := x.Call.StaticCallee()
		if f == nil || !w.isRepoFn(f) {
			return false
		}
		rets := returnsOf(f)
		for _, ret := range rets {
			vals := ret.Results
			if len(vals) != 1 || !impliesStrict(vals[0], pol, w, depth+1) {
				return false
			}
		}
		return len(rets) > 0
	}
	return false
}

func helperCompares(f *ssa.Function, w *World, depth int) bool {
	if depth > 3 || len(f.Blocks) == 0 {
		return false
	}
	found := false
	instrsOf(f, func(in ssa.Instruction) {
		switch v := in.(type) {
		case *ssa.BinOp:
			switch v.Op {
			case token.EQL, token.NEQ, token.LSS, token.LEQ, token.GTR, token.GEQ:
				if derivesFromParam(v.X) && derivesFromParam(v.Y) && Term(v.X) != Term(v.Y) {
					found = true
				}
			}
		case *ssa.Call:
			if g := v.Call.StaticCallee(); g != nil && w.isRepoFn(g) && g != f {
				if helperCompares(g, w, depth+1) {
					found = true
				}
			}
		}
	})
	return found
}

func derivesFromParam(v ssa.Value) bool {
	var ins []ssa.Instruction
	seen := map[ssa.Value]bool{}
	var walk func(ssa.Value) bool
	walk = func(x ssa.Value) bool {
		if seen[x] {
			return false
		}
		seen[x] = true
		switch y := x.(type) {
		case *ssa.Parameter:
			return true
		case *ssa.Const:
			return false
		case ssa.Instruction:
			var ops []*ssa.Value
			for _, op := range y.Operands(ops) {
				if *op != nil && walk(*op) {
					return true
				}
			}
		}
		return false
	}
	_ = ins
	return walk(v)
}

// isLossTerm: v is int(seq - lastSeq - 1) for one of the R1 sites, or a call of a repository
// function all of whose results are 0 or such a term.
func (x *reasm) isLossTerm(v ssa.Value, subs []*ssa.BinOp, depth int) bool {
	if depth > 3 {
		return false
	}
	v = stripConv(v)
	if cv, ok := v.(*ssa.Convert); ok {
		v = cv.X
	}
	switch y := v.(type) {
	case *ssa.BinOp:
		if y.Op == token.SUB && isConstInt(y.Y, 1) {
			for _, s := range subs {
				if y.X == ssa.Value(s) {
					return true
				}
			}
		}
	case *ssa.Call:
		f := y.Call.StaticCallee()
		if f == nil || !x.w.isRepoFn(f) {
			return false
		}
		for _, ret := range retEdges(f) {
			vals := ret.Results
			if len(vals) != 1 {
				return false
			}
			leaves, _ := phiLeaves(vals[0])
			for _, lf := range leaves {
				if isConstInt(lf, 0) {
					continue
				}
				if !x.isLossTerm(lf, subs, depth+1) {
					return false
				}
			}
		}
		return true
	}
	return false
}

// ----------------------------------------------------------------------------------------------
// C10

func init() {
	props["C10"] = propC10
	propMeta["C10"] = PropMeta{
		Explanation: "Eviction predicate decided as path conditions of CleanUp's loop: every path from the loop head to remove() carries one of {head.complete, len(seqs) > maxSize, head.IsExpired()}, every path from the loop head to the return carries len(seqs) == 0 or the negation of all three, the size/head values are recomputed inside the loop, the comparison with maxSize is strict on len(seqs) itself; every push runs CleanUp after Put; completion is stored only as `true` under exactly the documented record-type disjunction (Add) or EOE-of-a-buffered-event (Put); maxSize/timeout are written only by the constructor from NewReassembler's parameters.",
		NotDecided:  "Nothing further for single-goroutine use; elapsed time is the opaque predicate IsExpired (C19).",
		Assumptions: []string{"go/ssa models the source faithfully"},
	}
}

func propC10(r *Run, w *World) {
	x := loadReasm(r, w)
	if !x.ok {
		return
	}
	x.evictionPredicate("C10.R1")
	x.pushCleansUp("C10.R2")
	// R3
	r.Rule("C10.R3", "what 'complete' means: the only stores to event.complete store true; in Add under exactly PROCTITLE || <= LAST_DAEMON || >= ANOM_LOGIN_FAILURES; in Put under EOE of a found event", 4)
	for _, a := range w.FieldAccesses(x.fComplete) {
		switch a.Kind {
		case "load":
			continue
		case "store":
			r.Check(isConstTrue(a.Val) && (x.w.ownedBy(a.Fn, x.add) || x.w.ownedBy(a.Fn, x.put)), "store complete in "+fnName(a.Fn), a.Instr.Pos(), "stores true", "event.complete is stored "+Term(a.Val)+" in "+fnName(a.Fn))
			if x.w.ownedBy(a.Fn, x.put) {
				ok := HoldsAt(a.Instr.Block(), "p1.RecordType == "+x.eoe) && HoldsAt(a.Instr.Block(), "has(p0.events, p1.Sequence)") &&
					AddrTerm(a.Instr.(*ssa.Store).Addr) == "p0.events[p1.Sequence].complete"
				r.Check(ok, "Put marks EOE complete", a.Instr.Pos(), "under RecordType == AUDIT_EOE ∧ found, on the found event", "Put marks an event complete outside EOE ∧ found, or marks another event")
			}
		default:
			r.Fail("complete "+a.Kind+" in "+fnName(a.Fn), a.Instr.Pos(), "event.complete is "+a.Kind)
		}
	}
	lits := []string{"p1.RecordType == " + x.proctitle, "p1.RecordType <= " + x.lastDaemon, "p1.RecordType >= " + x.anomLoginFailures}
	ps, _ := Paths(x.add, PathOpts{})
	for i, p := range ps {
		stores := 0
		for _, e := range p.Events {
			if st, ok := e.Instr.(*ssa.Store); ok && e.Kind == EvStore {
				if fa, ok := st.Addr.(*ssa.FieldAddr); ok && fieldOfAddr(fa) == x.fComplete && isParamValue(fa.X, x.add.Params[0]) {
					stores++
				}
			}
		}
		pos, neg := 0, 0
		for _, l := range lits {
			if p.HasLit(l) {
				pos++
			}
			if p.HasLit(NegLit(l)) {
				neg++
			}
		}
		key := fmt.Sprintf("Add path#%d [%s]", i, strings.Join(p.Lits(), " ∧ "))
		if stores > 0 {
			r.Check(pos >= 1, key, x.add.Pos(), "marked complete under one of the three record-type tests", "event marked complete without one of the documented record-type tests: "+describePath(p))
		} else {
			r.Check(neg == 3, key, x.add.Pos(), "not marked: all three tests false", "a path that does not mark the event complete does not refute all three tests: "+describePath(p))
		}
		// no foreign conditions
		for _, l := range p.Lits() {
			if !containsStr(lits, l) && !containsStr(lits, NegLit(l)) {
				r.Fail(key+" extra", x.add.Pos(), "completion also depends on "+l)
			}
		}
	}
	// R4
	x.configAsPassed("C10.R4")
	x.expiryPolarity("C10.R5")
	x.sortAfterInsert("C10.R6", "seqs[0] is the oldest buffered event: every path of Put that stores seqs re-sorts it")
}

// configAsPassed: the limits the caller chose are the limits that apply (shared by C10 and C19).
func (x *reasm) configAsPassed(ruleID string) {
	r := x.r
	w := x.w
	r.Rule(ruleID, "maxSize and timeout are written only by the constructor, unmodified, from NewReassembler's parameters (no default, clamp or unit change)", 3)
	for _, fv := range []*types.Var{x.fMaxSize, x.fTimeout} {
		for _, a := range Writes(w.FieldAccesses(fv)) {
			want := x.newEventList.Params[0]
			if fv == x.fTimeout {
				want = x.newEventList.Params[1]
			}
			r.Check(x.w.ownedBy(a.Fn, x.newEventList) && a.Kind == "store" && a.Val == ssa.Value(want), fieldName(fv)+" written in "+fnName(a.Fn), a.Instr.Pos(),
				"constructor stores its parameter", fieldName(fv)+" is written outside the constructor or not from its parameter")
		}
	}
	for _, s := range w.CallSites(x.newEventList) {
		ok := x.w.ownedBy(s.Caller, x.newReassembler) && s.Kind == "static"
		if ok {
			args := s.Instr.(ssa.CallInstruction).Common().Args
			ok = isParamValue(args[0], x.newReassembler.Params[0]) && isParamValue(args[1], x.newReassembler.Params[1])
		}
		r.Check(ok, "newEventList called from "+fnName(s.Caller), s.Instr.Pos(), "NewReassembler passes maxInFlight, timeout", "newEventList is not called with NewReassembler's own parameters")
	}
}

func (x *reasm) evictionPredicate(ruleID string) {
	r := x.r
	r.Rule(ruleID, "path conditions of CleanUp's loop: a path to remove() carries complete ∨ len(seqs) > maxSize ∨ IsExpired(); a path to the return carries len(seqs)==0 or the negation of all three; size and head are recomputed in every iteration", 4)
	loops := NaturalLoops(x.cleanUp)
	if len(loops) != 1 {
		r.Fail("CleanUp loop", x.cleanUp.Pos(), "expected exactly one loop")
		return
	}
	l := loops[0]
	head := "p0.events[p0.seqs[0]]"
	causes := []string{head + ".complete", "len(p0.seqs) > p0.maxSize", fnName(x.isExpired) + "(" + head + ")"}
	empty := "len(p0.seqs) == 0"
	ps, complete := IterationPaths(x.cleanUp, l)
	if !complete {
		r.Undecided("CleanUp iteration paths", x.cleanUp.Pos(), "path cap exceeded")
	}
	for i, p := range ps {
		key := fmt.Sprintf("CleanUp iteration#%d [%s] [%s]", i, p.End, strings.Join(p.Lits(), " ∧ "))
		// every condition on the path must be computed inside the loop (no stale size/head)
		for _, e := range p.Events {
			if e.Kind != EvCond {
				continue
			}
			ifi := e.Instr.(*ssa.If)
			if via, ok := e.Via.(*ssa.Call); ok {
				// a condition inside an inlined predicate: what must be fresh are the arguments of
				// the call (the predicate itself reads memory when it runs, inside the loop)
				for _, a := range via.Call.Args {
					if !computedIn(a, l.Body) {
						r.Fail(key+" stale", via.Pos(), "the predicate deciding "+e.Text+" is given a value computed outside the loop (stale across iterations): "+Term(a))
					}
				}
				continue
			}
			if !computedIn(ifi.Cond, l.Body) {
				var outside []string
				var ins []ssa.Instruction
				leafInstrs(ifi.Cond, map[ssa.Value]bool{}, &ins)
				for _, in := range ins {
					if _, isAl := in.(*ssa.Alloc); !isAl && !l.Body[in.Block()] {
						if v, ok := in.(ssa.Value); ok {
							outside = append(outside, fmt.Sprintf("%s [%T in b%d]", Term(v), in, in.Block().Index))
						}
					}
				}
				r.Fail(key+" stale", ifi.Pos(), "condition "+e.Text+" uses a value computed outside the loop (stale across iterations): "+strings.Join(outside, ", "))
			}
		}
		switch p.End {
		case "stop":
			pos := 0
			for _, c := range causes {
				if p.HasLit(c) {
					pos++
				}
			}
			r.Check(pos >= 1 && !p.HasLit(empty), key, x.cleanUp.Pos(), "evicts for cause", "an event is evicted without being complete, over the bound or expired: "+describePath(p))
		case "return":
			if p.HasLit(empty) {
				r.OK(key, x.cleanUp.Pos(), "returns when empty")
				continue
			}
			neg := 0
			for _, c := range causes {
				if p.HasLit(NegLit(c)) {
					neg++
				}
			}
			r.Check(neg == 3, key, x.cleanUp.Pos(), "returns with a head that is neither complete, over the bound, nor expired",
				"CleanUp can return while the head is complete, the list is over maxSize, or the head is expired: "+describePath(p))
		default:
			r.Fail(key, x.cleanUp.Pos(), "unexpected path end: "+describePath(p))
		}
		// foreign conditions in the predicate
		for _, lit := range p.Lits() {
			known := lit == empty || lit == NegLit(empty)
			for _, c := range causes {
				if lit == c || lit == NegLit(c) {
					known = true
				}
			}
			if !known && !x.isLossGuard(lit) {
				r.Fail(key+" extra", x.cleanUp.Pos(), "eviction also depends on "+lit)
			}
		}
	}
}

// isLossGuard: literals that belong to the loss accounting (C03), not to the eviction predicate.
func (x *reasm) isLossGuard(lit string) bool {
	return strings.Contains(lit, "lastSeq") || strings.Contains(lit, "hasLast")
}

func (x *reasm) pushCleansUp(ruleID string) {
	r := x.r
	r.Rule(ruleID, "every push cleans up: on every non-nil path PushMessage calls Put, then CleanUp, then callback; Maintain runs CleanUp too", 2)
	ps, _ := Paths(x.pushMessage, PathOpts{})
	for i, p := range ps {
		key := fmt.Sprintf("PushMessage path#%d [%s]", i, strings.Join(p.Lits(), " ∧ "))
		if p.HasLit("p1 == nil") {
			r.OK(key, x.pushMessage.Pos(), "nil message: nothing to do")
			continue
		}
		puts, cls := p.Calls(x.put), p.Calls(x.cleanUp)
		ok := len(puts) == 1 && len(cls) == 1 && p.order(puts[0].Instr) < p.order(cls[0].Instr)
		r.Check(ok, key, x.pushMessage.Pos(), "Put then CleanUp", "a push does not run CleanUp after Put: "+describePath(p))
	}
	ps, _ = Paths(x.maintain, PathOpts{})
	n := 0
	for _, p := range ps {
		if len(p.Calls(x.cleanUp)) == 1 {
			n++
		}
	}
	r.Check(n >= 1, "Maintain runs CleanUp", x.maintain.Pos(), "", "Maintain never runs CleanUp")
}

// ----------------------------------------------------------------------------------------------
// C19

func init() {
	props["C19"] = propC19
	propMeta["C19"] = PropMeta{
		Explanation: "Expiry and Close decided structurally: IsExpired is time.Now().After(e.expireTime) and expireTime is stored only at event creation as time.Now().Add(timeout); expiry takes part in eviction exactly as in C10.R1; Maintain tests the closed flag before any other work and returns the error without evicting; Close's flush loop leaves only when the list is empty and evicts unconditionally; NewReassembler rejects a nil Stream before allocating.",
		NotDecided:  "Anything stated in elapsed wall-clock time.",
		Assumptions: []string{"time.Now/After/Add behave as documented"},
	}
}

func propC19(r *Run, w *World) {
	x := loadReasm(r, w)
	if !x.ok {
		return
	}
	x.expiryPolarity("C19.R1")
	x.evictionPredicate("C19.R2")
	x.pushCleansUp("C19.R2b")

	r.Rule("C19.R3", "after Close: Maintain tests closed==1 first and returns errReassemblerClosed without evicting or calling back; a second Close takes the error edge", 3)
	{
		ps, _ := Paths(x.maintain, PathOpts{})
		for i, p := range ps {
			key := fmt.Sprintf("Maintain path#%d [%s]", i, strings.Join(p.Lits(), " ∧ "))
			closedLit := "sync/atomic.LoadInt32(&p0.closed) == 1"
			ret := p.Ret()
			if p.HasLit(closedLit) {
				ok := len(p.Calls(x.cleanUp)) == 0 && len(p.Calls(x.callback)) == 0 && ret != nil && Term(ret.Results[0]) == "libaudit.errReassemblerClosed"
				r.Check(ok, key, x.maintain.Pos(), "closed: error, nothing delivered", "Maintain works after Close: "+describePath(p))
			} else if p.HasLit(NegLit(closedLit)) {
				ok := len(p.Calls(x.cleanUp)) == 1 && ret != nil && isNilConst(ret.Results[0])
				r.Check(ok, key, x.maintain.Pos(), "open: CleanUp, nil", "Maintain does not run CleanUp and return nil when open: "+describePath(p))
			} else {
				r.Fail(key, x.maintain.Pos(), "path does not test the closed flag: "+describePath(p))
			}
			// the flag test comes first
			if len(p.Events) > 0 {
				first := p.Events[0]
				r.Check(first.Kind == EvCall && first.Text == "sync/atomic.LoadInt32(&p0.closed)", key+" first", x.maintain.Pos(), "", "Maintain does something before testing the closed flag: "+first.String())
			}
		}
		if g, ok := r.globalOf("libaudit", "errReassemblerClosed"); ok {
			// assigned once, non-nil
			n := 0
			for _, fn := range w.PkgFuncs("libaudit") {
				instrsOf(fn, func(in ssa.Instruction) {
					if st, ok := in.(*ssa.Store); ok && st.Addr == ssa.Value(g) {
						n++
						r.Check(fn.Name() == "init" && !isNilConst(st.Val), "errReassemblerClosed assigned in "+fnName(fn), st.Pos(), "", "errReassemblerClosed is assigned outside init or to nil")
					}
				})
			}
			r.Check(n == 1, "errReassemblerClosed assigned once", g.Pos(), "", fmt.Sprintf("assigned %d times", n))
		}
		x.closeOnce()
	}
	r.Rule("C19.R4", "Close flushes everything: Clear's loop leaves only under len(seqs)==0 and every other iteration evicts the head unconditionally; Close passes both results to callback", 2)
	{
		loops := NaturalLoops(x.clear)
		if len(loops) == 1 {
			ps, _ := IterationPaths(x.clear, loops[0])
			for i, p := range ps {
				key := fmt.Sprintf("Clear iteration#%d [%s] [%s]", i, p.End, strings.Join(p.Lits(), " ∧ "))
				switch p.End {
				case "return":
					r.Check(p.HasLit("len(p0.seqs) == 0"), key, x.clear.Pos(), "leaves only when empty", "Clear can return with events still buffered: "+describePath(p))
				case "stop":
					r.Check(len(p.Calls(x.remove)) == 1, key, x.clear.Pos(), "evicts", "an iteration of Clear does not evict: "+describePath(p))
					for _, lit := range p.Lits() {
						if lit != "len(p0.seqs) != 0" && !x.isLossGuard(lit) {
							r.Fail(key+" extra", x.clear.Pos(), "Clear's eviction depends on "+lit)
						}
					}
				default:
					r.Fail(key, x.clear.Pos(), "unexpected path end")
				}
			}
		} else {
			r.Fail("Clear loop", x.clear.Pos(), "expected exactly one loop")
		}
	}
	x.evictionLoops("C19.R4b", "each eviction hands off exactly the head (shared with C01.R4)")
	x.configAsPassed("C19.R6")
	x.sortAfterInsert("C19.R7", "Close and the time-out sweep flush in order: they walk seqs from the head, and every path of Put that stores seqs re-sorts it")

	r.Rule("C19.R5", "a Reassembler cannot be created without a Stream: NewReassembler returns (nil, err) under stream == nil before allocating", 2)
	{
		ps, _ := Paths(x.newReassembler, PathOpts{})
		for i, p := range ps {
			key := fmt.Sprintf("NewReassembler path#%d [%s]", i, strings.Join(p.Lits(), " ∧ "))
			ret := p.Ret()
			if ret == nil || len(ret.Results) != 2 {
				r.Fail(key, x.newReassembler.Pos(), "no return")
				continue
			}
			if p.HasLit("p2 == nil") {
				ok := isNilConst(ret.Results[0]) && !isNilConst(ret.Results[1]) && len(p.Calls(x.newEventList)) == 0
				r.Check(ok, key, ret.Pos(), "nil stream: (nil, err)", "a nil Stream is accepted: "+describePath(p))
			} else if p.HasLit("p2 != nil") {
				ok := !isNilConst(ret.Results[0]) && isNilConst(ret.Results[1])
				r.Check(ok, key, ret.Pos(), "(reassembler, nil)", "non-nil Stream does not yield a Reassembler: "+describePath(p))
				// stream stored is the parameter
				sts := storesTo(x.newReassembler, AddrTerm(ret.Results[0])+".stream")
				r.Check(len(sts) == 1 && isParamValue(sts[0].Val, x.newReassembler.Params[2]), key+" stream stored", ret.Pos(), "", "the Stream parameter is not what is stored")
			} else {
				r.Fail(key, ret.Pos(), "path does not test stream == nil: "+describePath(p))
			}
		}
	}
}

// closeOnce: C11.R4 / C19.R3 — one Close wins.
func (x *reasm) closeOnce() {
	r := x.r
	cas := "sync/atomic.CompareAndSwapInt32(&p0.closed, 0, 1)"
	ps, _ := Paths(x.closeFn, PathOpts{})
	for i, p := range ps {
		key := fmt.Sprintf("Close path#%d [%s]", i, strings.Join(p.Lits(), " ∧ "))
		ret := p.Ret()
		if ret == nil {
			r.Fail(key, x.closeFn.Pos(), "no return")
			continue
		}
		if p.HasLit(cas) {
			ok := len(p.Calls(x.clear)) == 1 && len(p.Calls(x.callback)) == 1 && isNilConst(ret.Results[0])
			r.Check(ok, key, ret.Pos(), "winner: Clear, callback, nil", "the winning Close does not flush and return nil: "+describePath(p))
		} else if p.HasLit("!" + cas) {
			ok := len(p.Calls(x.clear)) == 0 && len(p.Calls(x.callback)) == 0 && Term(ret.Results[0]) == "libaudit.errReassemblerClosed"
			r.Check(ok, key, ret.Pos(), "loser: error, nothing delivered", "a losing Close delivers or returns nil: "+describePath(p))
		} else {
			r.Fail(key, ret.Pos(), "Close path not decided by CompareAndSwapInt32(&closed, 0, 1): "+describePath(p))
		}
	}
}

// ----------------------------------------------------------------------------------------------
// C11

func init() {
	props["C11"] = propC11
	propMeta["C11"] = PropMeta{
		Explanation: "Lock discipline decided by a lockset dataflow with lock classes and caller inference: every access to a field of eventList/event (all fields except the mutex and the construct-only ones, so new fields are guarded by default) happens with eventList's mutex held, except in the constructor and in callback's loads of detached events; Reassembler.closed is touched only through sync/atomic; no Stream method is invoked and no eventList lock is re-acquired while the lock is held (single lock class, so no lock-order cycle), every call made under the lock is to a reviewed callee; exactly one Close wins the CompareAndSwap; construct-only fields have the constructor as their only writer. No Stream invoke is reachable from a caller that holds any lock (read locks included) at its call site; the conservation conditions of C01 (ownership of events/seqs, one delivery per eviction, evictions through remove()) are stated here too.",
		NotDecided:  "The delivered-exactly-once outcome over all interleavings (follows from the lock discipline plus C01 only informally); no schedule is enumerated and the race detector is not run. The yield hook suggested by the anchor is not added: it serves a dynamic scheduler.",
		Assumptions: []string{"sync.Mutex and sync/atomic semantics", "one eventList per Reassembler (checked: list is written only by NewReassembler)"},
	}
}

func propC11(r *Run, w *World) {
	x := loadReasm(r, w)
	if !x.ok {
		return
	}
	li := w.Locksets(w.PkgFuncs("libaudit"))
	class := "libaudit.eventList." + x.fMutex.Name()

	r.Rule("C11.R1", "lock discipline: every access to a guarded field of eventList/event happens with the eventList mutex held (constructor and callback's loads of detached events exempt)", 20)
	elT, _ := w.Named("libaudit", "eventList")
	evT, _ := w.Named("libaudit", "event")
	constructOnly := map[*types.Var]bool{x.fMaxSize: true, x.fTimeout: true}
	for _, T := range []*types.Named{elT, evT} {
		st := T.Underlying().(*types.Struct)
		for i := 0; i < st.NumFields(); i++ {
			fv := st.Field(i)
			if fv == x.fMutex {
				continue
			}
			for _, a := range w.FieldAccesses(fv) {
				if a.Kind == "valarg" || a.Kind == "reslice" || a.Kind == "alias" || a.Kind == "returned" {
					continue // the load itself is already an access
				}
				key := fmt.Sprintf("%s.%s %s in %s", T.Obj().Name(), fieldName(fv), a.Kind, fnName(a.Fn))
				held := li.HeldFor(a.Instr, class, a.Kind)
				switch {
				case held:
					r.OK(key, a.Instr.Pos(), "lock held")
				case x.w.ownedBy(a.Fn, x.newEventList):
					r.OK(key, a.Instr.Pos(), "constructor: object not yet shared")
				case constructOnly[fv] && a.Kind == "load":
					r.OK(key, a.Instr.Pos(), "immutable after construction (R5)")
				case x.w.ownedBy(a.Fn, x.callback) && a.Kind == "load" && fv == x.fMsgs:
					r.OK(key, a.Instr.Pos(), "load of msgs from an event already detached by CleanUp/Clear (C01.R4/R5/R6)")
				default:
					r.Fail(key, a.Instr.Pos(), fmt.Sprintf("%s.%s is accessed (%s) without the eventList mutex (held: %s)", T.Obj().Name(), fieldName(fv), a.Kind, li.Held(a.Instr)))
				}
			}
		}
	}
	// callback's parameter is the detached slice at every call site (C01.R6 checks pairing)
	// Lock/Unlock pairing: every Lock of the class is followed by a deferred Unlock in the same function
	for _, fn := range w.PkgFuncs("libaudit") {
		var locks, defers, unlocks int
		instrsOf(fn, func(in ssa.Instruction) {
			op, c := lockOp(in)
			if c != class {
				return
			}
			switch op {
			case "lock":
				locks++
			case "defer-unlock":
				defers++
			case "unlock":
				unlocks++
			}
		})
		if locks+defers+unlocks == 0 {
			continue
		}
		r.Check(locks == 1 && defers == 1 && unlocks == 0, "lock pairing in "+fnName(fn), fn.Pos(), "Lock at entry, deferred Unlock", fmt.Sprintf("lock/unlock not paired as Lock + defer Unlock (locks=%d defers=%d unlocks=%d)", locks, defers, unlocks))
	}

	r.Rule("C11.R2", "Reassembler.closed is touched only through sync/atomic", 2)
	for _, a := range w.FieldAccesses(x.fClosed) {
		ok := false
		if a.Kind == "escape" {
			if ci, isCall := a.Instr.(ssa.CallInstruction); isCall {
				if f := ci.Common().StaticCallee(); f != nil && f.Pkg != nil && f.Pkg.Pkg.Path() == "sync/atomic" {
					ok = true
				}
			}
		}
		r.Check(ok, "closed "+a.Kind+" in "+fnName(a.Fn), a.Instr.Pos(), "address handed to sync/atomic", "Reassembler.closed is accessed without sync/atomic ("+a.Kind+")")
	}

	r.Rule("C11.R3", "no user code and no re-acquisition under the lock: every Stream invoke happens with an empty lockset; calls made while the lock is held go only to reviewed callees; the lock is never taken while already held", 6)
	for _, m := range []string{"ReassemblyComplete", "EventsLost"} {
		for _, s := range w.Invokes(x.stream, m) {
			held := li.Held(s.Instr)
			r.Check(len(held) == 0, "invoke "+m+" in "+fnName(s.Caller), s.Instr.Pos(), "no lock held", "Stream."+m+" is invoked while holding "+held.String()+"; a callback that re-enters the Reassembler deadlocks")
			// ... and on no call chain: Held is what is held on every way in (the intersection over
			// call sites), which is the right question for "is this access protected" and the wrong
			// one here — one caller holding a lock is enough to deadlock a re-entering callback
			var viaLock, viaSite string
			seenFn := map[*ssa.Function]bool{}
			var up func(fn *ssa.Function, depth int)
			up = func(fn *ssa.Function, depth int) {
				if seenFn[fn] || depth > 6 {
					return
				}
				seenFn[fn] = true
				for _, cs := range w.CallSites(fn) {
					if _, isGo := cs.Instr.(*ssa.Go); isGo {
						continue
					}
					if h := li.Held(cs.Instr); len(h) > 0 && viaLock == "" {
						viaLock, viaSite = h.String(), fnName(cs.Caller)
					}
					up(cs.Caller, depth+1)
				}
			}
			up(s.Caller, 0)
			r.Check(viaLock == "", "invoke "+m+" in "+fnName(s.Caller)+" on every call chain", s.Instr.Pos(), "no caller holds a lock", "Stream."+m+" is reached from "+viaSite+" while "+viaSite+" holds "+viaLock+" (also a read lock: a callback that calls Close, or re-enters while a writer waits, deadlocks)")
		}
	}
	reviewed := map[string]bool{"time.Now": true, "(time.Time).Add": true, "(time.Time).After": true, "(time.Time).Before": true, "sort.Sort": true,
		"len": true, "cap": true, "append": true, "delete": true, "copy": true, "min": true, "max": true, "clear": true, "(*sync.Mutex).Unlock": true,
		// word-sized atomic operations neither block nor call back
		"sync/atomic.AddInt32": true, "sync/atomic.AddInt64": true, "sync/atomic.AddUint32": true, "sync/atomic.AddUint64": true,
		"sync/atomic.LoadInt32": true, "sync/atomic.LoadInt64": true, "sync/atomic.LoadUint32": true, "sync/atomic.LoadUint64": true,
		"sync/atomic.StoreInt32": true, "sync/atomic.StoreInt64": true, "sync/atomic.StoreUint32": true, "sync/atomic.StoreUint64": true}
	for _, fn := range w.PkgFuncs("libaudit") {
		instrsOf(fn, func(in ssa.Instruction) {
			ci, ok := in.(ssa.CallInstruction)
			if !ok {
				return
			}
			held := li.Held(in)
			if !held[class] {
				return
			}
			if op, c := lockOp(in); c == class {
				if op == "lock" {
					r.Fail("re-lock in "+fnName(fn), in.Pos(), "the eventList mutex is locked while already held (self-deadlock)")
				}
				return
			}
			if _, isDefer := in.(*ssa.Defer); isDefer {
				if op, _ := lockOp(in); op == "defer-unlock" {
					return
				}
			}
			n := calleeName(in)
			callee := ci.Common().StaticCallee()
			key := "call under lock: " + fnName(fn) + " → " + n
			switch {
			case callee != nil && w.isRepoFn(callee):
				r.OK(key, in.Pos(), "repository function, analysed with the lock inherited")
			case reviewed[n]:
				r.OK(key, in.Pos(), "reviewed callee")
			case w.deadHookCall(ci.Common()):
				r.OK(key, in.Pos(), "a hook variable that nothing in the repository ever assigns: the call never runs")
			case ci.Common().IsInvoke():
				r.Fail(key, in.Pos(), "interface method invoked while holding the eventList mutex")
			default:
				r.Undecided(key, in.Pos(), "call to "+n+" while holding the eventList mutex is not in the reviewed table (cannot rule out blocking or re-entry)")
			}
		})
	}

	r.Rule("C11.R6", "results handed out of the lock are detached: what CleanUp/Clear return is accumulated from nil by append only (never a view of a field guarded by the mutex), so callback reads memory no later locked section writes", 2)
	for _, fn := range []*ssa.Function{x.cleanUp, x.clear} {
		for _, ret := range retEdges(fn) {
			vals := ret.Results
			ok := len(vals) == 2
			why := ""
			if ok {
				leaves, _ := phiLeaves(vals[0])
				for _, lf := range leaves {
					if isNilConst(lf) {
						continue
					}
					if c, isApp := isAppendCall(lf); isApp && c.Parent() == fn {
						continue
					}
					ok = false
					why = Term(lf)
				}
			}
			r.Check(ok, fnName(fn)+" returns a detached slice", ret.Pos(), "nil + append only", "the evicted slice handed to the callback shares storage with "+why+": a later CleanUp/Clear overwrites it while callback (outside the lock) still reads it")
		}
	}

	r.Rule("C11.R4", "one Close wins: flush and nil only on the true edge of CompareAndSwapInt32(&closed, 0, 1), the error on the other", 2)
	x.closeOnce()

	// "every message is delivered at most once ... exactly once in a single-sequence group": under
	// the lock discipline above, the per-call conservation conditions of C01 are what rules out a
	// lost or doubled record whichever goroutine runs the call; they are necessary for C11's
	// clause as well and are stated here under its own ids
	x.ownership("C11.R7")
	x.deliveryFromEviction("C11.R8")
	x.evictionLoops("C11.R9", "each eviction hands off exactly the head and removes it through remove() (shared with C01.R4): an event taken out of the table any other way can stay reachable for a concurrent or later Put and swallow a record")

	r.Rule("C11.R5", "immutable after construction: Reassembler.list/.stream and eventList.maxSize/.timeout are written only by the constructors", 4)
	for _, fv := range []*types.Var{x.fList, x.fStream} {
		for _, a := range Writes(w.FieldAccesses(fv)) {
			r.Check(x.w.ownedBy(a.Fn, x.newReassembler) && a.Kind == "store", fieldName(fv)+" written in "+fnName(a.Fn), a.Instr.Pos(), "", "Reassembler."+fieldName(fv)+" is written after construction")
		}
	}
	for _, fv := range []*types.Var{x.fMaxSize, x.fTimeout} {
		for _, a := range Writes(w.FieldAccesses(fv)) {
			r.Check(x.w.ownedBy(a.Fn, x.newEventList) && a.Kind == "store", fieldName(fv)+" written in "+fnName(a.Fn), a.Instr.Pos(), "", "eventList."+fieldName(fv)+" is written after construction")
		}
	}
}

// expiryPolarity: what "expired" means (C19.R1). C10's third cause of eviction - the timeout has
// elapsed - is this predicate, so C10 states it too (C10.R5).
func (x *reasm) expiryPolarity(ruleID string) {
	r := x.r
	r.Rule(ruleID, "expiry polarity: IsExpired is time.Now().After(e.expireTime); expireTime is stored only when the event is created in Put, as time.Now().Add(l.timeout)", 2)
	rets := returnsOf(x.isExpired)
	okE := len(rets) == 1 && len(x.isExpired.Blocks) == 1 && Term(rets[0].Results[0]) == "(time.Time).After(time.Now(), p0.expireTime)"
	r.Check(okE, "IsExpired", x.isExpired.Pos(), "time.Now().After(e.expireTime)", "IsExpired is not time.Now().After(e.expireTime)")
	for _, a := range Writes(x.w.FieldAccesses(x.fExpire)) {
		ok := a.Kind == "store" && x.w.ownedBy(a.Fn, x.put) && Term(a.Val) == "(time.Time).Add(time.Now(), p0.timeout)"
		// ... and only into the event being created: the address is a field of a fresh allocation,
		// not of an event that was looked up (re-arming the timeout on every record would measure
		// it from the last record instead of the first)
		fresh := false
		if a.Addr != nil {
			_, fresh = a.Addr.X.(*ssa.Alloc)
		}
		r.Check(ok && fresh, "expireTime written in "+fnName(a.Fn), a.Instr.Pos(), "time.Now().Add(l.timeout) at creation", "expireTime is written elsewhere, into an existing event, or with another value: "+a.Kind+" "+func() string {
			if a.Val != nil {
				return Term(a.Val)
			}
			return ""
		}())
	}
}
