package main

// A6 — lockset: forward dataflow over (*sync.Mutex).Lock/Unlock (and RWMutex), with locks
// identified by their *class* (the struct field that holds the mutex). `defer Unlock` keeps the
// lock to every exit. A function that is only ever called with a lock held inherits it at entry
// (intersection over all call sites; functions with no caller in the repository, or whose value
// is taken, start empty).

import (
	"go/token"
	"go/types"
	"sort"
	"strings"

	"golang.org/x/tools/go/ssa"
)

type LockSet map[string]bool // lock class name, e.g. "libaudit.eventList.Mutex"

func (s LockSet) clone() LockSet {
	n := LockSet{}
	for k := range s {
		n[k] = true
	}
	return n
}

func (s LockSet) String() string {
	var ks []string
	for k := range s {
		ks = append(ks, k)
	}
	sort.Strings(ks)
	return "{" + strings.Join(ks, ",") + "}"
}

func intersect(a, b LockSet) LockSet {
	n := LockSet{}
	for k := range a {
		if b[k] {
			n[k] = true
		}
	}
	return n
}

func equalLS(a, b LockSet) bool {
	if len(a) != len(b) {
		return false
	}
	for k := range a {
		if !b[k] {
			return false
		}
	}
	return true
}

// sharedSuffix marks the class of a read (shared) lock of an RWMutex.
const sharedSuffix = "#R"

// HeldFor reports whether the lock of class is held before in strongly enough for an access
// of the given kind: writes need the exclusive lock, reads are also fine under the read lock.
func (li *LockInfo) HeldFor(in ssa.Instruction, class string, accessKind string) bool {
	h := li.Held(in)
	if h[class] {
		return true
	}
	switch accessKind {
	case "load", "len", "range", "maplookup", "valarg":
		return h[class+sharedSuffix]
	}
	return false
}

// lockClass identifies the mutex a Lock/Unlock call operates on.
func lockClass(recv ssa.Value) string {
	switch x := recv.(type) {
	case *ssa.FieldAddr:
		pt := x.X.Type().Underlying().(*types.Pointer).Elem()
		return typeStr(pt) + "." + fieldName(fieldOfAddr(x))
	case *ssa.Global:
		return "global:" + x.Name()
	}
	return "term:" + Term(recv)
}

func lockOp(in ssa.Instruction) (op string, class string) {
	var cc *ssa.CallCommon
	switch x := in.(type) {
	case *ssa.Call:
		cc = &x.Call
	case *ssa.Defer:
		cc = &x.Call
	default:
		return "", ""
	}
	f := cc.StaticCallee()
	if f == nil || f.Pkg == nil || f.Pkg.Pkg.Path() != "sync" || len(cc.Args) == 0 {
		return "", ""
	}
	n := fnName(f)
	shared := false
	switch n {
	case "(*sync.Mutex).Lock", "(*sync.RWMutex).Lock":
		op = "lock"
	case "(*sync.RWMutex).RLock":
		op, shared = "lock", true
	case "(*sync.Mutex).Unlock", "(*sync.RWMutex).Unlock":
		op = "unlock"
	case "(*sync.RWMutex).RUnlock":
		op, shared = "unlock", true
	case "(*sync.Mutex).TryLock", "(*sync.RWMutex).TryLock":
		op = "trylock"
	case "(*sync.RWMutex).TryRLock":
		op, shared = "trylock", true
	default:
		return "", ""
	}
	if _, isDefer := in.(*ssa.Defer); isDefer {
		op = "defer-" + op
	}
	class = lockClass(cc.Args[0])
	if shared {
		// a read lock is a different, weaker lock: it permits reading, never writing
		class += sharedSuffix
	}
	return op, class
}

type LockInfo struct {
	w     *World
	Entry map[*ssa.Function]LockSet
	At    map[ssa.Instruction]LockSet // lockset *before* the instruction
}

func (w *World) Locksets(fns []*ssa.Function) *LockInfo {
	li := &LockInfo{w: w, Entry: map[*ssa.Function]LockSet{}, At: map[ssa.Instruction]LockSet{}}
	inScope := map[*ssa.Function]bool{}
	for _, f := range fns {
		inScope[f] = true
	}
	// universe of classes
	all := LockSet{}
	for _, f := range fns {
		instrsOf(f, func(in ssa.Instruction) {
			if op, c := lockOp(in); op != "" {
				all[c] = true
			}
		})
	}
	// call sites per function
	type site struct {
		caller *ssa.Function
		in     ssa.Instruction
	}
	sites := map[*ssa.Function][]site{}
	valueUse := map[*ssa.Function]bool{}
	localClosure := map[*ssa.Function]bool{}
	for _, f := range fns {
		instrsOf(f, func(in ssa.Instruction) {
			if ci, ok := in.(ssa.CallInstruction); ok {
				if _, isGo := in.(*ssa.Go); !isGo {
					if cal := calleeOf(ci.Common()); cal != nil && inScope[cal] {
						sites[cal] = append(sites[cal], site{f, in})
					}
				}
			}
			var ops []*ssa.Value
			for _, op := range in.Operands(ops) {
				if fv, ok := (*op).(*ssa.Function); ok && inScope[fv] {
					if _, isMC := in.(*ssa.MakeClosure); isMC {
						continue // judged by how the closure value is used (below)
					}
					if ci, ok := in.(ssa.CallInstruction); ok && ci.Common().Value == *op {
						if _, isGo := in.(*ssa.Go); !isGo {
							continue
						}
					}
					valueUse[fv] = true
				}
				if mc, ok := (*op).(*ssa.MakeClosure); ok {
					if fv, ok := mc.Fn.(*ssa.Function); ok {
						// a closure that is only ever called directly where it was made (the callee
						// operand of plain calls) runs under its callers' locks like any helper
						if c, isCall := in.(*ssa.Call); isCall && c.Call.Value == *op {
							localClosure[fv] = true
							continue
						}
						valueUse[fv] = true
					}
				}
			}
		})
	}
	for _, f := range fns {
		if len(sites[f]) == 0 || valueUse[f] || externallyCallable(f) || (f.Parent() != nil && !localClosure[f]) {
			li.Entry[f] = LockSet{}
		} else {
			li.Entry[f] = all.clone() // ⊤, lowered by iteration
		}
	}
	for iter := 0; iter < 20; iter++ {
		changed := false
		li.At = map[ssa.Instruction]LockSet{}
		for _, f := range fns {
			li.flow(f)
		}
		for _, f := range fns {
			if len(sites[f]) == 0 || valueUse[f] || (f.Parent() != nil && !localClosure[f]) || externallyCallable(f) {
				continue
			}
			var meet LockSet
			for _, s := range sites[f] {
				at := li.At[s.in]
				if at == nil {
					at = LockSet{}
				}
				if _, isDefer := s.in.(*ssa.Defer); isDefer {
					at = LockSet{} // runs at exit; be conservative
				}
				if meet == nil {
					meet = at.clone()
				} else {
					meet = intersect(meet, at)
				}
			}
			if !equalLS(meet, li.Entry[f]) {
				li.Entry[f] = meet
				changed = true
			}
		}
		if !changed {
			break
		}
	}
	return li
}

func (li *LockInfo) flow(f *ssa.Function) {
	in := map[*ssa.BasicBlock]LockSet{}
	in[f.Blocks[0]] = li.Entry[f].clone()
	work := []*ssa.BasicBlock{f.Blocks[0]}
	out := map[*ssa.BasicBlock]LockSet{}
	for len(work) > 0 {
		b := work[0]
		work = work[1:]
		cur := in[b].clone()
		for _, ins := range b.Instrs {
			li.At[ins] = cur.clone()
			switch op, c := lockOp(ins); op {
			case "lock":
				cur[c] = true
			case "unlock":
				delete(cur, c)
			}
		}
		if prev, ok := out[b]; ok && equalLS(prev, cur) {
			continue
		}
		out[b] = cur
		for _, s := range b.Succs {
			if old, ok := in[s]; ok {
				n := intersect(old, cur)
				if !equalLS(n, old) {
					in[s] = n
					work = append(work, s)
				}
			} else {
				in[s] = cur.clone()
				work = append(work, s)
			}
		}
	}
}

// Held reports the lockset before instruction in.
func (li *LockInfo) Held(in ssa.Instruction) LockSet {
	if s, ok := li.At[in]; ok {
		return s
	}
	return LockSet{}
}

// externallyCallable: an exported function, or an exported method of an exported type.
func externallyCallable(f *ssa.Function) bool {
	if f.Object() == nil || !f.Object().Exported() {
		return false
	}
	if recv := f.Signature.Recv(); recv != nil {
		t := recv.Type()
		if p, ok := t.(*types.Pointer); ok {
			t = p.Elem()
		}
		if n, ok := t.(*types.Named); ok {
			return n.Obj().Exported()
		}
	}
	return true
}

var _ = token.NoPos
