package main

// Canonical terms: a readable normal form of SSA values built from *resolved* operands
// (parameters by index, fields by declared name, constants by value, callees by identity).
// Rules match on these instead of on source text, so renaming a local, reordering statements
// that do not matter, or switching between `if`/`switch` forms does not change a term.

import (
	"fmt"
	"go/constant"
	"go/token"
	"go/types"
	"math/big"
	"sort"
	"strconv"
	"strings"

	"golang.org/x/tools/go/ssa"
)

func shortQual(p *types.Package) string {
	if p == nil {
		return ""
	}
	return shortName(p.Path())
}

func typeStr(t types.Type) string { return canonTypeString(types.TypeString(t, shortQual)) }

// fnName gives a short, stable name for a function.
func fnName(f *ssa.Function) string {
	if f == nil {
		return "<nil>"
	}
	if f.Parent() != nil {
		// anonymous: parent$N
		return fnName(f.Parent()) + "$" + strings.TrimPrefix(f.Name(), f.Parent().Name()+"$")
	}
	name := f.Name()
	if fo, ok := f.Object().(*types.Func); ok {
		name = funcObjName(fo) // reference spelling of a renamed function
	}
	if recv := f.Signature.Recv(); recv != nil {
		// typed atomics are the function forms on the same word: (*atomic.Int32).Load(&x) is
		// atomic.LoadInt32(&x)
		if f.Object() != nil && f.Object().Pkg() != nil && f.Object().Pkg().Path() == "sync/atomic" {
			t := recv.Type()
			if p, ok := t.(*types.Pointer); ok {
				t = p.Elem()
			}
			if n, ok := t.(*types.Named); ok {
				switch n.Obj().Name() {
				case "Int32", "Int64", "Uint32", "Uint64", "Uintptr":
					switch name {
					case "Load", "Store", "Add", "Swap", "CompareAndSwap":
						return "sync/atomic." + name + n.Obj().Name()
					}
				}
			}
		}
		return "(" + typeStr(recv.Type()) + ")." + name
	}
	if fo, ok := f.Object().(*types.Func); ok {
		if _, was := methodAsFunc[fo.Origin()]; was && len(f.Params) > 0 {
			// a method turned into a function keeps its reference spelling
			return "(" + typeStr(f.Params[0].Type()) + ")." + name
		}
	}
	if f.Pkg != nil {
		return shortQual(f.Pkg.Pkg) + "." + name
	}
	if f.Object() != nil && f.Object().Pkg() != nil {
		return shortQual(f.Object().Pkg()) + "." + name
	}
	return name
}

type termer struct {
	depth    int
	phis     map[*ssa.Phi]bool
	noSuffix bool
	// ctx is the block of the instruction whose operand is being rendered: a phi that a guard
	// dominating ctx pins to one incoming edge (resolveUnderGuards) is rendered as that edge
	ctx *ssa.BasicBlock
	// path: phis whose block the path went through are rendered as the edge the path took
	path *Path
}

// Term renders v as it is on this path: every phi takes the value of the edge the path came along.
func (p *Path) Term(v ssa.Value) string {
	t := &termer{phis: map[*ssa.Phi]bool{}, path: p}
	return t.val(v)
}

// Distinct phis of one function can have the same structural term (every `for i := range x`
// lowers to i = φ{-1 | i+1}). To keep term equality meaningful, phis whose structural term
// collides with an earlier phi of the same function get a prime suffix (φ′, φ″, ...), in block
// order. Phis with a unique term are printed without a suffix.
var phiSuffixCache = map[*ssa.Function]map[*ssa.Phi]string{}

func phiSuffix(p *ssa.Phi) string {
	fn := p.Parent()
	m, ok := phiSuffixCache[fn]
	if !ok {
		m = map[*ssa.Phi]string{}
		phiSuffixCache[fn] = m
		// save and clear aliases so the structural base is alias-independent
		saved := termAlias
		termAlias = map[ssa.Value]string{}
		count := map[string]int{}
		for _, b := range fn.Blocks {
			for _, in := range b.Instrs {
				ph, isPhi := in.(*ssa.Phi)
				if !isPhi {
					continue
				}
				tt := &termer{phis: map[*ssa.Phi]bool{}, noSuffix: true}
				base := tt.val(ph)
				n := count[base]
				count[base]++
				m[ph] = strings.Repeat("′", n)
			}
		}
		termAlias = saved
	}
	return m[p]
}

// Term returns the canonical term of a value.
func Term(v ssa.Value) string {
	t := &termer{phis: map[*ssa.Phi]bool{}}
	return t.val(v)
}

// TermAt renders v as it is known at block b: a phi that a guard dominating b pins to one
// incoming edge is rendered as that edge.
func TermAt(v ssa.Value, b *ssa.BasicBlock) string {
	t := &termer{phis: map[*ssa.Phi]bool{}, ctx: b}
	return t.val(v)
}

// AddrTerm returns the canonical term of the location an address value denotes (without '&').
func AddrTerm(v ssa.Value) string {
	t := &termer{phis: map[*ssa.Phi]bool{}}
	return t.deref(v)
}

func constStr(c *ssa.Const) string {
	if c.Value == nil {
		switch c.Type().Underlying().(type) {
		case *types.Struct, *types.Array:
			return "zero(" + typeStr(c.Type()) + ")"
		}
		return "nil"
	}
	switch c.Value.Kind() {
	case constant.String:
		return strconv.Quote(constant.StringVal(c.Value))
	case constant.Bool:
		return c.Value.String()
	case constant.Int:
		return c.Value.ExactString()
	}
	return c.Value.String()
}

// termAlias lets a rule give short names to long sub-terms (typically call results) while it
// evaluates; consulted before the structural rendering.
var termAlias = map[ssa.Value]string{}

func alias(v ssa.Value, name string) func() {
	termAlias[v] = name
	return func() { delete(termAlias, v) }
}

func (t *termer) val(v ssa.Value) string {
	if v == nil {
		return "_"
	}
	if a, ok := termAlias[v]; ok {
		return a
	}
	t.depth++
	defer func() { t.depth-- }()
	if t.depth > 40 {
		return "…"
	}
	if ph, isPhi := v.(*ssa.Phi); isPhi && t.ctx != nil && !t.noSuffix {
		if r := resolveUnderGuards(ph, t.ctx); r != v {
			return t.val(r)
		}
	}
	if in, isIn := v.(ssa.Instruction); isIn && in.Block() != nil {
		saved := t.ctx
		t.ctx = in.Block()
		defer func() { t.ctx = saved }()
	}
	switch x := v.(type) {
	case *ssa.Parameter:
		for i, p := range x.Parent().Params {
			if p == x {
				return "p" + strconv.Itoa(i)
			}
		}
		return "p?"
	case *ssa.FreeVar:
		for i, p := range x.Parent().FreeVars {
			if p == x {
				return "&fv" + strconv.Itoa(i)
			}
		}
		return "&fv?"
	case *ssa.Const:
		return constStr(x)
	case *ssa.Global:
		if theWorld != nil {
			if h := theWorld.tableAlias(x); h != nil {
				x = h
			}
		}
		return "&" + shortQual(x.Pkg.Pkg) + "." + x.Name()
	case *ssa.Function:
		return "fn:" + fnName(x)
	case *ssa.Builtin:
		return x.Name()
	case *ssa.Alloc:
		if par := paramCell(x); par != nil {
			return "&" + t.val(par) // the cell of a captured parameter is the parameter
		}
		if x.Comment == "complit" || x.Comment == "new" || x.Comment == "" {
			return "&new(" + typeStr(x.Type().(*types.Pointer).Elem()) + ")#" + allocIndex(x)
		}
		return "&local." + x.Comment
	case *ssa.FieldAddr:
		st := x.X.Type().Underlying().(*types.Pointer).Elem().Underlying().(*types.Struct)
		return "&" + t.deref(x.X) + "." + fieldName(st.Field(x.Field))
	case *ssa.Field:
		st := x.X.Type().Underlying().(*types.Struct)
		return t.val(x.X) + "." + fieldName(st.Field(x.Field))
	case *ssa.IndexAddr:
		base := ""
		if _, isPtr := x.X.Type().Underlying().(*types.Pointer); isPtr {
			base = t.deref(x.X) // pointer to array
		} else {
			base = t.val(x.X) // slice
		}
		return "&" + base + "[" + t.val(x.Index) + "]"
	case *ssa.Index:
		return t.val(x.X) + "[" + t.val(x.Index) + "]"
	case *ssa.Lookup:
		return t.val(x.X) + "[" + t.val(x.Index) + "]"
	case *ssa.UnOp:
		switch x.Op {
		case token.MUL:
			return t.deref(x.X)
		case token.NOT:
			return "!" + t.val(x.X)
		case token.SUB:
			return "-" + t.val(x.X)
		case token.XOR:
			return "^" + t.val(x.X)
		case token.ARROW:
			return "<-" + t.val(x.X)
		}
		return x.Op.String() + t.val(x.X)
	case *ssa.BinOp:
		// commutative, associative integer operations are flattened and written in one order
		// (operands sorted, constants folded and last; `x + 0` is x), so `from + i`, `i + from`
		// and `(a + b) + c`, `a + (b + c)` are one term
		if isCommutativeInt(x) {
			var ops []string
			var k *big.Int
			var flat func(v ssa.Value)
			flat = func(v ssa.Value) {
				if ph, isPhi := v.(*ssa.Phi); isPhi && x.Block() != nil && !t.noSuffix {
					v = resolveUnderGuards(ph, x.Block())
				}
				if bo, ok := v.(*ssa.BinOp); ok && bo.Op == x.Op && isCommutativeInt(bo) && types.Identical(bo.Type(), x.Type()) {
					if _, aliased := termAlias[v]; !aliased {
						flat(bo.X)
						flat(bo.Y)
						return
					}
				}
				if c, ok := v.(*ssa.Const); ok && c.Value != nil && c.Value.Kind() == constant.Int && (x.Op == token.ADD || x.Op == token.MUL) {
					n, _ := new(big.Int).SetString(c.Value.ExactString(), 10)
					if n != nil {
						if k == nil {
							k = n
						} else if x.Op == token.ADD {
							k = new(big.Int).Add(k, n)
						} else {
							k = new(big.Int).Mul(k, n)
						}
						return
					}
				}
				ops = append(ops, t.val(v))
			}
			flat(x)
			sort.Strings(ops)
			if k != nil && !((x.Op == token.ADD && k.Sign() == 0) || (x.Op == token.MUL && k.Cmp(big.NewInt(1)) == 0)) {
				ops = append(ops, k.String())
			}
			if len(ops) == 0 && k != nil {
				return k.String()
			}
			// x * -1 is -x
			if x.Op == token.MUL && k != nil && k.Cmp(big.NewInt(-1)) == 0 && len(ops) == 2 {
				return "-" + ops[0]
			}
			if len(ops) == 1 {
				return ops[0]
			}
			return "(" + strings.Join(ops, " "+x.Op.String()+" ") + ")"
		}
		return "(" + t.val(x.X) + " " + x.Op.String() + " " + t.val(x.Y) + ")"
	case *ssa.Call:
		if rv, f := transparentResult(&x.Call); rv != nil {
			restore := aliasParams(f, x.Call.Args)
			s := t.val(rv)
			restore()
			return s
		}
		return t.call(&x.Call)
	case *ssa.Extract:
		switch tup := x.Tuple.(type) {
		case *ssa.Lookup:
			if x.Index == 0 {
				return t.val(tup.X) + "[" + t.val(tup.Index) + "]"
			}
			return "has(" + t.val(tup.X) + ", " + t.val(tup.Index) + ")"
		case *ssa.TypeAssert:
			if x.Index == 0 {
				return t.val(tup.X) + ".(" + typeStr(tup.AssertedType) + ")"
			}
			return "is(" + t.val(tup.X) + ", " + typeStr(tup.AssertedType) + ")"
		case *ssa.Next:
			switch x.Index {
			case 0:
				return "rangeok(" + t.val(tup.Iter) + ")"
			case 1:
				return "rangekey(" + t.val(tup.Iter) + ")"
			default:
				return "rangeval(" + t.val(tup.Iter) + ")"
			}
		case *ssa.UnOp: // comma-ok receive
			return t.val(tup) + "#" + strconv.Itoa(x.Index)
		}
		return t.val(x.Tuple) + "#" + strconv.Itoa(x.Index)
	case *ssa.Slice:
		s := t.val(x.X)
		if _, isPtr := x.X.Type().Underlying().(*types.Pointer); isPtr {
			s = t.deref(x.X)
		}
		lo, hi := "", ""
		if x.Low != nil && !isConstInt(x.Low, 0) {
			lo = t.val(x.Low) // s[0:n] is s[:n]
		}
		if _, isPtr := x.X.Type().Underlying().(*types.Pointer); !isPtr && lo == "" && x.High == nil && x.Max == nil {
			return s // s[0:] and s[:] are s
		}
		if x.High != nil {
			hi = t.val(x.High)
		}
		r := s + "[" + lo + ":" + hi
		if x.Max != nil {
			r += ":" + t.val(x.Max)
		}
		return r + "]"
	case *ssa.MakeSlice:
		return "make(" + typeStr(x.Type()) + ", " + t.val(x.Len) + ", " + t.val(x.Cap) + ")"
	case *ssa.MakeMap:
		if x.Reserve != nil {
			return "make(" + typeStr(x.Type()) + ", " + t.val(x.Reserve) + ")"
		}
		return "make(" + typeStr(x.Type()) + ")"
	case *ssa.MakeChan:
		return "make(" + typeStr(x.Type()) + ")"
	case *ssa.MakeInterface:
		return t.val(x.X)
	case *ssa.ChangeType:
		return t.val(x.X)
	case *ssa.ChangeInterface:
		return t.val(x.X)
	case *ssa.Convert:
		return typeStr(x.Type()) + "(" + t.val(x.X) + ")"
	case *ssa.MultiConvert:
		return typeStr(x.Type()) + "(" + t.val(x.X) + ")"
	case *ssa.SliceToArrayPointer:
		return "(" + typeStr(x.Type()) + ")(" + t.val(x.X) + ")"
	case *ssa.MakeClosure:
		var bs []string
		for _, b := range x.Bindings {
			bs = append(bs, t.val(b))
		}
		return "closure:" + fnName(x.Fn.(*ssa.Function)) + "[" + strings.Join(bs, ", ") + "]"
	case *ssa.Phi:
		if t.path != nil {
			if rv := t.path.Resolve(x); rv != ssa.Value(x) {
				return t.val(rv)
			}
		}
		if t.phis[x] {
			return "↺"
		}
		t.phis[x] = true
		defer delete(t.phis, x)
		var es []string
		seen := map[string]bool{}
		for _, e := range x.Edges {
			s := t.val(e)
			if !seen[s] {
				seen[s] = true
				es = append(es, s)
			}
		}
		suffix := ""
		if !t.noSuffix {
			suffix = phiSuffix(x)
		}
		return "φ" + suffix + "{" + strings.Join(es, " | ") + "}"
	case *ssa.TypeAssert:
		return t.val(x.X) + ".(" + typeStr(x.AssertedType) + ")"
	case *ssa.Range:
		return "range(" + t.val(x.X) + ")"
	case *ssa.Next:
		return "next(" + t.val(x.Iter) + ")"
	case *ssa.Select:
		return "select"
	}
	return fmt.Sprintf("?%T", v)
}

func isCommutativeInt(x *ssa.BinOp) bool {
	switch x.Op {
	case token.ADD, token.MUL, token.AND, token.OR, token.XOR:
	default:
		return false
	}
	b, ok := x.Type().Underlying().(*types.Basic)
	return ok && b.Info()&types.IsInteger != 0
}

func allocIndex(a *ssa.Alloc) string {
	n := 0
	for _, b := range a.Parent().Blocks {
		for _, in := range b.Instrs {
			if al, ok := in.(*ssa.Alloc); ok {
				if al == a {
					return strconv.Itoa(n)
				}
				n++
			}
		}
	}
	return "?"
}

// deref: the location term of an address-valued v (what *v denotes).
func (t *termer) deref(v ssa.Value) string {
	s := t.val(v)
	if strings.HasPrefix(s, "&") {
		return s[1:]
	}
	// pointer-valued term (parameter of pointer type, call result...): Go's implicit deref in
	// selectors makes `p.f` the natural spelling; for a bare load we write *p.
	if _, ok := v.(*ssa.UnOp); ok {
		return s
	}
	return s
}

func (t *termer) call(c *ssa.CallCommon) string {
	var args []string
	name := ""
	if c.IsInvoke() {
		name = "invoke:" + typeStr(c.Value.Type()) + "." + c.Method.Name()
		args = append(args, t.val(c.Value))
	} else if m, recv := boundMethod(c); m != nil {
		// a call through a bound method value is the method call
		name = fnName(m)
		args = append(args, t.val(recv))
	} else if f := c.StaticCallee(); f != nil {
		name = fnName(f)
	} else if b, ok := c.Value.(*ssa.Builtin); ok {
		name = b.Name()
		// len(x[:n]) is n (the slice expression would have panicked otherwise)
		if name == "len" && len(c.Args) == 1 {
			a := c.Args[0]
			if ph, isPhi := a.(*ssa.Phi); isPhi && t.ctx != nil {
				a = resolveUnderGuards(ph, t.ctx)
			}
			if sl, isSl := a.(*ssa.Slice); isSl && sl.High != nil && sl.Max == nil {
				if sl.Low == nil {
					return t.val(sl.High)
				}
				if k, isK := constInt(sl.Low); isK && k == 0 {
					return t.val(sl.High)
				}
			}
		}
	} else {
		name = "dyn:" + t.val(c.Value)
	}
	for _, a := range c.Args {
		args = append(args, t.val(a))
	}
	return name + "(" + strings.Join(args, ", ") + ")"
}

// ---------------------------------------------------------------------------------------------
// Literals: boolean conditions with polarity folded in and the constant on the right.

// Lit returns the canonical literal for "cond has truth value pol".
func Lit(cond ssa.Value, pol bool) string {
	for {
		if u, ok := cond.(*ssa.UnOp); ok && u.Op == token.NOT {
			cond = u.X
			pol = !pol
			continue
		}
		break
	}
	if c, ok := cond.(*ssa.Const); ok && c.Value != nil && c.Value.Kind() == constant.Bool {
		if constant.BoolVal(c.Value) == pol {
			return "true"
		}
		return "false"
	}
	// operands are rendered in the context of the block that evaluates the condition
	Term := func(v ssa.Value) string {
		t := &termer{phis: map[*ssa.Phi]bool{}}
		if in, ok := cond.(ssa.Instruction); ok {
			t.ctx = in.Block()
		}
		return t.val(v)
	}
	if b, ok := cond.(*ssa.BinOp); ok {
		op := b.Op
		x, y := b.X, b.Y
		switch op {
		case token.EQL, token.NEQ, token.LSS, token.LEQ, token.GTR, token.GEQ:
			if _, xc := x.(*ssa.Const); xc {
				if _, yc := y.(*ssa.Const); !yc {
					x, y = y, x
					op = flipCmp(op)
				}
			}
			if !pol {
				op = negCmp(op)
			}
			// parity of a non-negative quantity: `n%2 != 0` is `n%2 == 1`, `n%2 == 0` is `n%2 != 1`
			if rem, isRem := x.(*ssa.BinOp); isRem && rem.Op == token.REM && isConstInt(rem.Y, 2) && nonNegative(rem.X) {
				if k, isK := constInt(y); isK && k == 0 {
					switch op {
					case token.NEQ:
						return Term(x) + " == 1"
					case token.EQL:
						return Term(x) + " != 1"
					}
				}
			}
			// non-negative quantities: `> 0`, `>= 1` are `!= 0`; `<= 0`, `< 1` are `== 0`
			if nonNegative(x) {
				if k, isK := constInt(y); isK {
					switch {
					case (op == token.GTR && k == 0) || (op == token.GEQ && k == 1):
						return Term(x) + " != 0"
					case (op == token.LEQ && k == 0) || (op == token.LSS && k == 1):
						return Term(x) + " == 0"
					}
				}
			}
			return Term(x) + " " + op.String() + " " + Term(y)
		}
	}
	if pol {
		return Term(cond)
	}
	return "!" + Term(cond)
}

// nonNegative: len/cap results and values of unsigned type.
func nonNegative(v ssa.Value) bool {
	if c, ok := v.(*ssa.Call); ok {
		if b, isB := c.Call.Value.(*ssa.Builtin); isB && (b.Name() == "len" || b.Name() == "cap") {
			return true
		}
	}
	if b, ok := v.Type().Underlying().(*types.Basic); ok && b.Info()&types.IsUnsigned != 0 {
		return true
	}
	return false
}

func flipCmp(op token.Token) token.Token {
	switch op {
	case token.LSS:
		return token.GTR
	case token.LEQ:
		return token.GEQ
	case token.GTR:
		return token.LSS
	case token.GEQ:
		return token.LEQ
	}
	return op
}

func negCmp(op token.Token) token.Token {
	switch op {
	case token.EQL:
		return token.NEQ
	case token.NEQ:
		return token.EQL
	case token.LSS:
		return token.GEQ
	case token.LEQ:
		return token.GTR
	case token.GTR:
		return token.LEQ
	case token.GEQ:
		return token.LSS
	}
	return op
}

// NegLit negates a canonical literal string.
func NegLit(l string) string {
	for _, pair := range [][2]string{{" == ", " != "}, {" != ", " == "}, {" < ", " >= "}, {" >= ", " < "}, {" <= ", " > "}, {" > ", " <= "}} {
		// only top-level comparison: terms parenthesise nested binops, so the first unparenthesised
		// occurrence is the top-level operator.
		if i := topLevelIndex(l, pair[0]); i >= 0 {
			return l[:i] + pair[1] + l[i+len(pair[0]):]
		}
	}
	if l == "true" {
		return "false"
	}
	if l == "false" {
		return "true"
	}
	if strings.HasPrefix(l, "!") {
		return l[1:]
	}
	return "!" + l
}

func topLevelIndex(s, sub string) int {
	depth := 0
	for i := 0; i+len(sub) <= len(s); i++ {
		switch s[i] {
		case '(', '[', '{':
			depth++
		case ')', ']', '}':
			depth--
		}
		if depth == 0 && strings.HasPrefix(s[i:], sub) {
			return i
		}
	}
	return -1
}

// constInt returns the integer value of a constant SSA value.
func constInt(v ssa.Value) (int64, bool) {
	c, ok := v.(*ssa.Const)
	if !ok || c.Value == nil {
		return 0, false
	}
	if c.Value.Kind() != constant.Int {
		return 0, false
	}
	if i, ok := constant.Int64Val(c.Value); ok {
		return i, true
	}
	if u, ok := constant.Uint64Val(c.Value); ok {
		return int64(u), true
	}
	return 0, false
}

func constString(v ssa.Value) (string, bool) {
	c, ok := v.(*ssa.Const)
	if !ok || c.Value == nil || c.Value.Kind() != constant.String {
		return "", false
	}
	return constant.StringVal(c.Value), true
}

// stripConv removes value-preserving wrappers (ChangeType, MakeInterface, ChangeInterface).
func stripConv(v ssa.Value) ssa.Value {
	for {
		switch x := v.(type) {
		case *ssa.ChangeType:
			v = x.X
		case *ssa.MakeInterface:
			v = x.X
		case *ssa.ChangeInterface:
			v = x.X
		default:
			return v
		}
	}
}
