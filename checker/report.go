package main

// Obligations, verdicts, evidence and known findings.

import (
	"encoding/json"
	"fmt"
	"go/token"
	"go/types"
	"os"
	"path/filepath"
	"sort"
	"strings"
	"time"

	"golang.org/x/tools/go/ssa"
)

type Status string

const (
	StOK        Status = "discharged"
	StViolation Status = "violation"
	StUndecided Status = "undecided"
	StAnchor    Status = "anchor-unresolved"
	StFloor     Status = "floor"
	StInfo      Status = "info"
)

// Obl is one obligation: a rule applied to one construct of the program.
type Obl struct {
	Rule   string `json:"rule"`
	Key    string `json:"key"` // rule-relative, line-independent identity of the construct
	Pos    string `json:"pos,omitempty"`
	Status Status `json:"status"`
	Detail string `json:"detail,omitempty"`
	Arch   string `json:"goarch,omitempty"`
	Known  bool   `json:"known_finding,omitempty"`
}

func (o Obl) FullKey() string { return o.Rule + " " + o.Key }

type RuleInfo struct {
	ID     string `json:"id"`
	Clause string `json:"clause"` // the clause of the property this rule is a necessary condition of
	Floor  int    `json:"floor"`  // instance count confirmed by reading
	Found  int    `json:"instances"`
	Exact  bool   `json:"exhaustive,omitempty"`
}

// Run accumulates the result of deciding one property.
type Run struct {
	Prop   string
	Tier   string
	W      *World
	Obls   []Obl
	Rules  map[string]*RuleInfo
	order  []string
	Notes  []string
	Funcs  map[string]bool
	Arches []string
	start  time.Time
	cur    string
}

func NewRun(prop, tier string) *Run {
	return &Run{Prop: prop, Tier: tier, Rules: map[string]*RuleInfo{}, Funcs: map[string]bool{}, start: time.Now()}
}

// Rule declares a rule; subsequent obligations belong to it.
func (r *Run) Rule(id, clause string, floor int) {
	if _, ok := r.Rules[id]; !ok {
		r.Rules[id] = &RuleInfo{ID: id, Clause: clause, Floor: floor}
		r.order = append(r.order, id)
	}
	r.cur = id
}

func (r *Run) add(st Status, key string, pos token.Pos, detail string) {
	o := Obl{Rule: r.cur, Key: key, Status: st, Detail: detail}
	if r.W != nil {
		o.Pos = r.W.Pos(pos)
		if r.W.GOARCH != "amd64" {
			o.Arch = r.W.GOARCH
		}
	}
	r.Obls = append(r.Obls, o)
	if ri := r.Rules[r.cur]; ri != nil && st != StInfo && st != StFloor {
		ri.Found++
	}
}

func (r *Run) OK(key string, pos token.Pos, detail string)   { r.add(StOK, key, pos, detail) }
func (r *Run) Fail(key string, pos token.Pos, detail string) { r.add(StViolation, key, pos, detail) }
func (r *Run) Undecided(key string, pos token.Pos, detail string) {
	r.add(StUndecided, key, pos, detail)
}
func (r *Run) Info(detail string) { r.Notes = append(r.Notes, r.cur+": "+detail) }

// Check records OK or a violation.
func (r *Run) Check(cond bool, key string, pos token.Pos, okDetail, failDetail string) bool {
	if cond {
		r.OK(key, pos, okDetail)
	} else {
		r.Fail(key, pos, failDetail)
	}
	return cond
}

// Anchor reports an unresolved anchor (renamed/removed identifier): fails, distinct from a violation.
func (r *Run) Anchor(err error) {
	r.add(StAnchor, err.Error(), token.NoPos, "an identifier this rule is anchored on no longer resolves; the rule cannot be evaluated")
}

// must is a helper: resolves or records an anchor failure.
func must[T any](r *Run, v T, err error) (T, bool) {
	if err != nil {
		r.Anchor(err)
		return v, false
	}
	return v, true
}

func (r *Run) constOf(pkg, name string) (*types.Const, bool) {
	c, err := r.W.Const(pkg, name)
	if err != nil {
		r.Anchor(err)
		return nil, false
	}
	return c, true
}

func (r *Run) globalOf(pkg, name string) (*ssa.Global, bool) {
	g, err := r.W.Global(pkg, name)
	if err != nil {
		r.Anchor(err)
		return nil, false
	}
	return g, true
}

func (r *Run) fnOf(pkg, name string) (*ssa.Function, bool) {
	f, err := r.W.Func(pkg, name)
	if err != nil {
		r.Anchor(err)
		return nil, false
	}
	return f, true
}

func (r *Run) methodOf(pkg, typ, name string) (*ssa.Function, bool) {
	f, err := r.W.Method(pkg, typ, name)
	if err != nil {
		r.Anchor(err)
		return nil, false
	}
	return f, true
}

func (r *Run) fieldOf(pkg, typ, name string) (*types.Var, bool) {
	f, err := r.W.FieldVar(pkg, typ, name)
	if err != nil {
		r.Anchor(err)
		return nil, false
	}
	return f, true
}

func (r *Run) UseFn(names ...string) {
	for _, n := range names {
		r.Funcs[n] = true
	}
}

// ---------------------------------------------------------------------------------------------

type KnownFinding struct {
	Property string `json:"property"`
	Rule     string `json:"rule"`
	Key      string `json:"key"`
	Status   string `json:"status"` // open | fixed
	What     string `json:"what"`
	Witness  string `json:"witness,omitempty"`
	Reason   string `json:"reason,omitempty"`
	Commit   string `json:"commit,omitempty"`
}

func verifDir() string {
	if d := os.Getenv("VERIF_DIR"); d != "" {
		return d
	}
	return "/verif"
}

func loadKnown() ([]KnownFinding, error) {
	b, err := os.ReadFile(filepath.Join(verifDir(), "known_findings.json"))
	if err != nil {
		if os.IsNotExist(err) {
			return nil, nil
		}
		return nil, err
	}
	var doc struct {
		Findings []KnownFinding `json:"findings"`
	}
	if err := json.Unmarshal(b, &doc); err != nil {
		return nil, fmt.Errorf("known_findings.json: %w", err)
	}
	return doc.Findings, nil
}

// Finish applies floors and known findings, writes evidence, prints the verdict lines, and
// returns the process exit code.
func (r *Run) Finish(outDir string, quiet bool) int {
	// floors
	for _, id := range r.order {
		ri := r.Rules[id]
		if ri.Found < ri.Floor {
			r.cur = id
			r.add(StFloor, fmt.Sprintf("instances=%d floor=%d", ri.Found, ri.Floor), token.NoPos,
				"the rule matched fewer constructs than were confirmed by reading; it would pass vacuously")
		}
	}
	known, kerr := loadKnown()
	if kerr != nil {
		fmt.Fprintln(os.Stderr, "vcheck:", kerr)
		return 2
	}
	openKF := map[string]*KnownFinding{}
	for i := range known {
		k := &known[i]
		if k.Property == r.Prop && k.Status == "open" {
			openKF[k.Rule+" "+k.Key] = k
		}
	}
	matched := map[string]bool{}
	var violations []Obl
	for i := range r.Obls {
		o := &r.Obls[i]
		if o.Status == StOK || o.Status == StInfo {
			continue
		}
		if o.Status == StViolation {
			if k, ok := openKF[o.FullKey()]; ok {
				o.Known = true
				if !matched[o.FullKey()] {
					matched[o.FullKey()] = true
					fmt.Printf("KNOWN-FINDING: property=%s %s [%s at %s]\n", r.Prop, k.What, o.FullKey(), o.Pos)
				}
				continue
			}
		}
		violations = append(violations, *o)
	}
	for key, k := range openKF {
		if !matched[key] {
			r.Notes = append(r.Notes, fmt.Sprintf("open known finding no longer reproduces: %s (%s)", key, k.What))
		}
	}

	total, discharged := 0, 0
	distinct := map[string]bool{}
	for _, o := range r.Obls {
		if o.Status == StInfo {
			continue
		}
		total++
		if o.Status == StOK {
			discharged++
		}
		distinct[o.FullKey()] = true
	}

	// violation reports (replay files)
	vdir := filepath.Join(outDir, "violations")
	var replayPaths []string
	if len(violations) > 0 {
		os.MkdirAll(vdir, 0o755)
	}
	// remove stale reports for this property
	if ents, err := os.ReadDir(vdir); err == nil {
		for _, e := range ents {
			if strings.HasPrefix(e.Name(), r.Prop+"-") {
				os.Remove(filepath.Join(vdir, e.Name()))
			}
		}
	}
	for i, v := range violations {
		p := filepath.Join(vdir, fmt.Sprintf("%s-%d.json", r.Prop, i+1))
		clause := ""
		if ri := r.Rules[v.Rule]; ri != nil {
			clause = ri.Clause
		}
		doc := map[string]any{"property": r.Prop, "rule": v.Rule, "clause": clause, "key": v.Key, "pos": v.Pos,
			"status": v.Status, "detail": v.Detail, "goarch": v.Arch, "tier": r.Tier}
		b, _ := json.MarshalIndent(doc, "", " ")
		os.WriteFile(p, b, 0o644)
		replayPaths = append(replayPaths, p)
	}

	// evidence
	var rules []*RuleInfo
	for _, id := range r.order {
		rules = append(rules, r.Rules[id])
	}
	samples := r.samples()
	var fns []string
	for f := range r.Funcs {
		fns = append(fns, f)
	}
	sort.Strings(fns)
	var pkgs []string
	files := map[string]string{}
	nfuncs := 0
	if r.W != nil {
		for _, p := range r.W.All {
			pkgs = append(pkgs, p.PkgPath)
		}
		files = r.W.FileHashes()
		nfuncs = len(r.W.SrcFuncs())
	}
	exhaustive := false
	for _, ri := range rules {
		if ri.Exact {
			exhaustive = true
		}
	}
	seed := 0
	fmt.Sscanf(os.Getenv("VERIF_SEED"), "%d", &seed)
	meta := propMeta[r.Prop]
	ev := map[string]any{
		"property_id": r.Prop,
		"tier":        r.Tier,
		"seed":        seed,
		"level":       "other",
		"coverage": map[string]any{
			"explanation":            meta.Explanation,
			"not_decided":            meta.NotDecided,
			"obligations":            total,
			"discharged":             discharged,
			"evaluations":            total,
			"distinct_nontrivial":    len(distinct),
			"rule":                   "one obligation = one rule applied to one resolved construct (function, path, call site, field writer, table entry, constant); distinct = distinct rule+construct keys; every obligation is non-trivial in the sense that the rule's pattern matched a construct and a necessary condition was evaluated on it (rules that match nothing fail their floor instead of passing)",
			"samples":                samples,
			"obligation_list":        r.oblList(400),
			"exhaustive_table_rules": exhaustive,
			"rules":                  rules,
			"functions_analysed":     nfuncs,
			"functions_in_scope":     fns,
			"packages":               pkgs,
			"goarch":                 r.Arches,
			"files":                  files,
			"known_findings_matched": keys(matched),
			"notes":                  r.Notes,
			"checker_cmd":            fmt.Sprintf("bin/vcheck -prop %s -tier %s", r.Prop, r.Tier),
			"trusted_base": []string{"Go type checker (go/types)", "go/ssa construction (x/tools v0.29.0)",
				"gc compiler prove pass (bounds-check elimination listing), where used",
				"library postcondition table in the checker (strings/bytes/strconv/regexp facts), where used",
				"frozen reference data under /verif/ref (UAPI audit.h, POSIX mode bits, sockaddr layouts)"},
		},
		"assumptions": meta.Assumptions,
		"wall_s":      time.Since(r.start).Seconds(),
		"violations":  len(violations),
	}
	os.MkdirAll(outDir, 0o755)
	b, _ := json.MarshalIndent(ev, "", " ")
	if err := os.WriteFile(filepath.Join(outDir, r.Prop+".json"), b, 0o644); err != nil {
		fmt.Fprintln(os.Stderr, "vcheck: cannot write evidence:", err)
		return 2
	}

	if !quiet {
		fmt.Printf("property=%s tier=%s goarch=%s obligations=%d discharged=%d rules=%d violations=%d wall=%.1fs\n",
			r.Prop, r.Tier, strings.Join(r.Arches, ","), total, discharged, len(rules), len(violations), time.Since(r.start).Seconds())
		for _, ri := range rules {
			fmt.Printf("  rule %-8s instances=%-4d floor=%-3d %s\n", ri.ID, ri.Found, ri.Floor, ri.Clause)
		}
		for _, n := range r.Notes {
			fmt.Println("  note:", n)
		}
	}
	for i, v := range violations {
		fmt.Printf("  %s %s: %s — %s (%s)\n", strings.ToUpper(string(v.Status)), v.FullKey(), v.Pos, v.Detail, v.Arch)
		fmt.Printf("VIOLATION property=%s replay=%s\n", r.Prop, replayPaths[i])
	}
	if len(violations) > 0 {
		return 1
	}
	return 0
}

func keys(m map[string]bool) []string {
	out := []string{}
	for k := range m {
		out = append(out, k)
	}
	sort.Strings(out)
	return out
}

// oblList writes out every obligation (up to max; properties with thousands of table entries are truncated).
func (r *Run) oblList(max int) []string {
	var out []string
	for _, o := range r.Obls {
		if o.Status == StInfo {
			continue
		}
		if len(out) >= max {
			out = append(out, fmt.Sprintf("... %d more", len(r.Obls)-max))
			break
		}
		a := ""
		if o.Arch != "" {
			a = " [" + o.Arch + "]"
		}
		out = append(out, fmt.Sprintf("%s%s %s — %s: %s", o.Status, a, o.FullKey(), o.Pos, o.Detail))
	}
	return out
}

// samples writes out a few obligations per rule.
func (r *Run) samples() []any {
	per := map[string]int{}
	var out []any
	for _, o := range r.Obls {
		if o.Status == StInfo {
			continue
		}
		lim := 2
		if o.Status != StOK {
			lim = 50
		}
		if per[o.Rule] >= lim {
			continue
		}
		per[o.Rule]++
		out = append(out, o)
	}
	return out
}

// PropMeta is the per-property static text that goes into the evidence.
type PropMeta struct {
	Technique   string
	Explanation string
	NotDecided  string
	Assumptions []string
}

var propMeta = map[string]PropMeta{}
