package main

// A3 (guard dominance) and A4 (path conditions over small regions).

import (
	"fmt"
	"go/constant"
	"go/token"
	"go/types"
	"sort"
	"strconv"
	"strings"

	"golang.org/x/tools/go/ssa"
)

// ---------------------------------------------------------------------------------------------
// A3 — guards that hold at a program point by dominance.

type Guard struct {
	Cond ssa.Value
	Pol  bool
	If   *ssa.If
}

func (g Guard) String() string { return Lit(g.Cond, g.Pol) }

// GuardsAt returns the literals that hold on entry to block b because a dominating `If` can
// reach b only through one of its edges. A successor S of D contributes when S dominates b and
// S's only predecessor is D (the edge D→S is then on every path to b).
func GuardsAt(b *ssa.BasicBlock) []Guard {
	var out []Guard
	// walk all dominators of b
	for d := b.Idom(); d != nil; d = d.Idom() {
		ifi, ok := d.Instrs[len(d.Instrs)-1].(*ssa.If)
		if !ok {
			continue
		}
		for i, s := range d.Succs {
			if len(s.Preds) == 1 && (s == b || s.Dominates(b)) {
				// guard against If with both successors identical
				if d.Succs[0] == d.Succs[1] {
					continue
				}
				out = append(out, Guard{Cond: ifi.Cond, Pol: i == 0, If: ifi})
			}
		}
	}
	return out
}

var cameDepth int

// cameThrough: the guard `φ == nil` / `φ != nil` (with truth value pol) where only one incoming
// edge of φ can carry such a value — control came along that edge. Returns the phi, the index
// of the edge and the predecessor block.
func cameThrough(cond ssa.Value, pol bool) (*ssa.Phi, int, bool) {
	for {
		if u, ok := cond.(*ssa.UnOp); ok && u.Op == token.NOT {
			cond, pol = u.X, !pol
			continue
		}
		break
	}
	// a boolean result variable: `if ok` where ok = φ{true | false | ...constants}
	if bp, isPhi := cond.(*ssa.Phi); isPhi {
		cand, n := -1, 0
		for i, e := range bp.Edges {
			c, isC := e.(*ssa.Const)
			if !isC || c.Value == nil || c.Value.Kind() != constant.Bool {
				return nil, 0, false
			}
			if constant.BoolVal(c.Value) == pol {
				cand = i
				n++
			}
		}
		if n != 1 {
			return nil, 0, false
		}
		return bp, cand, true
	}
	bo, ok := cond.(*ssa.BinOp)
	if !ok {
		return nil, 0, false
	}
	// integer sentinel: `φ != -1`, `φ >= 0`, `!(φ < 0)` ... where every incoming edge but one is
	// a constant that the comparison rules out
	if ph, isPhi := bo.X.(*ssa.Phi); isPhi {
		if k, isK := constInt(bo.Y); isK {
			switch bo.Op {
			case token.EQL, token.NEQ, token.LSS, token.LEQ, token.GTR, token.GEQ:
				cand, n := -1, 0
				for i, e := range ph.Edges {
					if ek, isEK := constInt(e); isEK {
						holds := false
						switch bo.Op {
						case token.EQL:
							holds = ek == k
						case token.NEQ:
							holds = ek != k
						case token.LSS:
							holds = ek < k
						case token.LEQ:
							holds = ek <= k
						case token.GTR:
							holds = ek > k
						case token.GEQ:
							holds = ek >= k
						}
						if holds != pol {
							continue // this edge's constant contradicts the guard
						}
					}
					cand = i
					n++
				}
				if n != 1 {
					return nil, 0, false
				}
				return ph, cand, true
			}
		}
	}
	if bo.Op != token.EQL && bo.Op != token.NEQ {
		return nil, 0, false
	}
	ph, ok := bo.X.(*ssa.Phi)
	if !ok {
		return nil, 0, false
	}
	if _, isK := constInt(bo.Y); isK {
		return nil, 0, false
	}
	if !isNilConst(bo.Y) {
		return nil, 0, false
	}
	wantNil := (bo.Op == token.EQL) == pol
	cand, n := -1, 0
	// an edge value is also known (non-)nil when the guards of the edge it arrives on say so
	edgeKnows := func(i int, lit string) bool {
		if cameDepth > 2 {
			return false
		}
		cameDepth++
		defer func() { cameDepth-- }()
		pred := ph.Block().Preds[i]
		if HoldsAt(pred, lit) {
			return true
		}
		if ifi, isIf := pred.Instrs[len(pred.Instrs)-1].(*ssa.If); isIf && pred.Succs[0] != pred.Succs[1] {
			return Lit(ifi.Cond, pred.Succs[0] == ph.Block()) == lit
		}
		return false
	}
	for i, e := range ph.Edges {
		if wantNil && (definitelyNonNil(e) || (!isNilConst(e) && edgeKnows(i, Term(e)+" != nil"))) {
			continue
		}
		if !wantNil && (isNilConst(e) || edgeKnows(i, Term(e)+" == nil")) {
			continue
		}
		cand = i
		n++
	}
	if n != 1 {
		return nil, 0, false
	}
	return ph, cand, true
}

// resolveUnderGuards: v is a phi merged in the same block as an error phi that a guard
// dominating `at` pins to one incoming edge (`if err != nil { return }` after an inlined
// helper): v has the value of that edge.
func resolveUnderGuards(v ssa.Value, at *ssa.BasicBlock) ssa.Value {
	for i := 0; i < 4; i++ {
		ph, ok := v.(*ssa.Phi)
		if !ok {
			return v
		}
		changed := false
		for _, g := range GuardsAt(at) {
			if ep, k, ok := cameThrough(g.Cond, g.Pol); ok && ep.Block() == ph.Block() && k < len(ph.Edges) {
				v = ph.Edges[k]
				changed = true
				break
			}
		}
		if !changed {
			return v
		}
	}
	return v
}

var guardLitsDepth int

// GuardLits returns GuardsAt as canonical literal strings; boolean phis that merely carry the
// result of a short-circuit expression are expanded (see expandBoolPhi).
func GuardLits(b *ssa.BasicBlock) []string {
	var out []string
	for _, g := range GuardsAt(b) {
		out = append(out, g.String())
		for _, l := range expandBoolPhi(g.Cond, g.Pol) {
			out = append(out, l)
		}
		if call, neg := predCall(g.Cond); call != nil {
			out = append(out, predImplied(call, g.Pol != neg)...)
		}
		// control came along one edge of an error phi: what held there holds here
		if ph, k, ok := cameThrough(g.Cond, g.Pol); ok && guardLitsDepth < 4 {
			guardLitsDepth++
			pred := ph.Block().Preds[k]
			out = append(out, GuardLits(pred)...)
			if ifi, isIf := pred.Instrs[len(pred.Instrs)-1].(*ssa.If); isIf && pred.Succs[0] != pred.Succs[1] {
				side := pred.Succs[0] == ph.Block()
				out = append(out, Lit(ifi.Cond, side))
				out = append(out, expandBoolPhi(ifi.Cond, side)...)
			}
			guardLitsDepth--
		} else if ph, isNilTest := nilTestedPhi(g.Cond, g.Pol); isNilTest && guardLitsDepth < 3 {
			// several edges of the error phi can carry nil: what holds on every one of them
			// holds here
			guardLitsDepth++
			out = append(out, nilImplied(ph, 0)...)
			guardLitsDepth--
		}
	}
	return out
}

// nilTestedPhi: the guard says φ == nil (with the polarity applied).
func nilTestedPhi(cond ssa.Value, pol bool) (*ssa.Phi, bool) {
	for {
		if u, ok := cond.(*ssa.UnOp); ok && u.Op == token.NOT {
			cond, pol = u.X, !pol
			continue
		}
		break
	}
	bo, ok := cond.(*ssa.BinOp)
	if !ok || (bo.Op != token.EQL && bo.Op != token.NEQ) || !isNilConst(bo.Y) {
		return nil, false
	}
	ph, ok := bo.X.(*ssa.Phi)
	if !ok || (bo.Op == token.EQL) != pol {
		return nil, false
	}
	return ph, true
}

// nilImplied: the literals that hold whenever the phi is nil — the intersection, over the
// incoming edges that can carry nil, of what holds on that edge (the guards of the predecessor,
// the edge's own branch condition, and, when the edge value is itself a phi, what its being
// nil implies). This is how `err = check(); if err == nil && w != nil { _, err = w.Write() };
// if err != nil { return }` still conveys what check() established.
func nilImplied(ph *ssa.Phi, depth int) []string {
	if depth > 3 || len(ph.Edges) > 6 {
		return nil
	}
	var acc map[string]bool
	for i, e := range ph.Edges {
		if definitelyNonNil(e) {
			continue
		}
		pred := ph.Block().Preds[i]
		ls := map[string]bool{}
		for _, l := range GuardLits(pred) {
			ls[l] = true
		}
		if ifi, isIf := pred.Instrs[len(pred.Instrs)-1].(*ssa.If); isIf && len(pred.Succs) == 2 && pred.Succs[0] != pred.Succs[1] {
			side := pred.Succs[0] == ph.Block()
			ls[Lit(ifi.Cond, side)] = true
			for _, l := range expandBoolPhi(ifi.Cond, side) {
				ls[l] = true
			}
		}
		if ls[Term(e)+" != nil"] {
			continue // this edge cannot carry nil
		}
		if !isNilConst(e) {
			ls[Term(e)+" == nil"] = true
			if ep, isPhi := e.(*ssa.Phi); isPhi && ep != ph {
				if k, only := onlyNilEdge(ep); only {
					pp := ep.Block().Preds[k]
					for _, l := range GuardLits(pp) {
						ls[l] = true
					}
					if ifi, isIf := pp.Instrs[len(pp.Instrs)-1].(*ssa.If); isIf && len(pp.Succs) == 2 && pp.Succs[0] != pp.Succs[1] {
						ls[Lit(ifi.Cond, pp.Succs[0] == ep.Block())] = true
					}
				} else {
					for _, l := range nilImplied(ep, depth+1) {
						ls[l] = true
					}
				}
			}
		}
		if acc == nil {
			acc = ls
			continue
		}
		for l := range acc {
			if !ls[l] {
				delete(acc, l)
			}
		}
	}
	var out []string
	for l := range acc {
		out = append(out, l)
	}
	sort.Strings(out)
	return out
}

// onlyNilEdge: exactly one incoming edge of the phi can carry nil.
func onlyNilEdge(ph *ssa.Phi) (int, bool) {
	cand, n := -1, 0
	for i, e := range ph.Edges {
		if definitelyNonNil(e) {
			continue
		}
		cand = i
		n++
	}
	return cand, n == 1
}

// expandBoolPhi: for a phi of booleans produced by `x = a && b` (edges: false from the block
// that tested a, b from the block that evaluated b), pol=true implies a and b; for `a || b`
// (edges: true, b), pol=false implies !a and !b. Returns the additional literals implied.
func expandBoolPhi(cond ssa.Value, pol bool) []string {
	phi, ok := cond.(*ssa.Phi)
	if !ok {
		return nil
	}
	var out []string
	for i, e := range phi.Edges {
		c, isConst := e.(*ssa.Const)
		if isConst && c.Value != nil && c.Value.Kind() == constant.Bool {
			if constant.BoolVal(c.Value) == pol {
				// this edge could be the one taken: nothing is implied
				return nil
			}
			// edge i contributes !pol, so it was NOT taken: the predecessor's branch went the
			// other way.
			pred := phi.Block().Preds[i]
			if ifi, ok := pred.Instrs[len(pred.Instrs)-1].(*ssa.If); ok {
				// pred → phi.Block() on which side?
				side := pred.Succs[0] == phi.Block()
				// not taken ⇒ the condition had the opposite truth value
				out = append(out, Lit(ifi.Cond, !side))
			}
		}
	}
	// the remaining non-constant edges: if exactly one, its value equals pol
	var nonConst []ssa.Value
	for _, e := range phi.Edges {
		if c, ok := e.(*ssa.Const); !ok || c.Value == nil {
			nonConst = append(nonConst, e)
		}
	}
	if len(nonConst) == 1 && len(out) > 0 {
		out = append(out, Lit(nonConst[0], pol))
		out = append(out, expandBoolPhi(nonConst[0], pol)...)
	}
	return out
}

// HoldsAt reports whether literal lit holds at block b by dominance.
func HoldsAt(b *ssa.BasicBlock, lit string) bool {
	for _, l := range GuardLits(b) {
		if l == lit {
			return true
		}
	}
	return false
}

// ---------------------------------------------------------------------------------------------
// A4 — path enumeration.

type EvKind int

const (
	EvCond EvKind = iota
	EvCall
	EvStore
	EvMapUpdate
	EvReturn
	EvPanic
	EvDefer
	EvGo
	EvRunDefers
	EvSend
)

type Event struct {
	Kind  EvKind
	Text  string
	Instr ssa.Instruction
	Pol   bool // EvCond: which way
	// EvCond: the value actually branched on (a boolean phi is resolved along the path) and the
	// truth value it has on this path
	Val    ssa.Value
	ValPol bool
	// Via: the call in the enumerated function through which this event of an inlined callee
	// (predicate helper, spliced helper) was reached
	Via ssa.Instruction
}

func (e Event) String() string {
	switch e.Kind {
	case EvCond:
		return "if " + e.Text
	case EvStore:
		return "store " + e.Text
	case EvMapUpdate:
		return "mapset " + e.Text
	case EvReturn:
		return "ret " + e.Text
	case EvPanic:
		return "panic " + e.Text
	case EvDefer:
		return "defer " + e.Text
	case EvGo:
		return "go " + e.Text
	case EvRunDefers:
		return "rundefers"
	}
	return e.Text
}

type Path struct {
	Fn     *ssa.Function
	Blocks []*ssa.BasicBlock
	Events []Event
	End    string // "return", "panic", "stop", "cut"
}

func (p *Path) String() string {
	var s []string
	for _, e := range p.Events {
		s = append(s, e.String())
	}
	return strings.Join(s, " ; ")
}

// HasLit reports whether the path took a branch that establishes literal l.
func (p *Path) HasLit(l string) bool {
	for _, e := range p.Events {
		if e.Kind == EvCond && e.Text == l {
			return true
		}
	}
	return false
}

func (p *Path) Lits() []string {
	var out []string
	for _, e := range p.Events {
		if e.Kind == EvCond {
			out = append(out, e.Text)
		}
	}
	return out
}

// Calls returns the call events whose callee is fn (static) in path order.
func (p *Path) Calls(fn *ssa.Function) []Event {
	var out []Event
	for _, e := range p.Events {
		if e.Kind != EvCall {
			continue
		}
		if c, ok := e.Instr.(ssa.CallInstruction); ok && calleeOf(c.Common()) == fn {
			out = append(out, e)
		}
	}
	return out
}

// CallsNamed returns call events whose canonical callee name equals name
// (e.g. "strings.Index", "invoke:libaudit.Stream.EventsLost", "append").
func (p *Path) CallsNamed(name string) []Event {
	var out []Event
	for _, e := range p.Events {
		if e.Kind == EvCall && calleeName(e.Instr) == name {
			out = append(out, e)
		}
	}
	return out
}

func calleeName(in ssa.Instruction) string {
	c, ok := in.(ssa.CallInstruction)
	if !ok {
		return ""
	}
	cc := c.Common()
	if cc.IsInvoke() {
		return "invoke:" + typeStr(cc.Value.Type()) + "." + cc.Method.Name()
	}
	if f := calleeOf(cc); f != nil {
		return fnName(f)
	}
	if b, ok := cc.Value.(*ssa.Builtin); ok {
		return b.Name()
	}
	return "dyn"
}

// Resolve follows phis along the path: the value a phi takes given the blocks the path went through.
func (p *Path) Resolve(v ssa.Value) ssa.Value {
	for i := 0; i < 20; i++ {
		v = stripConv(v)
		phi, ok := v.(*ssa.Phi)
		if !ok {
			return v
		}
		pos := -1
		for bi := len(p.Blocks) - 1; bi >= 1; bi-- {
			if p.Blocks[bi] == phi.Block() {
				pos = bi
				break
			}
		}
		if pos < 1 {
			return v
		}
		pred := p.Blocks[pos-1]
		idx := -1
		for k, pb := range phi.Block().Preds {
			if pb == pred {
				idx = k
			}
		}
		if idx < 0 {
			return v
		}
		v = phi.Edges[idx]
	}
	return v
}

// Index returns the index of the first event satisfying pred, or -1.
func (p *Path) Index(pred func(Event) bool) int {
	for i, e := range p.Events {
		if pred(e) {
			return i
		}
	}
	return -1
}

func (p *Path) Return() *ssa.Return {
	if len(p.Events) == 0 {
		return nil
	}
	r, _ := p.Events[len(p.Events)-1].Instr.(*ssa.Return)
	return r
}

// blockEvents lists the events of one block (excluding its terminator's branch).
func blockEvents(b *ssa.BasicBlock) []Event {
	var out []Event
	for _, in := range b.Instrs {
		switch x := in.(type) {
		case *ssa.Call:
			out = append(out, Event{Kind: EvCall, Text: Term(x), Instr: x})
		case *ssa.Defer:
			t := &termer{phis: map[*ssa.Phi]bool{}}
			out = append(out, Event{Kind: EvDefer, Text: t.call(&x.Call), Instr: x})
		case *ssa.Go:
			t := &termer{phis: map[*ssa.Phi]bool{}}
			out = append(out, Event{Kind: EvGo, Text: t.call(&x.Call), Instr: x})
		case *ssa.Store:
			out = append(out, Event{Kind: EvStore, Text: AddrTerm(x.Addr) + " = " + TermAt(x.Val, b), Instr: x})
		case *ssa.MapUpdate:
			out = append(out, Event{Kind: EvMapUpdate, Text: Term(x.Map) + "[" + Term(x.Key) + "] = " + Term(x.Value), Instr: x})
		case *ssa.Return:
			var rs []string
			for _, r := range x.Results {
				rs = append(rs, Term(r))
			}
			out = append(out, Event{Kind: EvReturn, Text: strings.Join(rs, ", "), Instr: x})
		case *ssa.Panic:
			out = append(out, Event{Kind: EvPanic, Text: Term(x.X), Instr: x})
		case *ssa.RunDefers:
			out = append(out, Event{Kind: EvRunDefers, Instr: x})
		case *ssa.Send:
			out = append(out, Event{Kind: EvSend, Text: Term(x.Chan) + " <- " + Term(x.X), Instr: x})
		}
	}
	return out
}

type PathOpts struct {
	Start    *ssa.BasicBlock            // default: entry
	MaxVisit int                        // times a block may appear on a path (default 1; 2 = one trip round each loop)
	StopAt   func(*ssa.BasicBlock) bool // stop (End="stop") on *re*-entering such a block (not at Start itself on the first visit)
	Cap      int                        // maximum number of paths (default 4096)
	Prune    bool                       // prune branches infeasible by constant equality (default on)
	NoPrune  bool
	SkipEdge func(from, to *ssa.BasicBlock) bool
	Within   map[*ssa.BasicBlock]bool // if set, a path ends (End="exit") when it steps to a block outside this set
	Assume   map[ssa.Value]string     // value → constant (constStr form) assumed equal for the whole path (switch-arm selection)
	Splice   bool                     // insert the events of extracted helpers (liftOwner) at their calls
}

type pathEnum struct {
	opts  PathOpts
	paths []*Path
	over  bool
}

// constraint state for pruning: value → known-equal constant / known-unequal constants.
type cstate struct {
	eq  map[ssa.Value]string
	neq map[ssa.Value]map[string]bool
	// lits: literals (canonical strings) established on the path since the last event that can
	// change memory; a branch whose literal contradicts one of them is infeasible.
	lits map[string]bool
}

func (c *cstate) clone() *cstate {
	n := &cstate{eq: map[ssa.Value]string{}, neq: map[ssa.Value]map[string]bool{}, lits: map[string]bool{}}
	for k := range c.lits {
		n.lits[k] = true
	}
	for k, v := range c.eq {
		n.eq[k] = v
	}
	for k, v := range c.neq {
		m := map[string]bool{}
		for kk := range v {
			m[kk] = true
		}
		n.neq[k] = m
	}
	return n
}

// feasible evaluates `cond` under the constraints: returns (canBeTrue, canBeFalse).
func (c *cstate) feasible(cond ssa.Value) (bool, bool) {
	b, ok := cond.(*ssa.BinOp)
	if ok && (b.Op == token.LSS || b.Op == token.LEQ || b.Op == token.GTR || b.Op == token.GEQ) {
		// an ordered comparison of a value the path has pinned to a number with a constant
		x, y, op := b.X, b.Y, b.Op
		if _, xc := x.(*ssa.Const); xc {
			x, y, op = y, x, flipCmp(op)
		}
		if yc, isC := y.(*ssa.Const); isC && yc.Value != nil && yc.Value.Kind() == constant.Int {
			v := x
			for i := 0; i < 3; i++ {
				if k, has := c.eq[v]; has {
					if kv := constant.MakeFromLiteral(k, token.INT, 0); kv.Kind() == constant.Int {
						t := constant.Compare(kv, op, yc.Value)
						return t, !t
					}
					break
				}
				switch cv := v.(type) {
				case *ssa.ChangeType:
					v = cv.X
					continue
				}
				break
			}
		}
		return true, true
	}
	if !ok || (b.Op != token.EQL && b.Op != token.NEQ) {
		if u, ok := cond.(*ssa.UnOp); ok && u.Op == token.NOT {
			t, f := c.feasible(u.X)
			return f, t
		}
		// membership in a read-only table, for a key the path has pinned to a constant: a
		// `switch` rewritten as a lookup table is control flow again
		if lk, ok := cond.(*ssa.Lookup); ok && !lk.CommaOk {
			if v, present, known := c.tableLookup(lk); known {
				t := present && v != nil && v.Kind() == constant.Bool && constant.BoolVal(v)
				if !present || (v != nil && v.Kind() == constant.Bool) {
					return t, !t
				}
			}
		}
		if ex, ok := cond.(*ssa.Extract); ok && ex.Index == 1 {
			if lk, ok := ex.Tuple.(*ssa.Lookup); ok && lk.CommaOk {
				if _, present, known := c.tableLookup(lk); known {
					return present, !present
				}
			}
		}
		return true, true
	}
	x, y := b.X, b.Y
	if _, xc := x.(*ssa.Const); xc {
		x, y = y, x
	}
	yc, ok := y.(*ssa.Const)
	if !ok {
		return true, true
	}
	if xk, xc := x.(*ssa.Const); xc {
		// both operands constant (a constant argument of an inlined helper compared in its body)
		if xk.Value != nil && yc.Value != nil {
			same := constant.Compare(xk.Value, token.EQL, yc.Value)
			if b.Op == token.NEQ {
				return !same, same
			}
			return same, !same
		}
		return true, true
	}
	k := constStr(yc)
	eqT, eqF := true, true
	if v, ok := c.eq[x]; ok {
		if v == k {
			eqF = false
		} else {
			eqT = false
		}
	} else if c.neq[x][k] {
		eqT = false
	}
	if b.Op == token.NEQ {
		return eqF, eqT
	}
	return eqT, eqF
}

func (c *cstate) assume(cond ssa.Value, pol bool) {
	if u, ok := cond.(*ssa.UnOp); ok && u.Op == token.NOT {
		c.assume(u.X, !pol)
		return
	}
	b, ok := cond.(*ssa.BinOp)
	if !ok || (b.Op != token.EQL && b.Op != token.NEQ) {
		return
	}
	x, y := b.X, b.Y
	if _, xc := x.(*ssa.Const); xc {
		x, y = y, x
	}
	yc, ok := y.(*ssa.Const)
	if !ok {
		return
	}
	if _, xc := x.(*ssa.Const); xc {
		return
	}
	isEq := (b.Op == token.EQL) == pol
	k := constStr(yc)
	if isEq {
		c.eq[x] = k
	} else {
		if c.neq[x] == nil {
			c.neq[x] = map[string]bool{}
		}
		c.neq[x][k] = true
	}
}

// Paths enumerates paths of fn.
func Paths(fn *ssa.Function, opts PathOpts) ([]*Path, bool) {
	if opts.MaxVisit == 0 {
		opts.MaxVisit = 1
	}
	if opts.Cap == 0 {
		opts.Cap = 4096
	}
	if opts.Start == nil {
		opts.Start = fn.Blocks[0]
	}
	pe := &pathEnum{opts: opts}
	visits := map[*ssa.BasicBlock]int{}
	cs := &cstate{eq: map[ssa.Value]string{}, neq: map[ssa.Value]map[string]bool{}, lits: map[string]bool{}}
	for v, c := range opts.Assume {
		cs.eq[v] = c
	}
	pe.walk(fn, opts.Start, nil, nil, visits, cs, true)
	return pe.paths, !pe.over
}

func (pe *pathEnum) emit(fn *ssa.Function, blocks []*ssa.BasicBlock, evs []Event, end string) {
	if len(pe.paths) >= pe.opts.Cap {
		pe.over = true
		return
	}
	p := &Path{Fn: fn, End: end}
	p.Blocks = append(p.Blocks, blocks...)
	p.Events = append(p.Events, evs...)
	pe.paths = append(pe.paths, p)
}

func (pe *pathEnum) walk(fn *ssa.Function, b *ssa.BasicBlock, blocks []*ssa.BasicBlock, evs []Event,
	visits map[*ssa.BasicBlock]int, cs *cstate, first bool) {
	if pe.over {
		return
	}
	if !first && pe.opts.StopAt != nil && pe.opts.StopAt(b) {
		pe.emit(fn, append(blocks, b), evs, "stop")
		return
	}
	if pe.opts.Within != nil && !pe.opts.Within[b] {
		pe.emit(fn, append(blocks, b), evs, "exit")
		return
	}
	if visits[b] >= pe.opts.MaxVisit {
		pe.emit(fn, append(blocks, b), evs, "cut")
		return
	}
	visits[b]++
	defer func() { visits[b]-- }()
	blocks = append(blocks, b)
	bev := blockEvents(b)
	if alts := pe.spliceLifted(bev); alts != nil {
		// the block calls an extracted helper: continue once per way through the helper
		for _, alt := range alts {
			pe.walkBlock(fn, b, blocks, evs, alt, visits, cs)
		}
		return
	}
	pe.walkBlock(fn, b, blocks, evs, bev, visits, cs)
}

// spliceLifted expands calls to lifted helpers (see liftOwner) in a block's event list: each
// alternative is the event list with the helper's events along one of its paths inserted after
// the call. nil when the block calls no such helper.
func (pe *pathEnum) spliceLifted(bev []Event) [][]Event {
	if theWorld == nil || noInline || !pe.opts.Splice {
		return nil
	}
	any := false
	alts := [][]Event{nil}
	for _, e := range bev {
		var inner [][]Event
		if c, ok := e.Instr.(*ssa.Call); ok && e.Kind == EvCall && !c.Call.IsInvoke() {
			if f := c.Call.StaticCallee(); f != nil && theWorld.liftOwner(f) != nil {
				restore := aliasParamsFV(f, c.Call.Args, c.Call.Value)
				cps, complete := Paths(f, PathOpts{Cap: 64, Splice: true})
				restore()
				if complete {
					for _, cp := range cps {
						ev := cp.Events
						if cp.Return() != nil {
							ev = ev[:len(ev)-1]
						}
						inner = append(inner, ev)
					}
				}
			}
		}
		if inner == nil {
			for i := range alts {
				alts[i] = append(alts[i], e)
			}
			continue
		}
		any = true
		var next [][]Event
		for _, a := range alts {
			for _, in := range inner {
				n := append(append(append([]Event{}, a...), e), in...)
				next = append(next, n)
			}
		}
		alts = next
		if len(alts) > 256 {
			return nil
		}
	}
	if !any {
		return nil
	}
	return alts
}

func (pe *pathEnum) walkBlock(fn *ssa.Function, b *ssa.BasicBlock, blocks []*ssa.BasicBlock, evs []Event, bev []Event,
	visits map[*ssa.BasicBlock]int, cs *cstate) {
	evs = append(evs[:len(evs):len(evs)], bev...)
	for _, e := range bev {
		switch e.Kind {
		case EvStore:
			// type-based invalidation: a store to a field can only change loads of that field, a store
			// to an element only element loads, a store to a local only that local; anything else
			// (store through a bare pointer, whole-struct store) invalidates everything.
			cs = cs.clone()
			st := e.Instr.(*ssa.Store)
			switch a := st.Addr.(type) {
			case *ssa.FieldAddr:
				f := "." + fieldOfAddr(a).Name()
				for l := range cs.lits {
					if strings.Contains(l, f) {
						delete(cs.lits, l)
					}
				}
			case *ssa.IndexAddr:
				for l := range cs.lits {
					if strings.Contains(l, "[") {
						delete(cs.lits, l)
					}
				}
			case *ssa.Alloc:
				n := AddrTerm(a)
				for l := range cs.lits {
					if strings.Contains(l, n) {
						delete(cs.lits, l)
					}
				}
			default:
				cs.lits = map[string]bool{}
			}
		case EvMapUpdate, EvDefer, EvGo, EvSend, EvRunDefers:
			cs = cs.clone()
			cs.lits = map[string]bool{}
		case EvCall:
			if n := calleeName(e.Instr); n != "len" && n != "cap" {
				cs = cs.clone()
				cs.lits = map[string]bool{}
			}
		}
	}
	last := b.Instrs[len(b.Instrs)-1]
	switch t := last.(type) {
	case *ssa.Return:
		pe.emit(fn, blocks, evs, "return")
		return
	case *ssa.Panic:
		pe.emit(fn, blocks, evs, "panic")
		return
	case *ssa.If:
		// a constant condition (a boolean parameter of an inlined helper bound to a literal)
		if pol, isK := constCond(t.Cond); isK {
			s := b.Succs[1]
			if pol {
				s = b.Succs[0]
			}
			if pe.opts.SkipEdge == nil || !pe.opts.SkipEdge(b, s) {
				pe.walk(fn, s, blocks, evs, visits, cs, false)
			}
			return
		}
		// a comparison one of whose operands is a phi (the result variable of an inlined helper,
		// an error assigned on several branches): compare the value the phi has on this path
		if handled := pe.walkResolvedCmp(fn, b, t, blocks, evs, visits, cs); handled {
			return
		}
		// a boolean phi used as the condition (short-circuit result, or the result variable of an
		// inlined predicate) is resolved through the blocks this path came along
		if rc, pol, ok := resolveCondOnPath(t.Cond, blocks); ok {
			if c, isC := rc.(*ssa.Const); isC && c.Value != nil && c.Value.Kind() == constant.Bool {
				taken := constant.BoolVal(c.Value) == pol
				s := b.Succs[1]
				if taken {
					s = b.Succs[0]
				}
				if pe.opts.SkipEdge == nil || !pe.opts.SkipEdge(b, s) {
					pe.walk(fn, s, blocks, evs, visits, cs, false)
				}
				return
			}
			// a non-constant edge value: branch on it instead of on the phi
			canT, canF := true, true
			if !pe.opts.NoPrune {
				canT, canF = cs.feasible(rc)
				if !pol {
					canT, canF = canF, canT
				}
			}
			for i, s := range b.Succs {
				bpol := i == 0
				if (bpol && !canT) || (!bpol && !canF) {
					continue
				}
				if pe.opts.SkipEdge != nil && pe.opts.SkipEdge(b, s) {
					continue
				}
				lit := Lit(rc, bpol == pol)
				if !pe.opts.NoPrune && cs.lits[NegLit(lit)] {
					continue
				}
				ncs := cs.clone()
				ncs.lits[lit] = true
				ncs.assume(rc, bpol == pol)
				ne := append(evs[:len(evs):len(evs)], Event{Kind: EvCond, Text: lit, Instr: t, Pol: bpol, Val: rc, ValPol: bpol == pol})
				pe.walk(fn, s, blocks, ne, visits, ncs, false)
			}
			return
		}
		if call, neg := predCall(t.Cond); call != nil {
			if pps, ok := predPaths(call, cs.eq); ok {
				pe.walkPred(fn, b, t, call, neg, pps, blocks, evs, visits, cs)
				return
			}
		}
		// a comparison of two constants (a constant argument of an inlined helper) decides the
		// branch without being a condition of the path
		if truth, known := constCompare(t.Cond); known {
			s := b.Succs[1]
			if truth {
				s = b.Succs[0]
			}
			if pe.opts.SkipEdge == nil || !pe.opts.SkipEdge(b, s) {
				pe.walk(fn, s, blocks, evs, visits, cs, false)
			}
			return
		}
		canT, canF := true, true
		if !pe.opts.NoPrune {
			canT, canF = cs.feasible(t.Cond)
		}
		for i, s := range b.Succs {
			pol := i == 0
			if (pol && !canT) || (!pol && !canF) {
				continue
			}
			if pe.opts.SkipEdge != nil && pe.opts.SkipEdge(b, s) {
				continue
			}
			lit := Lit(t.Cond, pol)
			if !pe.opts.NoPrune && cs.lits[NegLit(lit)] {
				continue // contradicts a literal established earlier with no memory change in between
			}
			ncs := cs.clone()
			ncs.lits[lit] = true
			ncs.assume(t.Cond, pol)
			ne := append(evs[:len(evs):len(evs)], Event{Kind: EvCond, Text: Lit(t.Cond, pol), Instr: t, Pol: pol, Val: t.Cond, ValPol: pol})
			pe.walk(fn, s, blocks, ne, visits, ncs, false)
		}
		return
	}
	if len(b.Succs) == 0 {
		pe.emit(fn, blocks, evs, "end")
		return
	}
	for _, s := range b.Succs {
		if pe.opts.SkipEdge != nil && pe.opts.SkipEdge(b, s) {
			continue
		}
		pe.walk(fn, s, blocks, evs, visits, cs, false)
	}
}

// walkPred continues a path through an `if pred(args)` whose callee was expanded: each way
// through the callee contributes its own literals and calls, then decides the branch.
func (pe *pathEnum) walkPred(fn *ssa.Function, b *ssa.BasicBlock, t *ssa.If, call *ssa.Call, neg bool, pps []predPath,
	blocks []*ssa.BasicBlock, evs []Event, visits map[*ssa.BasicBlock]int, cs *cstate) {
	f := call.Call.StaticCallee()
	for _, pp := range pps {
		ncs := cs.clone()
		ok := true
		for _, e := range pp.events {
			switch e.Kind {
			case EvCond:
				if !pe.opts.NoPrune && ncs.lits[NegLit(e.Text)] {
					ok = false
				}
				ncs.lits[e.Text] = true
				// constraints on parameters carry over to the caller's argument values
				if ifi, isIf := e.Instr.(*ssa.If); isIf {
					if x, k, isEq, has := eqConstraint(ifi.Cond, e.Pol); has {
						if par, isPar := x.(*ssa.Parameter); isPar {
							for i, q := range f.Params {
								if q == par && i < len(call.Call.Args) {
									a := call.Call.Args[i]
									if !pe.opts.NoPrune {
										if v, known := ncs.eq[a]; known && (v == k) != isEq {
											ok = false
										}
										if isEq && ncs.neq[a][k] {
											ok = false
										}
									}
									if isEq {
										ncs.eq[a] = k
									} else {
										if ncs.neq[a] == nil {
											ncs.neq[a] = map[string]bool{}
										}
										ncs.neq[a][k] = true
									}
								}
							}
						}
					}
				}
			case EvCall:
				if n := calleeName(e.Instr); n != "len" && n != "cap" {
					ncs.lits = map[string]bool{}
				}
			}
		}
		if !ok {
			continue
		}
		// the call to the predicate itself is replaced by what it does
		var base []Event
		for _, e := range evs {
			if e.Kind == EvCall && e.Instr == ssa.Instruction(call) {
				continue
			}
			base = append(base, e)
		}
		ne := base[:len(base):len(base)]
		for _, e := range pp.events {
			if e.Via == nil {
				e.Via = call
			}
			ne = append(ne, e)
		}
		for i, s := range b.Succs {
			pol := i == 0
			want := pol != neg // value the predicate must return for this successor
			if pe.opts.SkipEdge != nil && pe.opts.SkipEdge(b, s) {
				continue
			}
			if pp.isK {
				if pp.k != want {
					continue
				}
				pe.walk(fn, s, blocks, ne, visits, ncs, false)
				continue
			}
			lit := pp.litF
			if want {
				lit = pp.litT
			}
			if !pe.opts.NoPrune && ncs.lits[NegLit(lit)] {
				continue
			}
			n2 := ncs.clone()
			n2.lits[lit] = true
			ne2 := append(ne[:len(ne):len(ne)], Event{Kind: EvCond, Text: lit, Instr: t, Pol: pol, Val: pp.ret, ValPol: want, Via: call})
			pe.walk(fn, s, blocks, ne2, visits, n2, false)
		}
	}
}

// resolveValOnPath follows phis through the blocks the path came along.
func resolveValOnPath(v ssa.Value, blocks []*ssa.BasicBlock) (ssa.Value, bool) {
	changed := false
	for i := 0; i < 16; i++ {
		phi, ok := v.(*ssa.Phi)
		if !ok {
			break
		}
		pos := -1
		for bi := len(blocks) - 1; bi >= 1; bi-- {
			if blocks[bi] == phi.Block() {
				pos = bi
				break
			}
		}
		if pos < 1 {
			break
		}
		idx, n := -1, 0
		for k, pb := range phi.Block().Preds {
			if pb == blocks[pos-1] {
				idx = k
				n++
			}
		}
		if idx < 0 || n != 1 {
			break
		}
		v = phi.Edges[idx]
		changed = true
	}
	return v, changed
}

// definitelyNonNil: the value cannot be nil (a freshly built error, an allocation, a function).
func definitelyNonNil(v ssa.Value) bool {
	switch x := v.(type) {
	case *ssa.Call:
		switch calleeName(x) {
		case "fmt.Errorf", "errors.New":
			return true
		}
	case *ssa.Alloc, *ssa.MakeMap, *ssa.MakeSlice, *ssa.MakeChan, *ssa.MakeClosure, *ssa.Function:
		return true
	case *ssa.MakeInterface:
		if _, isPtr := x.X.Type().Underlying().(*types.Pointer); !isPtr {
			return true
		}
		return definitelyNonNil(x.X)
	case *ssa.ChangeInterface:
		return definitelyNonNil(x.X)
	case *ssa.UnOp:
		// a sentinel: an unexported package-level variable that is given a fresh error (or
		// another non-nil value) by its initialiser and is never assigned again
		if x.Op == token.MUL {
			if g, ok := x.X.(*ssa.Global); ok && theWorld != nil {
				return theWorld.sentinelNonNil(g)
			}
		}
	}
	return false
}

var sentinelCache = map[*ssa.Global]bool{}

func (w *World) sentinelNonNil(g *ssa.Global) bool {
	if v, ok := sentinelCache[g]; ok {
		return v
	}
	sentinelCache[g] = false
	if g.Pkg == nil || !strings.HasPrefix(g.Pkg.Pkg.Path(), modulePath) || g.Object() == nil || g.Object().Exported() {
		return false
	}
	stores := 0
	ok := true
	scan := func(f *ssa.Function, isInit bool) {
		instrsOf(f, func(in ssa.Instruction) {
			var ops []*ssa.Value
			for _, op := range in.Operands(ops) {
				if *op != ssa.Value(g) {
					continue
				}
				switch x := in.(type) {
				case *ssa.UnOp:
					if x.Op == token.MUL {
						continue
					}
					ok = false
				case *ssa.Store:
					if x.Addr == ssa.Value(g) && isInit && definitelyNonNil(x.Val) {
						stores++
						continue
					}
					ok = false
				default:
					ok = false
				}
			}
		})
	}
	pkgInit := g.Pkg.Func("init")
	for _, f := range w.SrcFuncs() {
		if f != pkgInit {
			scan(f, false)
		}
	}
	if pkgInit != nil {
		scan(pkgInit, true)
	}
	res := ok && stores == 1
	sentinelCache[g] = res
	return res
}

// walkResolvedCmp handles `if x == y` / `if x != y` where x or y is a phi determined by the
// path: the comparison is rendered (and, against nil, decided) with the value on this path.
func (pe *pathEnum) walkResolvedCmp(fn *ssa.Function, b *ssa.BasicBlock, t *ssa.If, blocks []*ssa.BasicBlock, evs []Event,
	visits map[*ssa.BasicBlock]int, cs *cstate) bool {
	cond := t.Cond
	neg := false
	for {
		if u, ok := cond.(*ssa.UnOp); ok && u.Op == token.NOT {
			cond = u.X
			neg = !neg
			continue
		}
		break
	}
	bo, ok := cond.(*ssa.BinOp)
	if !ok || (bo.Op != token.EQL && bo.Op != token.NEQ) {
		return false
	}
	rx, cx := resolveValOnPath(bo.X, blocks)
	ry, cy := resolveValOnPath(bo.Y, blocks)
	if !cx && !cy {
		return false
	}
	// decided against nil?
	decided, truth := false, false
	switch {
	case isNilConst(ry) && definitelyNonNil(rx), isNilConst(rx) && definitelyNonNil(ry):
		decided, truth = true, bo.Op == token.NEQ
	case isNilConst(rx) && isNilConst(ry):
		decided, truth = true, bo.Op == token.EQL
	}
	var undo []func()
	if cx {
		if _, had := termAlias[bo.X]; !had {
			undo = append(undo, alias(bo.X, Term(rx)))
		}
	}
	if cy {
		if _, had := termAlias[bo.Y]; !had {
			undo = append(undo, alias(bo.Y, Term(ry)))
		}
	}
	litT, litF := Lit(t.Cond, true), Lit(t.Cond, false)
	for _, u := range undo {
		u()
	}
	for i, s := range b.Succs {
		pol := i == 0
		if decided && (truth != neg) != pol {
			continue
		}
		if pe.opts.SkipEdge != nil && pe.opts.SkipEdge(b, s) {
			continue
		}
		lit := litF
		if pol {
			lit = litT
		}
		if !decided && !pe.opts.NoPrune && cs.lits[NegLit(lit)] {
			continue
		}
		ncs := cs.clone()
		ncs.lits[lit] = true
		ne := append(evs[:len(evs):len(evs)], Event{Kind: EvCond, Text: lit, Instr: t, Pol: pol, Val: t.Cond, ValPol: pol})
		pe.walk(fn, s, blocks, ne, visits, ncs, false)
	}
	return true
}

// constCond: cond is (a negation of) a boolean constant.
func constCond(cond ssa.Value) (bool, bool) {
	pol := true
	for {
		if u, ok := cond.(*ssa.UnOp); ok && u.Op == token.NOT {
			cond = u.X
			pol = !pol
			continue
		}
		break
	}
	if c, ok := cond.(*ssa.Const); ok && c.Value != nil && c.Value.Kind() == constant.Bool {
		return constant.BoolVal(c.Value) == pol, true
	}
	return false, false
}

// resolveCondOnPath: cond is (a negation of) a boolean phi whose incoming edge is determined by
// the blocks of the path so far; returns the edge value and the polarity under which cond is
// true when that value is true.
func resolveCondOnPath(cond ssa.Value, blocks []*ssa.BasicBlock) (ssa.Value, bool, bool) {
	pol := true
	v := cond
	changed := false
	for i := 0; i < 16; i++ {
		if u, ok := v.(*ssa.UnOp); ok && u.Op == token.NOT {
			v = u.X
			pol = !pol
			continue
		}
		phi, ok := v.(*ssa.Phi)
		if !ok {
			break
		}
		pos := -1
		for bi := len(blocks) - 1; bi >= 1; bi-- {
			if blocks[bi] == phi.Block() {
				pos = bi
				break
			}
		}
		if pos < 1 {
			break
		}
		idx := -1
		n := 0
		for k, pb := range phi.Block().Preds {
			if pb == blocks[pos-1] {
				idx = k
				n++
			}
		}
		if idx < 0 || n != 1 {
			break
		}
		v = phi.Edges[idx]
		changed = true
	}
	if !changed {
		return nil, false, false
	}
	return v, pol, true
}

// eqConstraint decomposes `x == k` / `x != k` under polarity pol.
func eqConstraint(cond ssa.Value, pol bool) (x ssa.Value, k string, isEq, ok bool) {
	for {
		u, isU := cond.(*ssa.UnOp)
		if !isU || u.Op != token.NOT {
			break
		}
		cond = u.X
		pol = !pol
	}
	b, isB := cond.(*ssa.BinOp)
	if !isB || (b.Op != token.EQL && b.Op != token.NEQ) {
		return nil, "", false, false
	}
	x, y := b.X, b.Y
	if _, xc := x.(*ssa.Const); xc {
		x, y = y, x
	}
	yc, isC := y.(*ssa.Const)
	if !isC {
		return nil, "", false, false
	}
	if _, xc := x.(*ssa.Const); xc {
		return nil, "", false, false
	}
	return x, constStr(yc), (b.Op == token.EQL) == pol, true
}

// ---------------------------------------------------------------------------------------------
// Loops.

type Loop struct {
	Header  *ssa.BasicBlock
	Body    map[*ssa.BasicBlock]bool // includes header
	Latches []*ssa.BasicBlock
}

// NaturalLoops finds the natural loops of fn (back edge = edge to a dominator).
func NaturalLoops(fn *ssa.Function) []*Loop {
	byHeader := map[*ssa.BasicBlock]*Loop{}
	var order []*ssa.BasicBlock
	for _, b := range fn.Blocks {
		for _, s := range b.Succs {
			if s.Dominates(b) {
				l := byHeader[s]
				if l == nil {
					l = &Loop{Header: s, Body: map[*ssa.BasicBlock]bool{s: true}}
					byHeader[s] = l
					order = append(order, s)
				}
				l.Latches = append(l.Latches, b)
				// collect body: all blocks that reach b without passing through s
				stack := []*ssa.BasicBlock{b}
				for len(stack) > 0 {
					n := stack[len(stack)-1]
					stack = stack[:len(stack)-1]
					if l.Body[n] {
						continue
					}
					l.Body[n] = true
					stack = append(stack, n.Preds...)
				}
			}
		}
	}
	var out []*Loop
	for _, h := range order {
		out = append(out, byHeader[h])
	}
	return out
}

// IterationPaths enumerates the paths of one loop iteration: from the header until the header is
// re-entered (End="stop"), the loop is left and the function returns/panics, or a cut.
func IterationPaths(fn *ssa.Function, l *Loop) ([]*Path, bool) {
	return Paths(fn, PathOpts{Start: l.Header, MaxVisit: 1, StopAt: func(b *ssa.BasicBlock) bool { return b == l.Header }})
}

// IterationPathsExit is IterationPaths, but a path that leaves the loop body ends there
// (End="exit") instead of being followed to the function's return.
func IterationPathsExit(fn *ssa.Function, l *Loop) ([]*Path, bool) {
	return Paths(fn, PathOpts{Start: l.Header, MaxVisit: 1, StopAt: func(b *ssa.BasicBlock) bool { return b == l.Header }, Within: l.Body})
}

// ---------------------------------------------------------------------------------------------
// small helpers

func isNilConst(v ssa.Value) bool {
	c, ok := stripConv(v).(*ssa.Const)
	return ok && c.Value == nil
}

func isErrorType(t types.Type) bool {
	return types.Identical(t, types.Universe.Lookup("error").Type())
}

// describePath renders a path compactly for reports.
func describePath(p *Path) string {
	var bs []string
	for _, b := range p.Blocks {
		bs = append(bs, fmt.Sprint(b.Index))
	}
	return "blocks[" + strings.Join(bs, ",") + "] " + p.String()
}

var tableAliasCache = map[*ssa.Global]*ssa.Global{}

// tableAlias: g is an unexported package-level map variable of the module that is assigned
// exactly once, in an init function, with the value of another package-level variable h, and
// is otherwise only loaded: after start-up g and h are the same map, so g is rendered as h.
func (w *World) tableAlias(g *ssa.Global) *ssa.Global {
	if h, ok := tableAliasCache[g]; ok {
		return h
	}
	tableAliasCache[g] = nil
	if g.Pkg == nil || !strings.HasPrefix(g.Pkg.Pkg.Path(), modulePath) || g.Object() == nil || g.Object().Exported() {
		return nil
	}
	if _, isMap := g.Type().(*types.Pointer).Elem().Underlying().(*types.Map); !isMap {
		return nil
	}
	var target *ssa.Global
	stores := 0
	ok := true
	scan := func(f *ssa.Function, isInit bool) {
		instrsOf(f, func(in ssa.Instruction) {
			var ops []*ssa.Value
			for _, op := range in.Operands(ops) {
				if *op != ssa.Value(g) {
					continue
				}
				switch x := in.(type) {
				case *ssa.UnOp:
					if x.Op != token.MUL {
						ok = false
					}
				case *ssa.Store:
					ld, isLd := x.Val.(*ssa.UnOp)
					if x.Addr != ssa.Value(g) || !isInit || !isLd || ld.Op != token.MUL {
						ok = false
						continue
					}
					h, isG := ld.X.(*ssa.Global)
					if !isG || h == g {
						ok = false
						continue
					}
					target = h
					stores++
				default:
					ok = false
				}
			}
		})
	}
	pkgInit := g.Pkg.Func("init")
	for _, f := range w.SrcFuncs() {
		if f == pkgInit {
			continue
		}
		scan(f, f.Parent() == nil && f.Signature.Recv() == nil && (f.Name() == "init" || strings.HasPrefix(f.Name(), "init#")))
	}
	if pkgInit != nil {
		scan(pkgInit, true)
	}
	if ok && stores == 1 && target != nil {
		tableAliasCache[g] = target
		return target
	}
	return nil
}

// tableLookup evaluates a lookup in a read-only package-level table for a key the constraints
// pin to a constant.
func (c *cstate) tableLookup(lk *ssa.Lookup) (val constant.Value, present, known bool) {
	if theWorld == nil {
		return nil, false, false
	}
	ld, ok := lk.X.(*ssa.UnOp)
	if !ok || ld.Op != token.MUL {
		return nil, false, false
	}
	g, ok := ld.X.(*ssa.Global)
	if !ok {
		return nil, false, false
	}
	tbl := theWorld.roTable(g)
	if tbl == nil {
		return nil, false, false
	}
	k := ""
	idx := lk.Index
	for i := 0; i < 3 && k == ""; i++ {
		if kc, isC := idx.(*ssa.Const); isC {
			k = constStr(kc)
			break
		}
		if v, has := c.eq[idx]; has {
			k = v
			break
		}
		switch x := idx.(type) {
		case *ssa.ChangeType:
			idx = x.X
		case *ssa.Convert:
			idx = x.X
		default:
			i = 3
		}
	}
	if k == "" {
		return nil, false, false
	}
	e, has := tbl[k]
	if !has {
		return nil, false, true
	}
	return e.val, true, true
}

type roEntry struct{ val constant.Value }

var roTableCache = map[*ssa.Global]map[string]roEntry{}

// roTable: the contents of a package-level map of the module that is initialised by a literal
// with constant keys and is never written, stored or handed on afterwards (its loads are only
// looked up, measured or ranged over). nil when g is not such a table.
func (w *World) roTable(g *ssa.Global) map[string]roEntry {
	if t, ok := roTableCache[g]; ok {
		return t
	}
	roTableCache[g] = nil
	if g.Pkg == nil || !(strings.HasPrefix(g.Pkg.Pkg.Path(), modulePath) || g.Pkg.Pkg.Path() == "fix") || g.Object() == nil {
		return nil
	}
	if g.Object().Exported() {
		return nil // importers can write it
	}
	if _, isMap := g.Type().(*types.Pointer).Elem().Underlying().(*types.Map); !isMap {
		return nil
	}
	ok := true
	pkgInit := g.Pkg.Func("init")
	scan := func(f *ssa.Function) {
		instrsOf(f, func(in ssa.Instruction) {
			var ops []*ssa.Value
			for _, op := range in.Operands(ops) {
				if *op != ssa.Value(g) {
					continue
				}
				switch x := in.(type) {
				case *ssa.UnOp:
					if x.Op != token.MUL || x.Referrers() == nil {
						ok = false
						continue
					}
					for _, rf := range *x.Referrers() {
						switch y := rf.(type) {
						case *ssa.Lookup:
							if y.X != ssa.Value(x) {
								ok = false
							}
						case *ssa.Range:
						case *ssa.DebugRef:
						case *ssa.Call:
							if b, isB := y.Call.Value.(*ssa.Builtin); !isB || b.Name() != "len" {
								ok = false
							}
						default:
							ok = false
						}
					}
				case *ssa.Store:
					if f != pkgInit || x.Addr != ssa.Value(g) {
						ok = false
					}
				default:
					ok = false
				}
			}
		})
	}
	for _, f := range w.SrcFuncs() {
		if f != pkgInit {
			scan(f)
		}
	}
	if pkgInit != nil {
		scan(pkgInit)
	}
	if !ok {
		return nil
	}
	ents, _, _, err := w.MapLit(g.Pkg.Pkg.Name(), g.Name())
	if err != nil {
		return nil
	}
	t := map[string]roEntry{}
	for _, kv := range ents {
		if kv.KeyC == nil {
			return nil
		}
		k := ""
		switch kv.KeyC.Kind() {
		case constant.String:
			k = strconv.Quote(constant.StringVal(kv.KeyC))
		case constant.Int:
			k = kv.KeyC.ExactString()
		default:
			return nil
		}
		t[k] = roEntry{kv.ValC}
	}
	roTableCache[g] = t
	return t
}

// constCompare: cond is (a negation of) a comparison of two constants of one kind.
func constCompare(cond ssa.Value) (bool, bool) {
	pol := true
	for {
		if u, ok := cond.(*ssa.UnOp); ok && u.Op == token.NOT {
			cond, pol = u.X, !pol
			continue
		}
		break
	}
	bo, ok := cond.(*ssa.BinOp)
	if !ok {
		return false, false
	}
	a, aok := bo.X.(*ssa.Const)
	b, bok := bo.Y.(*ssa.Const)
	if !aok || !bok || a.Value == nil || b.Value == nil || a.Value.Kind() != b.Value.Kind() {
		return false, false
	}
	switch bo.Op {
	case token.EQL, token.NEQ:
	case token.LSS, token.LEQ, token.GTR, token.GEQ:
		if a.Value.Kind() == constant.Bool {
			return false, false
		}
	default:
		return false, false
	}
	return constant.Compare(a.Value, bo.Op, b.Value) == pol, true
}
