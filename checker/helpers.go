package main

import (
	"go/constant"
	"go/token"
	"go/types"
	"strings"

	"golang.org/x/tools/go/ssa"
)

// loadedField: if v is a load (*FieldAddr) or a Field of a struct value, returns the field.
func loadedField(v ssa.Value) (*types.Var, ssa.Value) {
	v = stripConv(v)
	switch x := v.(type) {
	case *ssa.UnOp:
		if x.Op == token.MUL {
			if fa, ok := x.X.(*ssa.FieldAddr); ok {
				return fieldOfAddr(fa), fa.X
			}
		}
	case *ssa.Field:
		return fieldOfField(x), x.X
	}
	return nil, nil
}

// appendParts decomposes a call to the append builtin: base slice, the individual elements
// (for `append(s, a, b)`) or the spread operand (for `append(s, t...)`).
func appendParts(c *ssa.Call) (base ssa.Value, elems []ssa.Value, spread ssa.Value, ok bool) {
	b, isB := c.Call.Value.(*ssa.Builtin)
	if !isB || b.Name() != "append" || len(c.Call.Args) != 2 {
		return nil, nil, nil, false
	}
	base = c.Call.Args[0]
	arg := c.Call.Args[1]
	if sl, isSl := arg.(*ssa.Slice); isSl {
		if al, isAl := sl.X.(*ssa.Alloc); isAl && al.Comment == "varargs" {
			// collect the stores into the varargs array
			n := int(al.Type().(*types.Pointer).Elem().Underlying().(*types.Array).Len())
			elems = make([]ssa.Value, n)
			if refs := al.Referrers(); refs != nil {
				for _, r := range *refs {
					if ia, ok := r.(*ssa.IndexAddr); ok {
						idx, isC := constInt(ia.Index)
						if !isC {
							continue
						}
						if irefs := ia.Referrers(); irefs != nil {
							for _, rr := range *irefs {
								if st, ok := rr.(*ssa.Store); ok && st.Addr == ia && idx >= 0 && int(idx) < n {
									elems[idx] = st.Val
								}
							}
						}
					}
				}
			}
			return base, elems, nil, true
		}
	}
	return base, nil, arg, true
}

// isAppendCall reports whether v is a call to the append builtin.
func isAppendCall(v ssa.Value) (*ssa.Call, bool) {
	c, ok := v.(*ssa.Call)
	if !ok {
		return nil, false
	}
	b, isB := c.Call.Value.(*ssa.Builtin)
	return c, isB && b.Name() == "append"
}

// returnedValues resolves the results of a Return, looking through the defer spill
// (`store result-local = v ; rundefers ; ret *result-local`).
func returnedValues(ret *ssa.Return) []ssa.Value {
	out := make([]ssa.Value, len(ret.Results))
	for i, r := range ret.Results {
		out[i] = r
		ld, ok := r.(*ssa.UnOp)
		if !ok || ld.Op != token.MUL {
			continue
		}
		al, ok := ld.X.(*ssa.Alloc)
		if !ok {
			continue
		}
		// last store to al in this block before the load
		var last ssa.Value
		for _, in := range ret.Block().Instrs {
			if in == ssa.Instruction(ld) {
				break
			}
			if st, ok := in.(*ssa.Store); ok && st.Addr == al {
				last = st.Val
			}
		}
		if last != nil {
			out[i] = last
		}
	}
	return out
}

// returnsOf lists the Return instructions reachable from the entry (excludes the recover block).
func returnsOf(fn *ssa.Function) []*ssa.Return {
	var out []*ssa.Return
	for _, b := range fn.Blocks {
		if b == fn.Recover {
			continue
		}
		if b.Index != 0 && len(b.Preds) == 0 {
			continue
		}
		if r, ok := b.Instrs[len(b.Instrs)-1].(*ssa.Return); ok {
			out = append(out, r)
		}
	}
	return out
}

// order gives a comparable position of an instruction along a path (block position on the path,
// instruction index in the block); -1 if the instruction is not on the path. For blocks visited
// twice the first visit is used.
func (p *Path) order(in ssa.Instruction) int {
	for bi, b := range p.Blocks {
		if b == in.Block() {
			for ii, x := range b.Instrs {
				if x == in {
					return bi*100000 + ii
				}
			}
		}
	}
	return -1
}

// leafInstrs collects the instructions (loads, calls, lookups, phis...) an expression is built from.
func leafInstrs(v ssa.Value, seen map[ssa.Value]bool, out *[]ssa.Instruction) {
	if v == nil || seen[v] {
		return
	}
	seen[v] = true
	in, ok := v.(ssa.Instruction)
	if !ok {
		return
	}
	*out = append(*out, in)
	if _, isPhi := v.(*ssa.Phi); isPhi {
		return
	}
	var ops []*ssa.Value
	for _, op := range in.Operands(ops) {
		if *op != nil {
			leafInstrs(*op, seen, out)
		}
	}
}

// computedIn reports whether every instruction that v is computed from lies in the given blocks.
func computedIn(v ssa.Value, blocks map[*ssa.BasicBlock]bool) bool {
	var ins []ssa.Instruction
	leafInstrs(v, map[ssa.Value]bool{}, &ins)
	for _, in := range ins {
		if _, isAlloc := in.(*ssa.Alloc); isAlloc {
			continue
		}
		// the load of a captured parameter's cell is the parameter: the same in every iteration
		if ld, isLd := in.(*ssa.UnOp); isLd && ld.Op == token.MUL {
			if al, isAl := ld.X.(*ssa.Alloc); isAl && paramCell(al) != nil {
				continue
			}
		}
		if !blocks[in.Block()] {
			return false
		}
	}
	return true
}

// phiClosure returns the set of non-phi values that can flow into v through phis.
func phiLeaves(v ssa.Value) (leaves []ssa.Value, phis map[*ssa.Phi]bool) {
	phis = map[*ssa.Phi]bool{}
	var walk func(ssa.Value)
	seen := map[ssa.Value]bool{}
	walk = func(x ssa.Value) {
		if seen[x] {
			return
		}
		seen[x] = true
		if p, ok := x.(*ssa.Phi); ok {
			phis[p] = true
			for _, e := range p.Edges {
				walk(e)
			}
			return
		}
		leaves = append(leaves, x)
	}
	walk(v)
	return
}

func constVal(c *types.Const) string {
	if c.Val().Kind() == constant.String {
		return constant.StringVal(c.Val())
	}
	return c.Val().ExactString()
}

func isConstTrue(v ssa.Value) bool {
	c, ok := v.(*ssa.Const)
	return ok && c.Value != nil && c.Value.Kind() == constant.Bool && constant.BoolVal(c.Value)
}

func isConstInt(v ssa.Value, n int64) bool {
	i, ok := constInt(v)
	return ok && i == n
}

// inPkg reports whether fn belongs to the repository package with the given short name.
func (w *World) inPkg(fn *ssa.Function, pkg string) bool {
	r := rootFn(fn)
	return r.Package() == w.SSA[pkg]
}

func (w *World) isRepoFn(fn *ssa.Function) bool {
	if fn == nil {
		return false
	}
	r := rootFn(fn)
	if r.Package() == nil {
		return false
	}
	return strings.HasPrefix(r.Package().Pkg.Path(), modulePath) || r.Package().Pkg.Path() == "fix"
}

// storesTo lists Store instructions in fn whose address term equals loc.
func storesTo(fn *ssa.Function, loc string) []*ssa.Store {
	var out []*ssa.Store
	instrsOf(fn, func(in ssa.Instruction) {
		if st, ok := in.(*ssa.Store); ok && AddrTerm(st.Addr) == loc {
			out = append(out, st)
		}
	})
	return out
}

func blockSet(bs []*ssa.BasicBlock) map[*ssa.BasicBlock]bool {
	m := map[*ssa.BasicBlock]bool{}
	for _, b := range bs {
		m[b] = true
	}
	return m
}

func allBlocks(fn *ssa.Function) map[*ssa.BasicBlock]bool { return blockSet(fn.Blocks) }

func containsStr(xs []string, s string) bool {
	for _, x := range xs {
		if x == s {
			return true
		}
	}
	return false
}

func fnNames(fs []*ssa.Function) string {
	var s []string
	for _, f := range fs {
		s = append(s, fnName(f))
	}
	return strings.Join(s, ", ")
}

// fieldByName finds a struct field in any analysed package by type and field name.
func (w *World) fieldByName(typ, field string) (*types.Var, error) {
	for _, p := range w.All {
		if obj, ok := p.Types.Scope().Lookup(typ).(*types.TypeName); ok {
			if st, ok := obj.Type().Underlying().(*types.Struct); ok {
				for i := 0; i < st.NumFields(); i++ {
					if fieldName(st.Field(i)) == field {
						return st.Field(i), nil
					}
				}
			}
		}
	}
	return nil, anchorErr{typ + "." + field}
}

func oblContainerAlloc(in ssa.Instruction) (string, bool) {
	var x ssa.Value
	switch v := in.(type) {
	case *ssa.IndexAddr:
		x = v.X
	case *ssa.Slice:
		x = v.X
	default:
		return "", false
	}
	if al, ok := x.(*ssa.Alloc); ok {
		return al.Comment, true
	}
	return "", false
}

// retEdge is one way a function returns: a Return instruction, or — when the returned values
// are phis merged in front of the return (result variables assigned on several branches, as
// after inlining a helper, or a single exit point) — one incoming edge of that merge with the
// values it carries. Block is the block whose dominating guards hold when returning this way.
type retEdge struct {
	Results []ssa.Value
	blk     *ssa.BasicBlock
	Ret     *ssa.Return
	lits    []string // literals established by the conditional edge this return edge starts with
}

// Holds reports whether the literal holds when the function returns this way.
func (e retEdge) Holds(lit string) bool {
	for _, l := range e.lits {
		if l == lit {
			return true
		}
	}
	return HoldsAt(e.blk, lit)
}

// Lits lists every literal known to hold when returning this way.
func (e retEdge) Lits() []string { return append(append([]string{}, e.lits...), GuardLits(e.blk)...) }

func (e retEdge) Block() *ssa.BasicBlock { return e.blk }
func (e retEdge) Pos() token.Pos {
	for _, r := range e.Results {
		if r != nil && r.Pos().IsValid() {
			if _, isConst := r.(*ssa.Const); !isConst {
				return r.Pos()
			}
		}
	}
	return e.Ret.Pos()
}

// retEdges lists the return edges of fn.
func retEdges(fn *ssa.Function) []retEdge {
	var out []retEdge
	for _, ret := range returnsOf(fn) {
		start := retEdge{Results: returnedValues(ret), blk: ret.Block(), Ret: ret}
		var split func(e retEdge, depth int)
		split = func(e retEdge, depth int) {
			// does a result depend on a phi of e.blk, and does e.blk do nothing else?
			hasPhi := false
			for _, r := range e.Results {
				if p, ok := stripConv(r).(*ssa.Phi); ok && p.Block() == e.blk {
					hasPhi = true
				}
			}
			pure := true
			for _, in := range e.blk.Instrs {
				switch in.(type) {
				case *ssa.Phi, *ssa.Return, *ssa.Jump, *ssa.RunDefers, *ssa.ChangeType, *ssa.MakeInterface, *ssa.ChangeInterface, *ssa.Convert:
				default:
					if in != ssa.Instruction(e.Ret) {
						if st, isSt := in.(*ssa.Store); isSt {
							if _, isAl := st.Addr.(*ssa.Alloc); isAl {
								continue
							}
						}
						if ld, isLd := in.(*ssa.UnOp); isLd && ld.Op == token.MUL {
							if _, isAl := ld.X.(*ssa.Alloc); isAl {
								continue
							}
						}
						pure = false
					}
				}
			}
			if !hasPhi || !pure || depth > 6 || len(e.blk.Preds) == 0 {
				for i, r := range e.Results {
					e.Results[i] = resolveUnderGuards(r, e.blk)
				}
				out = append(out, e)
				return
			}
			for k, pred := range e.blk.Preds {
				ne := retEdge{blk: pred, Ret: e.Ret, lits: e.lits}
				for _, r := range e.Results {
					ne.Results = append(ne.Results, substPhi(r, e.blk, k))
				}
				// only follow into the predecessor when it ends in an unconditional jump; a
				// conditional predecessor is where the guard of this edge lives
				if _, isJump := pred.Instrs[len(pred.Instrs)-1].(*ssa.Jump); isJump {
					split(ne, depth+1)
				} else {
					if ifi, isIf := pred.Instrs[len(pred.Instrs)-1].(*ssa.If); isIf && pred.Succs[0] != pred.Succs[1] {
						pol := pred.Succs[0] == e.blk
						ne.lits = append(ne.lits, Lit(ifi.Cond, pol))
						ne.lits = append(ne.lits, expandBoolPhi(ifi.Cond, pol)...)
						if call, neg := predCall(ifi.Cond); call != nil {
							ne.lits = append(ne.lits, predImplied(call, pol != neg)...)
						}
					}
					ne.lits = append(ne.lits, e.lits...)
					out = append(out, ne)
				}
			}
		}
		split(start, 0)
	}
	return out
}

// substPhi replaces a phi of block b (possibly under value-preserving wrappers) by its k-th edge.
func substPhi(v ssa.Value, b *ssa.BasicBlock, k int) ssa.Value {
	if p, ok := stripConv(v).(*ssa.Phi); ok && p.Block() == b && k < len(p.Edges) {
		return p.Edges[k]
	}
	return v
}

// errResultE is errResult for a return edge.
func errResultE(e retEdge) (ssa.Value, bool) {
	if len(e.Results) == 0 {
		return nil, false
	}
	last := e.Results[len(e.Results)-1]
	if !isErrorType(last.Type()) {
		return nil, false
	}
	return last, true
}

// pathRet is the return a path ends in, with the returned values resolved along the path
// (a result variable assigned on several branches is a phi at the return; on one path it has
// one value).
type pathRet struct {
	Results []ssa.Value
	Instr   *ssa.Return
}

func (r *pathRet) Pos() token.Pos         { return r.Instr.Pos() }
func (r *pathRet) Block() *ssa.BasicBlock { return r.Instr.Block() }
func (r *pathRet) Parent() *ssa.Function  { return r.Instr.Parent() }

// Ret returns the resolved return of the path, or nil when the path does not end in a return.
func (p *Path) Ret() *pathRet {
	ret := p.Return()
	if ret == nil {
		return nil
	}
	out := &pathRet{Instr: ret}
	for _, v := range returnedValues(ret) {
		out.Results = append(out.Results, p.Resolve(v))
	}
	return out
}

// errResultP: the error result (last result of error type) of a resolved return.
func errResultP(r *pathRet) (ssa.Value, bool) {
	if r == nil || len(r.Results) == 0 {
		return nil, false
	}
	n := len(r.Results)
	if !isErrorType(r.Instr.Parent().Signature.Results().At(n - 1).Type()) {
		return nil, false
	}
	return r.Results[n-1], true
}

// calleeOf resolves the function a call runs: the static callee, looking through the wrapper
// go/ssa synthesises for a bound method value (`f := x.m; f()` calls m with receiver x).
func calleeOf(cc *ssa.CallCommon) *ssa.Function {
	f := cc.StaticCallee()
	if m, _ := boundMethod(cc); m != nil {
		return m
	}
	return f
}

// boundMethod: the call goes through a bound method wrapper; returns the method and the bound
// receiver.
func boundMethod(cc *ssa.CallCommon) (*ssa.Function, ssa.Value) {
	f := cc.StaticCallee()
	if f == nil || !strings.HasPrefix(f.Synthetic, "bound method wrapper") || theWorld == nil {
		return nil, nil
	}
	mc, ok := cc.Value.(*ssa.MakeClosure)
	if !ok || len(mc.Bindings) != 1 {
		return nil, nil
	}
	fo, ok := f.Object().(*types.Func)
	if !ok {
		return nil, nil
	}
	m := theWorld.Prog.FuncValue(fo)
	if m == nil {
		return nil, nil
	}
	return m, mc.Bindings[0]
}

// fullArgs returns the arguments of a call with the receiver first, also for a call through a
// bound method value (where go/ssa keeps the receiver in the closure).
func fullArgs(cc *ssa.CallCommon) []ssa.Value {
	if m, recv := boundMethod(cc); m != nil {
		return append([]ssa.Value{recv}, cc.Args...)
	}
	return cc.Args
}

// isParamValue: v is the parameter, or the load of the cell go/ssa gives a parameter that a
// closure captures (paramCell), possibly under value-preserving wrappers.
func isParamValue(v ssa.Value, par *ssa.Parameter) bool {
	v = stripConv(v)
	if v == ssa.Value(par) {
		return true
	}
	if ld, ok := v.(*ssa.UnOp); ok && ld.Op == token.MUL {
		if al, ok := ld.X.(*ssa.Alloc); ok && paramCell(al) == par {
			return true
		}
	}
	return false
}
