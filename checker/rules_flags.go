package main

// C14 — flag parsing accounts for every token (rule/flags), with A9 (regular-expression structure).

import (
	"fmt"
	"go/ast"
	"go/constant"
	"go/token"
	"go/types"
	"regexp/syntax"
	"sort"
	"strings"

	"golang.org/x/tools/go/packages"
	"golang.org/x/tools/go/ssa"
)

// ---------------------------------------------------------------------------------------------
// A9

// regexpVarPattern returns the constant pattern of `var name = regexp.MustCompile(<const>)`.
func (w *World) regexpVarPatternIn(p *packages.Package, name string) (string, token.Pos, error) {
	for short, pp := range w.Pkgs {
		if pp == p {
			return w.regexpVarPattern(short, name)
		}
	}
	return "", token.NoPos, anchorErr{name}
}

func (w *World) regexpVarPattern(pkg, name string) (string, token.Pos, error) {
	e, p, err := w.VarDeclValue(pkg, name)
	if err != nil {
		return "", token.NoPos, err
	}
	call, ok := e.(*ast.CallExpr)
	if !ok || len(call.Args) != 1 {
		return "", e.Pos(), anchorErr{pkg + "." + name + " (not regexp.MustCompile(const))"}
	}
	if obj := objOf(p, call.Fun); obj == nil || obj.Pkg() == nil || obj.Pkg().Path() != "regexp" || (obj.Name() != "MustCompile" && obj.Name() != "MustCompilePOSIX") {
		return "", e.Pos(), anchorErr{pkg + "." + name + " (not regexp.MustCompile)"}
	}
	tv, ok := p.TypesInfo.Types[call.Args[0]]
	if !ok || tv.Value == nil || tv.Value.Kind() != constant.String {
		return "", e.Pos(), anchorErr{pkg + "." + name + " (pattern is not a constant)"}
	}
	return constant.StringVal(tv.Value), e.Pos(), nil
}

// literalAlternations returns, per capturing group (1-based) whose body is a plain alternation of
// literal strings, the alternatives in source order. Works on the pattern text because
// regexp/syntax factors common prefixes out of alternations.
func literalAlternations(pat string) map[int][]string {
	out := map[int][]string{}
	group := 0
	type frame struct {
		idx   int
		start int
	}
	var stack []frame
	for i := 0; i < len(pat); i++ {
		switch pat[i] {
		case '\\':
			i++
		case '[':
			// skip character class
			for i++; i < len(pat) && pat[i] != ']'; i++ {
				if pat[i] == '\\' {
					i++
				}
			}
		case '(':
			if i+1 < len(pat) && pat[i+1] == '?' {
				stack = append(stack, frame{0, i + 1})
			} else {
				group++
				stack = append(stack, frame{group, i + 1})
			}
		case ')':
			if len(stack) == 0 {
				return out
			}
			f := stack[len(stack)-1]
			stack = stack[:len(stack)-1]
			if f.idx == 0 {
				continue
			}
			body := pat[f.start:i]
			if !strings.Contains(body, "|") || strings.ContainsAny(body, "()[]{}*+?.^$") {
				continue
			}
			var alts []string
			ok := true
			for _, a := range strings.Split(body, "|") {
				a = strings.ReplaceAll(a, "\\", "")
				if a == "" {
					ok = false
				}
				alts = append(alts, a)
			}
			if ok {
				out[f.idx] = alts
			}
		}
	}
	return out
}

// groupAlternatives returns, for every capturing group of pat, the finite language of each of
// its top-level alternatives in order (a group without `|` has one alternative), or ok=false
// for a group whose body uses anything but literals, escapes, character classes and `?`.
func groupAlternatives(pat string) map[int]groupAlts {
	out := map[int]groupAlts{}
	group := 0
	type frame struct {
		idx   int
		start int
	}
	var stack []frame
	for i := 0; i < len(pat); i++ {
		switch pat[i] {
		case '\\':
			i++
		case '[':
			for i++; i < len(pat) && pat[i] != ']'; i++ {
				if pat[i] == '\\' {
					i++
				}
			}
		case '(':
			if i+1 < len(pat) && pat[i+1] == '?' {
				stack = append(stack, frame{0, i + 1})
			} else {
				group++
				stack = append(stack, frame{group, i + 1})
			}
		case ')':
			if len(stack) == 0 {
				return out
			}
			f := stack[len(stack)-1]
			stack = stack[:len(stack)-1]
			if f.idx == 0 {
				continue
			}
			out[f.idx] = enumerateAlts(pat[f.start:i])
		}
	}
	return out
}

type groupAlts struct {
	OK   bool
	Alts [][]string
}

func enumerateAlts(body string) groupAlts {
	// split at top-level '|'
	var parts []string
	cur := ""
	for i := 0; i < len(body); i++ {
		switch body[i] {
		case '\\':
			if i+1 < len(body) {
				cur += body[i : i+2]
				i++
			}
		case '[':
			j := i
			for i++; i < len(body) && body[i] != ']'; i++ {
				if body[i] == '\\' {
					i++
				}
			}
			if i < len(body) {
				cur += body[j : i+1]
			}
		case '|':
			parts = append(parts, cur)
			cur = ""
		case '(', ')':
			return groupAlts{}
		default:
			cur += string(body[i])
		}
	}
	parts = append(parts, cur)
	var res groupAlts
	for _, p := range parts {
		lang := []string{""}
		for i := 0; i < len(p); {
			var atom []string
			switch c := p[i]; {
			case c == '\\' && i+1 < len(p):
				if strings.ContainsRune("dDsSwWbBpPAzZ", rune(p[i+1])) {
					return groupAlts{}
				}
				atom = []string{string(p[i+1])}
				i += 2
			case c == '[':
				j := i + 1
				neg := j < len(p) && p[j] == '^'
				if neg {
					return groupAlts{}
				}
				for ; j < len(p) && p[j] != ']'; j++ {
					ch := p[j]
					if ch == '\\' && j+1 < len(p) {
						j++
						ch = p[j]
					}
					if j+2 < len(p) && p[j+1] == '-' && p[j+2] != ']' {
						lo, hi := ch, p[j+2]
						if hi < lo || hi-lo > 16 {
							return groupAlts{}
						}
						for x := lo; x <= hi; x++ {
							atom = append(atom, string(x))
						}
						j += 2
						continue
					}
					atom = append(atom, string(ch))
				}
				i = j + 1
			case strings.ContainsRune("*+.{}^$", rune(c)):
				return groupAlts{}
			case c == '?':
				return groupAlts{} // dangling
			default:
				atom = []string{string(c)}
				i++
			}
			if i < len(p) && p[i] == '?' {
				atom = append(atom, "")
				i++
				if i < len(p) && p[i] == '?' {
					return groupAlts{} // non-greedy: order differs
				}
			}
			var next []string
			for _, l := range lang {
				for _, a := range atom {
					next = append(next, l+a)
				}
			}
			if len(next) > 128 {
				return groupAlts{}
			}
			lang = next
		}
		res.Alts = append(res.Alts, lang)
	}
	res.OK = true
	return res
}

// (reShape also records what directly follows the operator group and the value group)
type reShape struct {
	AfterOperator, AfterValue, ValueGroup *syntax.Regexp
	AnchoredStart, AnchoredEnd            bool
	Groups                                int
	OutsideWhitespaceOnly                 bool
	OutsideDetail                         string
	TopLevelGroups                        []int // capture indices that are direct children of the top-level concat (mandatory spine)
}

func whitespaceOnly(re *syntax.Regexp) bool {
	switch re.Op {
	case syntax.OpEmptyMatch, syntax.OpBeginText, syntax.OpEndText, syntax.OpBeginLine, syntax.OpEndLine:
		return true
	case syntax.OpCharClass:
		for i := 0; i+1 < len(re.Rune); i += 2 {
			for r := re.Rune[i]; r <= re.Rune[i+1]; r++ {
				switch r {
				case ' ', '\t', '\n', '\r', '\f', '\v':
				default:
					return false
				}
				if r-re.Rune[i] > 16 {
					return false
				}
			}
		}
		return true
	case syntax.OpLiteral:
		for _, r := range re.Rune {
			if r != ' ' && r != '\t' {
				return false
			}
		}
		return true
	case syntax.OpStar, syntax.OpPlus, syntax.OpQuest, syntax.OpRepeat:
		return whitespaceOnly(re.Sub[0])
	case syntax.OpConcat, syntax.OpAlternate:
		for _, s := range re.Sub {
			if !whitespaceOnly(s) {
				return false
			}
		}
		return true
	}
	return false
}

func analyseRegexp(pattern string) (*reShape, error) {
	re, err := syntax.Parse(pattern, syntax.Perl)
	if err != nil {
		return nil, err
	}
	sh := &reShape{Groups: re.MaxCap(), OutsideWhitespaceOnly: true}
	parts := []*syntax.Regexp{re}
	if re.Op == syntax.OpConcat {
		parts = re.Sub
	}
	if len(parts) > 0 && parts[0].Op == syntax.OpBeginText {
		sh.AnchoredStart = true
	}
	if len(parts) > 0 && parts[len(parts)-1].Op == syntax.OpEndText {
		sh.AnchoredEnd = true
	}
	for i, p := range parts {
		if p.Op == syntax.OpCapture {
			sh.TopLevelGroups = append(sh.TopLevelGroups, p.Cap)
			// what directly follows group 2 and group 3 at top level
			if p.Cap == 2 && i+1 < len(parts) {
				sh.AfterOperator = parts[i+1]
			}
			if p.Cap == 3 {
				sh.ValueGroup = p
				if i+1 < len(parts) {
					sh.AfterValue = parts[i+1]
				}
			}
			continue
		}
		if !whitespaceOnly(p) {
			sh.OutsideWhitespaceOnly = false
			sh.OutsideDetail = p.String()
		}
	}
	return sh, nil
}

// ---------------------------------------------------------------------------------------------

func init() {
	props["C14"] = propC14
	propMeta["C14"] = PropMeta{
		Technique:   "static analysis: regular-expression structure (regexp/syntax), dispatch-table recovery, guard dominance and store census over SSA",
		Explanation: "Token accounting decided structurally: each -F/-C pattern is anchored at both ends with only whitespace outside its capture groups, a non-match is an error, and LHS/Comparator/RHS are groups 1/2/3; after FlagSet.Parse succeeds the remaining positional arguments are inspected and non-empty is an error; every registered flag either accumulates (every store through the receiver is an append to itself) or refuses a second value (scalar flags without such a guard need a reasoned exemption: -D is idempotent); every registered flag name is classified in exactly one arm of validate (delete | watch | syscall) or is the neutral -k, zero and several classes are rejected, -a/-A both and neither are rejected; list-valued Set methods keep every element or return an error, and Parse copies every parsed field into the rule it returns.",
		NotDecided:  "shellquote.Split's tokenisation (a dependency) and the flag package's own argument scanning.",
		Assumptions: []string{"flag.FlagSet semantics (stops at the first non-flag argument; calls Value.Set once per occurrence)"},
	}
}

func propC14(r *Run, w *World) {
	parse, ok1 := r.fnOf("flags", "Parse")
	newSet, ok2 := r.fnOf("flags", "newRuleFlagSet")
	validate, ok3 := r.methodOf("flags", "ruleFlagSet", "validate")
	if !ok1 || !ok2 || !ok3 {
		return
	}
	r.UseFn(fnName(parse), fnName(newSet), fnName(validate))

	// R1
	flagPatterns(r, w, "C14.R1")

	// R2
	r.Rule("C14.R2", "no stray words: in Parse, after flagSet.Parse succeeds, the remaining positional arguments are inspected (NArg/Args) and a non-empty remainder returns an error before a rule is returned", 1)
	{
		undo := autoAlias(parse)
		var narg []ssa.CallInstruction
		narg = append(narg, callsNamedIn(parse, "(*flag.FlagSet).NArg")...)
		narg = append(narg, callsNamedIn(parse, "(*flag.FlagSet).Args")...)
		ok := false
		detail := "flags.Parse never looks at flagSet.NArg()/Args(): words after the first non-flag argument are silently ignored"
		for _, c := range narg {
			a := termAlias[c.Value()]
			cands := []string{a + " > 0", a + " != 0", "len(" + a + ") > 0", "len(" + a + ") != 0"}
			// some If on one of these whose true edge returns an error, and all success returns under the negation
			for _, cand := range cands {
				errOK, succOK, nSucc := false, true, 0
				for _, ret := range retEdges(parse) {
					ev, _ := errResultE(ret)
					if ret.Holds(cand) && ev != nil && !isNilConst(ev) {
						errOK = true
					}
					if ev != nil && isNilConst(ev) {
						nSucc++
						if !ret.Holds(NegLit(cand)) {
							succOK = false
						}
					}
				}
				if errOK && succOK && nSucc > 0 {
					ok = true
				}
			}
			if !ok {
				detail = "flagSet." + strings.Split(a, "#")[0] + "() is called but a non-empty remainder does not lead to an error before every success return"
			}
		}
		r.Check(ok, "flags.Parse stray-arguments", parse.Pos(), "NArg() > 0 is an error", detail)
		// the FlagSet that is parsed is the one the flags were registered on, with the split arguments
		fp := callsNamedIn(parse, "(*flag.FlagSet).Parse")
		okP := len(fp) == 1 && strings.HasSuffix(Term(fp[0].Common().Args[0]), ".flagSet") && Term(fp[0].Common().Args[1]) == "Split#1#0"
		r.Check(okP, "flagSet.Parse(shellquote.Split(s))", parse.Pos(), "", "the registered FlagSet is not parsed with the shell-split line")
		undo()
	}

	// registered flags
	type reg struct {
		name   string
		kind   string // Var | BoolVar | StringVar ...
		target string
		valT   types.Type
		pos    token.Pos
	}
	var regs []reg
	instrsOf(newSet, func(in ssa.Instruction) {
		c, ok := in.(*ssa.Call)
		if !ok {
			return
		}
		n := calleeName(c)
		if !strings.HasPrefix(n, "(*flag.FlagSet).") {
			return
		}
		kind := strings.TrimPrefix(n, "(*flag.FlagSet).")
		switch kind {
		case "Var":
			name, _ := constString(c.Call.Args[2])
			var vt types.Type
			if mi, ok := c.Call.Args[1].(*ssa.MakeInterface); ok {
				vt = mi.X.Type()
			}
			regs = append(regs, reg{name, kind, Term(c.Call.Args[1]), vt, c.Pos()})
		case "BoolVar", "StringVar", "IntVar", "UintVar", "Int64Var", "Uint64Var", "Float64Var", "DurationVar", "TextVar", "Func", "BoolFunc":
			name, _ := constString(c.Call.Args[2])
			regs = append(regs, reg{name, kind, Term(c.Call.Args[1]), nil, c.Pos()})
		case "Bool", "String", "Int", "Uint", "Int64", "Uint64", "Float64", "Duration":
			name, _ := constString(c.Call.Args[1])
			regs = append(regs, reg{name, kind, "", nil, c.Pos()})
		}
	})

	// R3
	r.Rule("C14.R3", "repetition: each registered flag's Set either accumulates (every store through the receiver is an append to itself) or, being scalar, returns an error when a value was already given; built-in scalar registrations (StringVar, BoolVar...) need a reasoned exemption", 9)
	exemptScalar := map[string]string{"D": "-D is a boolean switch: repeating it is idempotent (and `-D -D` style lines are in the existing tests)"}
	names := map[string]int{}
	for _, g := range regs {
		names[g.name]++
		key := "flag -" + g.name + " repeated"
		if g.kind != "Var" {
			if why, ok := exemptScalar[g.name]; ok {
				r.OK(key+" (exempt)", g.pos, why)
			} else {
				r.Fail(key, g.pos, fmt.Sprintf("-%s is registered with %s: a repeated -%s silently overwrites the earlier value", g.name, g.kind, g.name))
			}
			continue
		}
		if g.valT == nil {
			r.Undecided(key, g.pos, "cannot resolve the flag.Value's concrete type")
			continue
		}
		var set *ssa.Function
		ms := w.Prog.MethodSets.MethodSet(g.valT)
		for i := 0; i < ms.Len(); i++ {
			if ms.At(i).Obj().Name() == "Set" {
				set = w.Prog.MethodValue(ms.At(i))
			}
		}
		if set == nil || len(set.Blocks) == 0 {
			r.Undecided(key, g.pos, "no Set method body for "+typeStr(g.valT))
			continue
		}
		kind, detail := classifySet(set)
		r.Check(kind != "scalar-unguarded", key, g.pos, kind+" ("+fnName(set)+")", fmt.Sprintf("-%s (%s) %s: a repeated -%s silently overwrites the earlier value", g.name, fnName(set), detail, g.name))
	}
	for n, c := range names {
		r.Check(c == 1, "flag -"+n+" registered once", newSet.Pos(), "", "flag name registered more than once (FlagSet.Var panics on redefinition)")
	}

	// R4
	r.Rule("C14.R4", "classification is exhaustive: every registered flag name is in exactly one arm of validate's Visit switch (delete | watch | syscall) or is the neutral -k; the class sum rejects 0 and >= 2; for a syscall rule both 'neither -a nor -A' and 'both' are rejected", 12)
	{
		var visit *ssa.Function
		if len(validate.AnonFuncs) == 1 {
			visit = validate.AnonFuncs[0]
		}
		if visit == nil {
			r.Fail("validate Visit closure", validate.Pos(), "expected one closure in validate")
		} else {
			class := map[string]string{}
			for _, arm := range switchArms(visit) {
				if arm.Subject != "p0.Name" {
					continue
				}
				eff, _ := armEffect(arm.Arm, arm.If.Block())
				k := constKey(arm.Const)
				if prev, dup := class[k]; dup && prev != eff {
					r.Fail("flag -"+k+" classified twice", arm.If.Pos(), "")
				}
				class[k] = eff
			}
			// the counters are identified by the local the closure binds, not by the position of
			// the free variable (the closure may capture other things as well)
			var binds []ssa.Value
			for _, c := range callsNamedIn(validate, "(*flag.FlagSet).Visit") {
				if mc, ok := c.Common().Args[1].(*ssa.MakeClosure); ok {
					binds = mc.Bindings
				}
			}
			counterOf := func(eff string) string {
				var k int
				if _, err := fmt.Sscanf(eff, "store fv%d = 1", &k); err == nil && eff == fmt.Sprintf("store fv%d = 1", k) && k < len(binds) {
					if _, isAlloc := binds[k].(*ssa.Alloc); isAlloc {
						return Term(binds[k])
					}
				}
				return ""
			}
			cD, cW, cS := counterOf(class["D"]), counterOf(class["w"]), counterOf(class["S"])
			distinct := cD != "" && cW != "" && cS != "" && cD != cW && cW != cS && cD != cS
			wantClass := map[string]string{"D": class["D"], "w": class["w"], "p": class["w"],
				"a": class["S"], "A": class["S"], "C": class["S"], "F": class["S"], "S": class["S"]}
			if !distinct {
				wantClass = map[string]string{"D": "store <delete counter> = 1", "w": "store <watch counter> = 1", "p": "store <watch counter> = 1",
					"a": "store <syscall counter> = 1", "A": "store <syscall counter> = 1", "C": "store <syscall counter> = 1", "F": "store <syscall counter> = 1", "S": "store <syscall counter> = 1"}
			}
			var ns []string
			for n := range names {
				ns = append(ns, n)
			}
			sort.Strings(ns)
			for _, n := range ns {
				if n == "k" {
					_, classified := class[n]
					r.Check(!classified, "flag -k is neutral", visit.Pos(), "", "-k is counted as an operation flag")
					continue
				}
				want, known := wantClass[n]
				if !known {
					r.Undecided("flag -"+n+" classification", visit.Pos(), "a registered flag that is not in the reviewed classification table")
					continue
				}
				r.Check(class[n] == want, "flag -"+n+" classified", visit.Pos(), want, fmt.Sprintf("-%s is classified by [%s]; want [%s] (the delete, watch and syscall counters are those set by -D, -w and -S): mixing it with another kind of flag would not be rejected", n, class[n], want))
			}
			for k := range class {
				if names[k] == 0 {
					r.Fail("classified flag -"+k+" is not registered", visit.Pos(), "")
				}
			}
			// the three counters are distinct locals of validate and all three are summed
			okBind := distinct
			if okBind {
				for _, c := range []string{cD, cW, cS} {
					n := 0
					for _, b := range validate.Blocks {
						for _, in := range b.Instrs {
							if bo, ok := in.(*ssa.BinOp); ok && bo.Op == token.ADD {
								for _, op := range []ssa.Value{bo.X, bo.Y} {
									if u, ok := op.(*ssa.UnOp); ok && u.Op == token.MUL && Term(u.X) == c {
										n++
									}
								}
							}
						}
					}
					if n == 0 {
						okBind = false
					}
				}
			}
			r.Check(okBind, "Visit closure binds three class counters", validate.Pos(), cD+" "+cW+" "+cS, "the delete, watch and syscall classes are not counted in three distinct locals that are all summed: "+cD+" "+cW+" "+cS)
		}
		// sum switch and -a/-A tests, by paths
		ps, complete := Paths(validate, PathOpts{})
		if !complete {
			r.Undecided("validate paths", validate.Pos(), "path cap exceeded")
		}
		sum := "((local.deleteAll + local.fileWatch) + local.syscall)"
		// derive the sum term structurally (local names are incidental)
		for _, b := range validate.Blocks {
			if ifi, ok := b.Instrs[len(b.Instrs)-1].(*ssa.If); ok {
				l := Lit(ifi.Cond, true)
				if strings.HasSuffix(l, " == 0") && strings.Count(l, " + ") == 2 {
					sum = strings.TrimSuffix(l, " == 0")
				}
			}
		}
		// the syscall-class counter is the local the Visit closure sets in the arm of -S (the
		// order of the operands in the sum and the names of the locals are incidental)
		var sysTerm string
		if len(validate.AnonFuncs) == 1 {
			visit := validate.AnonFuncs[0]
			for _, arm := range switchArms(visit) {
				if arm.Subject == "p0.Name" && constKey(arm.Const) == "S" {
					eff, _ := armEffect(arm.Arm, arm.If.Block())
					var k int
					if _, err := fmt.Sscanf(eff, "store fv%d = 1", &k); err == nil {
						for _, c := range callsNamedIn(validate, "(*flag.FlagSet).Visit") {
							if mc, ok := c.Common().Args[1].(*ssa.MakeClosure); ok && k < len(mc.Bindings) {
								sysTerm = strings.TrimPrefix(Term(mc.Bindings[k]), "&")
							}
						}
					}
				}
			}
		}
		if sysTerm == "" {
			if i := strings.LastIndex(sum, " + "); i >= 0 {
				sysTerm = strings.TrimSuffix(sum[i+3:], ")")
			}
		}
		for i, p := range ps {
			ret := p.Ret()
			if ret == nil {
				continue
			}
			isErr := !isNilConst(ret.Results[0])
			key := fmt.Sprintf("validate path#%d", i)
			switch {
			case p.HasLit(sum + " == 0"):
				r.Check(isErr, key+" no class", ret.Pos(), "rejected", "a line without any operation flag is accepted")
			case p.HasLit(sum+" != 0") && p.HasLit(sum+" != 1"):
				r.Check(isErr, key+" several classes", ret.Pos(), "rejected", "a line mixing delete/watch/syscall flags is accepted")
			case p.HasLit(sum + " == 1"):
				if p.HasLit(sysTerm + " != 0") {
					pz, az := "p0.Prepend == zero(flags.addFlag)", "p0.Append == zero(flags.addFlag)"
					neither := p.HasLit(pz) && p.HasLit(az)
					both := p.HasLit(NegLit(pz)) && p.HasLit(NegLit(az))
					decided := (p.HasLit(pz) || p.HasLit(NegLit(pz))) && (p.HasLit(az) || p.HasLit(NegLit(az)))
					switch {
					case neither:
						r.Check(isErr, key+" neither -a nor -A", ret.Pos(), "rejected", "a syscall rule with neither -a nor -A is accepted")
					case both:
						r.Check(isErr, key+" both -a and -A", ret.Pos(), "rejected", "a syscall rule with both -a and -A is accepted")
					case decided:
						r.Check(!isErr, key+" one of -a/-A", ret.Pos(), "accepted", "a syscall rule with exactly one of -a/-A is rejected")
					default:
						if !isErr {
							r.Fail(key+" -a/-A undecided", ret.Pos(), "a syscall rule is accepted on a path that does not test both Prepend and Append: "+compactPath(p))
						}
					}
				} else {
					r.Check(!isErr, key+" single class", ret.Pos(), "accepted", "a well-formed delete/watch line is rejected")
				}
			default:
				r.Fail(key, ret.Pos(), "path not decided by the class sum: "+compactPath(p))
			}
		}
	}

	// R5
	r.Rule("C14.R5", "lists keep every element: in stringList.Set, fileAccessTypeFlags.Set and addFlag.Set every loop iteration appends/assigns or returns an error; Parse copies Path, Permissions, Key, Filters, Syscalls, List and Action from the flag set into the returned rule", 8)
	for _, spec := range []struct{ typ string }{{"stringList"}, {"fileAccessTypeFlags"}, {"addFlag"}} {
		set, ok := r.methodOf("flags", spec.typ, "Set")
		if !ok {
			continue
		}
		loops := NaturalLoops(set)
		if len(loops) != 1 {
			r.Fail(fnName(set)+" loop", set.Pos(), fmt.Sprintf("expected one loop, found %d", len(loops)))
			continue
		}
		ps, _ := IterationPathsExit(set, loops[0])
		for i, p := range ps {
			if p.End != "stop" {
				continue
			}
			stores := 0
			for _, e := range p.Events {
				if st, ok := e.Instr.(*ssa.Store); ok && e.Kind == EvStore {
					t := AddrTerm(st.Addr)
					if t == "p0" || strings.HasPrefix(t, "p0.") {
						stores++
					}
				}
			}
			r.Check(stores == 1, fmt.Sprintf("%s iteration#%d", fnName(set), i), set.Pos(), "element kept", "an element of the argument is skipped without an error: "+compactPath(p))
		}
		// the loop covers the whole split: a forward range, left only at the end (or by returning an error)
		for i, p := range ps {
			if p.End == "return" {
				r.Check(!isNilConst(p.Ret().Results[0]), fmt.Sprintf("%s iteration#%d leaves by error", fnName(set), i), set.Pos(), "", "Set returns success from inside the loop (the remaining elements are ignored)")
			}
		}
	}
	{
		// field copy census in Parse: stores into the rule literals
		got := map[string]string{}
		for _, st := range storesOf(parse) {
			t := AddrTerm(st.Addr)
			if !strings.HasPrefix(t, "new(rule.") {
				continue
			}
			typ := t[len("new("):strings.Index(t, ")")]
			field := t[strings.LastIndex(t, ".")+1:]
			v := Term(st.Val)
			if i := strings.LastIndex(v, ".flagSet"); i >= 0 {
				v = v[:i]
			}
			// drop the receiver prefix
			if i := strings.Index(v, "#1."); i >= 0 && strings.HasPrefix(v, "newRuleFlagSet") {
				v = v[i+3:]
			}
			got[typ+"."+field] = v
		}
		undo := autoAlias(parse)
		got = map[string]string{}
		for _, st := range storesOf(parse) {
			t := AddrTerm(st.Addr)
			if !strings.HasPrefix(t, "new(rule.") {
				continue
			}
			typ := t[len("new("):strings.Index(t, ")")]
			field := t[strings.LastIndex(t, ".")+1:]
			v := strings.TrimPrefix(Term(st.Val), "newRuleFlagSet#1.")
			if prev, dup := got[typ+"."+field]; dup {
				v = prev + "|" + v
			}
			got[typ+"."+field] = v
		}
		undo()
		want := map[string]string{
			"rule.DeleteAllRule.Keys": "Key", "rule.DeleteAllRule.Type": "1",
			"rule.FileWatchRule.Path": "Path", "rule.FileWatchRule.Permissions": "Permissions", "rule.FileWatchRule.Keys": "Key", "rule.FileWatchRule.Type": "2",
			"rule.SyscallRule.Type": "Type", "rule.SyscallRule.Filters": "Filters", "rule.SyscallRule.Syscalls": "Syscalls", "rule.SyscallRule.Keys": "Key",
			"rule.SyscallRule.List": "Append.List|Prepend.List", "rule.SyscallRule.Action": "Append.Action|Prepend.Action",
		}
		var ks []string
		for k := range want {
			ks = append(ks, k)
		}
		sort.Strings(ks)
		for _, k := range ks {
			// several sources (one per branch) are compared as a set
			gs, ws := strings.Split(got[k], "|"), strings.Split(want[k], "|")
			sort.Strings(gs)
			sort.Strings(ws)
			r.Check(strings.Join(gs, "|") == strings.Join(ws, "|"), "Parse copies "+k, parse.Pos(), "← "+want[k], fmt.Sprintf("%s is filled from %q; want %q: a parsed flag does not reach the rule", k, got[k], want[k]))
		}
		// List/Action: Append under Type == Append, Prepend under Type == Prepend
		for _, st := range storesOf(parse) {
			t := AddrTerm(st.Addr)
			if strings.HasSuffix(t, ".List") || strings.HasSuffix(t, ".Action") {
				v := Term(st.Val)
				wantLit := ""
				if strings.Contains(v, ".Append.") {
					wantLit = ".Type == 3"
				} else if strings.Contains(v, ".Prepend.") {
					wantLit = ".Type == 4"
				}
				ok := false
				for _, g := range GuardLits(st.Block()) {
					if strings.HasSuffix(g, wantLit) && wantLit != "" {
						ok = true
					}
				}
				r.Check(ok, "Parse "+t[strings.LastIndex(t, ".")+1:]+" from "+v[strings.LastIndex(v, ".Append")+1:], st.Pos(), "", "List/Action are taken from the wrong one of -a/-A")
			}
		}
	}
}

// classifySet: accumulating | scalar-guarded | scalar-unguarded | no-store
func classifySet(set *ssa.Function) (string, string) {
	var scalar []*ssa.Store
	nStores := 0
	for _, st := range storesOf(set) {
		t := AddrTerm(st.Addr)
		if t != "p0" && !strings.HasPrefix(t, "p0.") {
			continue
		}
		nStores++
		if c, ok := isAppendCall(st.Val); ok {
			base, _, _, _ := appendParts(c)
			if Term(base) == t {
				continue
			}
		}
		scalar = append(scalar, st)
	}
	if nStores == 0 {
		return "no-store", "does not store through its receiver"
	}
	if len(scalar) == 0 {
		return "accumulating", ""
	}
	// guard: an If on the receiver's current state, one edge returning an error, the scalar stores under the other
	for _, b := range set.Blocks {
		ifi, ok := b.Instrs[len(b.Instrs)-1].(*ssa.If)
		if !ok {
			continue
		}
		for side := 0; side < 2; side++ {
			lit := Lit(ifi.Cond, side == 0)
			if !mentionsReceiverState(ifi.Cond) {
				continue
			}
			errBlock := b.Succs[side]
			ret, isRet := errBlock.Instrs[len(errBlock.Instrs)-1].(*ssa.Return)
			if !isRet || len(ret.Results) != 1 || isNilConst(ret.Results[0]) || len(errBlock.Preds) != 1 {
				continue
			}
			all := true
			for _, st := range scalar {
				if !HoldsAt(st.Block(), NegLit(lit)) {
					// accept also when the other literals of a short-circuit disjunction hold
					all = false
				}
			}
			if all {
				return "scalar-guarded", ""
			}
			// `a != "" || b != ""` → error: the stores are under both negations; check via the else-edge dominance
			other := b.Succs[1-side]
			dom := true
			for _, st := range scalar {
				if !(other == st.Block() || other.Dominates(st.Block())) {
					dom = false
				}
			}
			if dom && len(other.Preds) == 1 {
				return "scalar-guarded", ""
			}
		}
	}
	// disjunction guard: walk blocks dominating all scalar stores and look for a chain of receiver-state tests all leading to one error return
	var doms []*ssa.BasicBlock
	if len(scalar) > 0 {
		for d := scalar[0].Block(); d != nil; d = d.Idom() {
			doms = append(doms, d)
		}
	}
	for _, d := range doms {
		for _, g := range GuardsAt(d) {
			if mentionsReceiverState(g.Cond) {
				// the opposite edge must reach an error return directly
				ifb := g.If.Block()
				var opp *ssa.BasicBlock
				if g.Pol {
					opp = ifb.Succs[1]
				} else {
					opp = ifb.Succs[0]
				}
				if ret, ok := opp.Instrs[len(opp.Instrs)-1].(*ssa.Return); ok && len(ret.Results) == 1 && !isNilConst(ret.Results[0]) {
					allUnder := true
					for _, st := range scalar {
						if !(d == st.Block() || d.Dominates(st.Block())) {
							allUnder = false
						}
					}
					if allUnder {
						return "scalar-guarded", ""
					}
				}
			}
		}
	}
	var fs []string
	for _, st := range scalar {
		fs = append(fs, AddrTerm(st.Addr))
	}
	return "scalar-unguarded", "assigns " + strings.Join(fs, ", ") + " without checking that no value was given before"
}

// mentionsReceiverState: the condition reads memory through the receiver (p0).
func mentionsReceiverState(cond ssa.Value) bool {
	var ins []ssa.Instruction
	leafInstrs(cond, map[ssa.Value]bool{}, &ins)
	for _, in := range ins {
		if u, ok := in.(*ssa.UnOp); ok && u.Op == token.MUL {
			t := AddrTerm(u.X)
			if t == "p0" || strings.HasPrefix(t, "p0.") {
				return true
			}
		}
	}
	return false
}

// flagPatterns decides the clauses about the -F/-C patterns (C14.R1). The rule encoder and the
// decoder's round trip go through flags.Parse as well: a value that is not taken verbatim, or an
// operator that is split, changes the bytes Build produces (C06.R9) and what a listing re-encodes
// to (C07.R9).
func flagPatterns(r *Run, w *World, ruleID string) {
	r.Rule(ruleID, "the whole argument is matched: a Set that takes its result from FindStringSubmatch uses a pattern anchored at both ends in which everything outside the capture groups matches only whitespace; a non-match is an error; LHS, Comparator, RHS are groups 1, 2, 3", 4)
	for _, fn := range w.PkgFuncs("flags") {
		for _, c := range callsNamedIn(fn, "(*regexp.Regexp).FindStringSubmatch") {
			call := c.(*ssa.Call)
			ld, ok := call.Call.Args[0].(*ssa.UnOp)
			var globs []*ssa.Global
			if ok {
				if g, isG := ld.X.(*ssa.Global); isG {
					globs = append(globs, g)
				} else if fa, isFA := ld.X.(*ssa.FieldAddr); isFA {
					// the regexp is carried in a struct field: every value stored to that field
					// in the package must be one of the package-level patterns, and each is checked
					fv := fieldOfAddr(fa)
					okAll := true
					var scan func(f *ssa.Function)
					scan = func(f *ssa.Function) {
						instrsOf(f, func(in ssa.Instruction) {
							st, isSt := in.(*ssa.Store)
							if !isSt {
								return
							}
							sfa, isF := st.Addr.(*ssa.FieldAddr)
							if !isF || fieldOfAddr(sfa) != fv {
								return
							}
							if sld, isLd := st.Val.(*ssa.UnOp); isLd && sld.Op == token.MUL {
								if g, isG := sld.X.(*ssa.Global); isG {
									for _, have := range globs {
										if have == g {
											return
										}
									}
									globs = append(globs, g)
									return
								}
							}
							okAll = false
						})
						for _, af := range f.AnonFuncs {
							scan(af)
						}
					}
					for _, pf := range w.PkgFuncs("flags") {
						scan(pf)
					}
					if !okAll {
						globs = nil
					}
				}
			}
			if len(globs) == 0 {
				r.Undecided(fnName(fn)+" pattern", call.Pos(), "the regexp is not a package-level variable (or a field that only ever holds package-level patterns)")
				continue
			}
			for _, g := range globs {
				pat, pos, err := w.regexpVarPattern("flags", g.Name())
				if err != nil {
					r.Anchor(err)
					continue
				}
				sh, err := analyseRegexp(pat)
				if err != nil {
					r.Fail(g.Name()+" compiles", pos, "constant pattern does not compile (MustCompile panics at init): "+err.Error())
					continue
				}
				var why []string
				if !sh.AnchoredStart {
					why = append(why, "not anchored at the start (leading junk is accepted and ignored)")
				}
				if !sh.AnchoredEnd {
					why = append(why, "not anchored at the end (a value is cut at the first character the last group cannot match; the rest is ignored)")
				}
				if !sh.OutsideWhitespaceOnly {
					why = append(why, "text outside the capture groups can be non-whitespace: "+sh.OutsideDetail)
				}
				r.Check(len(why) == 0, g.Name()+" matches the whole argument", pos, pat, fmt.Sprintf("pattern %q: %s", pat, strings.Join(why, "; ")))
				// leftmost-first alternation: a literal alternative that is a proper prefix of a later one hides it
				for gi, alts := range literalAlternations(pat) {
					hidden := ""
					for i := 0; i < len(alts); i++ {
						for j := i + 1; j < len(alts); j++ {
							if len(alts[i]) < len(alts[j]) && strings.HasPrefix(alts[j], alts[i]) {
								hidden = fmt.Sprintf("%q is tried before %q", alts[i], alts[j])
							}
						}
					}
					r.Check(hidden == "", fmt.Sprintf("%s group %d alternation order", g.Name(), gi), pos, strings.Join(alts, " "), fmt.Sprintf("pattern %q, group %d: %s and always wins (Go tries alternatives left to right), so the longer operator is split: its tail becomes part of the value", pat, gi, hidden))
				}
				// the value starts right after the operator: nothing (not even optional whitespace) may be
				// matched between group 2 and group 3, or leading spaces of a value would be dropped; for
				// -F the value group must also run to the end anchor and accept any character, or
				// trailing text would be dropped or refused
				adjacent := sh.AfterOperator != nil && sh.AfterOperator.Op == syntax.OpCapture && sh.AfterOperator.Cap == 3
				r.Check(adjacent, g.Name()+" value follows the operator directly", pos, "", fmt.Sprintf("pattern %q: something is matched between the operator and the value group, so part of the text after the operator does not end up in the value", pat))
				if g.Name() == "filterRegexp" {
					toEnd := sh.AfterValue != nil && sh.AfterValue.Op == syntax.OpEndText
					anyPlus := false
					if vg := sh.ValueGroup; vg != nil && len(vg.Sub) == 1 {
						b := vg.Sub[0]
						anyPlus = b.Op == syntax.OpPlus && len(b.Sub) == 1 && (b.Sub[0].Op == syntax.OpAnyCharNotNL || b.Sub[0].Op == syntax.OpAnyChar)
					}
					r.Check(toEnd && anyPlus, g.Name()+" value is the rest of the argument", pos, "(.+)$", fmt.Sprintf("pattern %q: the value group is not `(.+)` immediately before the end anchor, so the value is not the complete text after the operator (whitespace at its edges is trimmed, or some values are refused)", pat))
				}
				// the operator group is a finite language: it must be exactly the operators the encoder
				// knows (-F) or =, != (-C), and no string of an earlier alternative may be a proper
				// prefix of a string of a later one (leftmost-first alternation would split the longer
				// operator and push its tail into the value)
				if ga, have := groupAlternatives(pat)[2]; !have || !ga.OK {
					r.Undecided(g.Name()+" operator group", pos, fmt.Sprintf("pattern %q: the operator group is not a finite alternation of literals and character classes", pat))
				} else {
					lang := map[string]bool{}
					hidden := ""
					for i, ai := range ga.Alts {
						for _, si := range ai {
							lang[si] = true
							for j := i + 1; j < len(ga.Alts); j++ {
								for _, sj := range ga.Alts[j] {
									if len(si) < len(sj) && strings.HasPrefix(sj, si) {
										hidden = fmt.Sprintf("%q (alternative %d) is tried before %q (alternative %d)", si, i+1, sj, j+1)
									}
								}
							}
						}
					}
					r.Check(hidden == "", g.Name()+" operator alternatives ordered", pos, "", fmt.Sprintf("pattern %q: %s and always wins, so the longer operator is split: its tail becomes part of the value", pat, hidden))
					want := map[string]bool{"=": true, "!=": true}
					if g.Name() == "filterRegexp" {
						want = map[string]bool{}
						if ents, _, _, err := w.MapLit("rule", "operatorsTable"); err == nil {
							for _, e := range ents {
								want[e.KeyStr()] = true
							}
						}
					}
					var extra, missing []string
					for k := range lang {
						if !want[k] {
							extra = append(extra, k)
						}
					}
					for k := range want {
						if !lang[k] {
							missing = append(missing, k)
						}
					}
					sort.Strings(extra)
					sort.Strings(missing)
					r.Check(len(extra) == 0 && len(missing) == 0 && len(want) > 0, g.Name()+" operator set", pos, fmt.Sprintf("%d operators", len(want)),
						fmt.Sprintf("pattern %q: the operator group accepts %q that the encoder does not know, and does not accept %q", pat, extra, missing))
				}
				// a non-match is an error; groups wired in order
				undo := alias(call, "m")
				want := fmt.Sprintf("len(m) == %d", sh.Groups+1)
				fields := map[string]string{}
				okGuard := true
				for _, st := range storesOf(fn) {
					t := AddrTerm(st.Addr)
					// the three parts are stored into the receiver, or into the FilterSpec that is
					// appended to the receiver's list
					if i := strings.LastIndex(t, "."); i >= 0 && !strings.HasPrefix(t, "p0.") {
						switch t[i+1:] {
						case "LHS", "Comparator", "RHS":
							t = "p0." + t[i+1:]
						}
					}
					if strings.HasPrefix(t, "p0.") {
						fields[strings.TrimPrefix(t, "p0.")] = TermAt(st.Val, st.Block())
						if strings.HasPrefix(TermAt(st.Val, st.Block()), "m[") && !HoldsAt(st.Block(), want) {
							okGuard = false
						}
					}
				}
				okErr := false
				for _, ret := range retEdges(fn) {
					if ret.Holds(NegLit(want)) && !isNilConst(ret.Results[0]) {
						okErr = true
					}
				}
				r.Check(okGuard && okErr && fields["LHS"] == "m[1]" && fields["Comparator"] == "m[2]" && fields["RHS"] == "m[3]" && sh.Groups == 3,
					fnName(fn)+" uses groups 1,2,3 under len == 4", fn.Pos(), "", fmt.Sprintf("Set wires %v (groups=%d); a failed match must return an error", fields, sh.Groups))
				undo()
			}
		}
	}

}
