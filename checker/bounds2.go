package main

// A8 continued: library postconditions, induction, lemmas, summaries, obligations, the rule.

import (
	"fmt"
	"go/constant"
	"go/token"
	"go/types"
	"os"
	"path/filepath"
	"regexp/syntax"
	"sort"
	"strings"

	"golang.org/x/tools/go/ssa"
	"gopkg.in/yaml.v3"
)

// ---------------------------------------------------------------------------------------------
// library postconditions

func (p *prover) callPost(name string, c *ssa.Call, idx int) {
	n := calleeName(c)
	r := linAtom(name)
	args := c.Call.Args
	switch n {
	case "strings.Index", "bytes.Index", "strings.LastIndex":
		if idx != 0 {
			return
		}
		p.add(geq(r, linConst(-1), n+" >= -1"))
		p.conds = append(p.conds, condPost{when: r, then: []Fact{leq(r.add(p.lenOf(args[1])), p.lenOf(args[0]), n+": match lies inside s")}})
	case "strings.IndexByte", "strings.IndexRune", "bytes.IndexByte", "strings.IndexFunc":
		if idx != 0 {
			return
		}
		p.add(geq(r, linConst(-1), n+" >= -1"))
		// unconditional: for r = -1 it reads 0 <= len(s)
		p.add(leq(r.addK(1), p.lenOf(args[0]), n+": match (at least one byte) lies inside s"))
		// character-at: searching c2 in s[lo:] where s[lo] is known to be another character ⇒ result != 0
		if n != "strings.IndexFunc" {
			if sl, ok := args[0].(*ssa.Slice); ok && sl.Low != nil && sl.High == nil {
				if c2, ok := constInt(args[1]); ok {
					if c1, known := charAt(sl.X, sl.Low, c.Block()); known && c1 != c2 {
						p.neqs = append(p.neqs, neq{r, fmt.Sprintf("s[lo] == %q, so %q is not found at offset 0", rune(c1), rune(c2))})
					}
				}
			}
		}
	case "syscall.Recvfrom":
		if idx == 0 {
			p.add(geq(r, linConst(-1), "Recvfrom n >= -1"))
			p.add(leq(r, p.lenOf(args[1]), "Recvfrom n <= len(p)"))
		}
	case "copy":
		p.add(Fact{r, "copy >= 0"})
		p.add(leq(r, p.lenOf(args[0]), "copy <= len(dst)"))
		p.add(leq(r, p.lenOf(args[1]), "copy <= len(src)"))
	default:
		if f := c.Call.StaticCallee(); f != nil && p.w.isRepoFn(f) && len(f.Blocks) > 0 {
			p.repoPost(name, c, f, idx)
		}
	}
}

// charAt: the character known to be at s[pos] because pos was produced by searching for it.
// Phis pinned by a guard dominating `at` (the index result of an inlined helper after its -1
// check) are followed to the value they carry.
func charAt(s ssa.Value, pos ssa.Value, at *ssa.BasicBlock) (int64, bool) {
	norm := func(v ssa.Value) ssa.Value {
		for i := 0; i < 4; i++ {
			if at != nil {
				v = resolveUnderGuards(v, at)
			}
			// x + 0, 0 + x
			if b, ok := v.(*ssa.BinOp); ok && b.Op == token.ADD {
				if isConstInt(b.X, 0) {
					v = b.Y
					continue
				}
				if isConstInt(b.Y, 0) {
					v = b.X
					continue
				}
			}
			break
		}
		return v
	}
	same := func(a, b ssa.Value) bool {
		a, b = norm(a), norm(b)
		if a == b {
			return true
		}
		ka, okA := constInt(a)
		kb, okB := constInt(b)
		return okA && okB && ka == kb
	}
	res := func(v ssa.Value) (*ssa.Call, bool) {
		if c, ok := v.(*ssa.Call); ok {
			n := calleeName(c)
			if n == "strings.IndexRune" || n == "strings.IndexByte" || n == "bytes.IndexByte" {
				return c, true
			}
		}
		return nil, false
	}
	pos = norm(pos)
	// searched in s itself (or in s[0:])
	if c, ok := res(pos); ok {
		if c.Call.Args[0] == s {
			return constInt(c.Call.Args[1])
		}
		if sl, ok := c.Call.Args[0].(*ssa.Slice); ok && sl.X == s && sl.High == nil && (sl.Low == nil || isConstInt(norm(sl.Low), 0)) {
			return constInt(c.Call.Args[1])
		}
	}
	if b, ok := pos.(*ssa.BinOp); ok && b.Op == token.ADD {
		for _, pair := range [][2]ssa.Value{{b.X, b.Y}, {b.Y, b.X}} {
			if c, ok := res(norm(pair[0])); ok {
				if sl, ok := c.Call.Args[0].(*ssa.Slice); ok && sl.X == s && sl.Low != nil && same(sl.Low, pair[1]) && sl.High == nil {
					return constInt(c.Call.Args[1])
				}
			}
		}
	}
	return 0, false
}

func (p *prover) applyConds() {
	for round := 0; round < 6; round++ {
		changed := false
		before := len(p.neqs)
		p.retryNeqs()
		if len(p.neqs) != before {
			changed = true
		}
		for i := range p.conds {
			c := &p.conds[i]
			if c.done {
				continue
			}
			if p.provable(Fact{c.when, ""}) {
				c.done = true
				changed = true
				for _, f := range c.then {
					p.add(f)
				}
			}
		}
		if !changed {
			return
		}
	}
}

// ---------------------------------------------------------------------------------------------
// summaries of repository functions (checked at every return before being used at call sites)

type retSummary struct {
	lowerConst *int64 // r >= c
	upperLenM1 []int  // r <= len(param_j) - 1
	upperLen   []int  // r <= len(param_j)
}

var retSummaries = map[string]*retSummary{}

func errIndex(f *ssa.Function) int {
	res := f.Signature.Results()
	for i := res.Len() - 1; i >= 0; i-- {
		if isErrorType(res.At(i).Type()) {
			return i
		}
	}
	return -1
}

func (w *World) summarise(f *ssa.Function, idx int, depth int) *retSummary {
	key := fmt.Sprintf("%s/%s#%d", w.GOARCH, fnName(f), idx)
	if s, ok := retSummaries[key]; ok {
		return s
	}
	s := &retSummary{}
	retSummaries[key] = s // cycle guard: empty summary
	if depth > 3 {
		return s
	}
	if _, _, ok := intSize(w, f.Signature.Results().At(idx).Type()); !ok {
		return s
	}
	ei := errIndex(f)
	var rets []*ssa.Return
	for _, ret := range returnsOf(f) {
		if ei >= 0 && ei != idx {
			ev := returnedValues(ret)[ei]
			if !isNilConst(ev) {
				if _, isConst := ev.(*ssa.Const); isConst {
					continue
				}
				// a non-constant error value: non-nil by a dominating guard?
				if HoldsAt(ret.Block(), Term(ev)+" != nil") || strings.HasPrefix(Term(ev), "fmt.Errorf(") || strings.HasPrefix(Term(ev), "errors.New(") ||
					(strings.Contains(Term(ev), ".err") && !strings.Contains(Term(ev), "#")) {
					continue
				}
			}
		}
		rets = append(rets, ret)
	}
	if len(rets) == 0 {
		return s
	}
	try := func(goal func(q *prover, r ssa.Value) Lin) bool {
		for _, ret := range rets {
			q := newProver(w, f, ret)
			q.depthSum = depth + 1
			rv := returnedValues(ret)[idx]
			if !q.prove(ret.Block(), func() []Lin { return []Lin{goal(q, rv)} }) {
				return false
			}
		}
		return true
	}
	for _, c := range []int64{0, -1} {
		cc := c
		if try(func(q *prover, r ssa.Value) Lin { return q.lin(r).addK(-cc) }) {
			s.lowerConst = &cc
			break
		}
	}
	for j, prm := range f.Params {
		switch prm.Type().Underlying().(type) {
		case *types.Slice:
		case *types.Basic:
			if b := prm.Type().Underlying().(*types.Basic); b.Info()&types.IsString == 0 {
				continue
			}
		default:
			continue
		}
		jj := j
		if try(func(q *prover, r ssa.Value) Lin { return q.lenOf(f.Params[jj]).addK(-1).sub(q.lin(r)) }) {
			s.upperLenM1 = append(s.upperLenM1, j)
		} else if try(func(q *prover, r ssa.Value) Lin { return q.lenOf(f.Params[jj]).sub(q.lin(r)) }) {
			s.upperLen = append(s.upperLen, j)
		}
	}
	return s
}

func (p *prover) repoPost(name string, c *ssa.Call, f *ssa.Function, idx int) {
	if f.Signature.Results().Len() <= idx {
		return
	}
	s := p.w.summarise(f, idx, p.depthSum)
	if s.lowerConst == nil && len(s.upperLen) == 0 && len(s.upperLenM1) == 0 {
		return
	}
	// the summary describes success returns: the caller must be on the err == nil edge
	if ei := errIndex(f); ei >= 0 && ei != idx {
		lit := Term(c) + "#" + fmt.Sprint(ei) + " == nil"
		if p.site == nil || !HoldsAt(p.site.Block(), lit) {
			return
		}
	}
	r := linAtom(name)
	why := "checked summary of " + fnName(f)
	p.lemmas["summary:"+fnName(f)] = true
	if s.lowerConst != nil {
		p.add(geq(r, linConst(*s.lowerConst), why))
	}
	for _, j := range s.upperLenM1 {
		p.add(leq(r, p.lenOf(c.Call.Args[j]).addK(-1), why))
	}
	for _, j := range s.upperLen {
		p.add(leq(r, p.lenOf(c.Call.Args[j]), why))
	}
}

// ---------------------------------------------------------------------------------------------
// induction on phis

// additiveBounds: constant bounds of a phi whose every cycle adds a constant of one sign.
func additiveBounds(phi *ssa.Phi) (lo *int64, hi *int64) {
	var consts []int64
	minInc, maxInc := int64(0), int64(0)
	seen := map[*ssa.Phi]bool{}
	ok := true
	var walk func(v ssa.Value)
	walk = func(v ssa.Value) {
		switch x := v.(type) {
		case *ssa.Const:
			if n, isI := constInt(x); isI {
				consts = append(consts, n)
			} else {
				ok = false
			}
		case *ssa.Phi:
			if seen[x] {
				return
			}
			seen[x] = true
			for _, e := range x.Edges {
				walk(e)
			}
		case *ssa.BinOp:
			k, isC := constInt(x.Y)
			if !isC || (x.Op != token.ADD && x.Op != token.SUB) {
				ok = false
				return
			}
			if x.Op == token.SUB {
				k = -k
			}
			if k < minInc {
				minInc = k
			}
			if k > maxInc {
				maxInc = k
			}
			inner, isPhi := x.X.(*ssa.Phi)
			if !isPhi {
				ok = false
				return
			}
			walk(inner)
		default:
			ok = false
		}
	}
	walk(phi)
	if !ok || len(consts) == 0 {
		return nil, nil
	}
	mn, mx := consts[0], consts[0]
	for _, c := range consts {
		if c < mn {
			mn = c
		}
		if c > mx {
			mx = c
		}
	}
	if minInc >= 0 {
		lo = &mn
	}
	if maxInc <= 0 {
		hi = &mx
	}
	return
}

type lockStepRel struct{ s1, s2, c int64 }

// lockStep: a and b are phis of one block such that on every incoming edge either both carry
// integer constants (loop entry) or both carry themselves plus a constant (a cycle). Then
// s1*b - s2*a is invariant, where s1, s2 are the steps of a and b; returns that relation when
// the steps are the same on every cycle edge and the constant is the same on every entry edge.
func lockStep(a, b *ssa.Phi) (lockStepRel, bool) {
	if a.Block() != b.Block() || len(a.Edges) != len(b.Edges) {
		return lockStepRel{}, false
	}
	step := func(phi *ssa.Phi, e ssa.Value) (int64, bool) {
		bo, ok := e.(*ssa.BinOp)
		if !ok || (bo.Op != token.ADD && bo.Op != token.SUB) || bo.X != ssa.Value(phi) {
			return 0, false
		}
		k, isC := constInt(bo.Y)
		if !isC {
			return 0, false
		}
		if bo.Op == token.SUB {
			k = -k
		}
		return k, true
	}
	var rel lockStepRel
	haveStep, haveInit := false, false
	for i := range a.Edges {
		ia, aC := constInt(a.Edges[i])
		ib, bC := constInt(b.Edges[i])
		sa, aS := step(a, a.Edges[i])
		sb, bS := step(b, b.Edges[i])
		switch {
		case aS && bS:
			if haveStep && (rel.s1 != sa || rel.s2 != sb) {
				return lockStepRel{}, false
			}
			rel.s1, rel.s2, haveStep = sa, sb, true
		case aC && bC:
			_ = ia
			_ = ib
		default:
			return lockStepRel{}, false
		}
	}
	if !haveStep || (rel.s1 == 0 && rel.s2 == 0) {
		return lockStepRel{}, false
	}
	for i := range a.Edges {
		ia, aC := constInt(a.Edges[i])
		ib, bC := constInt(b.Edges[i])
		if aC && bC {
			c := rel.s1*ib - rel.s2*ia
			if haveInit && c != rel.c {
				return lockStepRel{}, false
			}
			rel.c, haveInit = c, true
		}
	}
	return rel, haveInit
}

// induct tries to establish phi ⋈ bound(q) by induction over the closure of phis that feed phi:
// assume it for every phi of the closure, and show that every non-phi value entering the closure
// satisfies it at the end of the predecessor block it comes from.
func (p *prover) induct(name string, phi *ssa.Phi, bound func(q *prover) Lin, upper bool, what string) bool {
	if p.inInd[phi] || p.depthSum > 2 {
		return false
	}
	closure := map[*ssa.Phi]bool{}
	var order []*ssa.Phi
	var collect func(x *ssa.Phi)
	collect = func(x *ssa.Phi) {
		if closure[x] {
			return
		}
		closure[x] = true
		order = append(order, x)
		for _, e := range x.Edges {
			if pe, ok := e.(*ssa.Phi); ok {
				collect(pe)
			}
		}
	}
	collect(phi)
	if len(order) > 6 {
		return false
	}
	for _, ph := range order {
		for i, e := range ph.Edges {
			if pe, ok := e.(*ssa.Phi); ok && closure[pe] {
				continue
			}
			pred := ph.Block().Preds[i]
			q := newProver(p.w, p.fn, pred.Instrs[len(pred.Instrs)-1])
			q.depthSum = p.depthSum + 1
			// the value arrives along the edge pred → φ's block: when pred branches, the edge's
			// own condition holds as well (it is not a dominating guard of pred)
			if ifi, isIf := pred.Instrs[len(pred.Instrs)-1].(*ssa.If); isIf && len(pred.Succs) == 2 && pred.Succs[0] != pred.Succs[1] {
				q.edgeCond, q.edgePol = ifi.Cond, pred.Succs[0] == ph.Block()
			}
			for k := range p.inInd {
				q.inInd[k] = true
			}
			for k := range closure {
				q.inInd[k] = true
			}
			hyp := func() {
				for _, c := range order {
					h := q.lin(c)
					b := bound(q)
					if upper {
						q.inv = append(q.inv, leq(h, b, "induction hypothesis"))
					} else {
						q.inv = append(q.inv, geq(h, b, "induction hypothesis"))
					}
				}
			}
			ev := e
			ok := q.proveWith(pred, hyp, func() []Lin {
				if upper {
					return []Lin{bound(q).sub(q.lin(ev))}
				}
				return []Lin{q.lin(ev).sub(bound(q))}
			})
			if !ok {
				return false
			}
		}
	}
	p.lemmas["induction"] = true
	return true
}

// ---------------------------------------------------------------------------------------------
// lemmas (premises are re-checked on every run)

var regexpLemmaCache = map[string]*reShape{}

func (p *prover) regexpOf(v ssa.Value) (*reShape, int) {
	ld, ok := v.(*ssa.UnOp)
	if !ok {
		return nil, 0
	}
	g, ok := ld.X.(*ssa.Global)
	if !ok {
		return nil, 0
	}
	pkg := shortQual(g.Pkg.Pkg)
	key := p.w.Dir + "\x00" + pkg + "." + g.Name() // per tree: the self-tests load scratch copies in the same process
	if sh, ok := regexpLemmaCache[key]; ok {
		return sh, sh.Groups
	}
	pat, _, err := p.w.regexpVarPattern(pkg, g.Name())
	if err != nil {
		return nil, 0
	}
	sh, err := analyseRegexp(pat)
	if err != nil {
		return nil, 0
	}
	// the global must be assigned only by its initialiser
	n := 0
	for _, fn := range p.w.SrcFuncs() {
		instrsOf(fn, func(in ssa.Instruction) {
			if st, ok := in.(*ssa.Store); ok && st.Addr == ssa.Value(g) {
				n++
			}
		})
	}
	if n != 1 {
		return nil, 0
	}
	regexpLemmaCache[key] = sh
	return sh, sh.Groups
}

type pairKey struct {
	base string
	idx  int64
}

// loadLemmas: facts about an integer atom that is a load.
func (p *prover) loadLemmas(name string, v ssa.Value) {
	ld, ok := v.(*ssa.UnOp)
	if ok && ld.Op == token.MUL {
		switch a := ld.X.(type) {
		case *ssa.IndexAddr:
			// element of a FindStringSubmatchIndex result
			if c, ok := a.X.(*ssa.Call); ok && calleeName(c) == "(*regexp.Regexp).FindStringSubmatchIndex" {
				if m, isC := constInt(a.Index); isC {
					sh, _ := p.regexpOf(c.Call.Args[0])
					g := int(m / 2)
					onSpine := g == 0
					if sh != nil {
						for _, t := range sh.TopLevelGroups {
							if t == g {
								onSpine = true
							}
						}
					}
					if sh != nil && onSpine {
						p.lemmas["regexp-submatch"] = true
						r := linAtom(name)
						p.add(Fact{r, "lemma regexp-submatch: index of a group on the mandatory spine is >= 0 when the match is non-nil"})
						p.add(leq(r, p.lenOf(c.Call.Args[1]), "lemma regexp-submatch: index <= len(s)"))
						base := fmt.Sprintf("%p", c)
						if p.pairs == nil {
							p.pairs = map[pairKey]string{}
						}
						p.pairs[pairKey{base, m}] = name
						if m%2 == 0 {
							if other, ok := p.pairs[pairKey{base, m + 1}]; ok {
								p.add(leq(r, linAtom(other), "lemma regexp-submatch: start <= end"))
							}
						} else if other, ok := p.pairs[pairKey{base, m - 1}]; ok {
							p.add(leq(linAtom(other), r, "lemma regexp-submatch: start <= end"))
						}
					}
				}
			}
		case *ssa.FieldAddr:
			f := fieldOfAddr(a)
			p.fieldLoad(name, ld, a, f, false)
			if f.Name() == "ObjectPathIndex" && p.yamlNonNeg() {
				p.lemmas["yaml-nonneg-index"] = true
				p.add(Fact{linAtom(name), "lemma yaml-nonneg-index: every object_path_index in the embedded YAML is >= 0 and no code writes the field"})
			}
		}
	}
	// map-of-range-indices
	var lk *ssa.Lookup
	switch x := v.(type) {
	case *ssa.Extract:
		if l, ok := x.Tuple.(*ssa.Lookup); ok && x.Index == 0 {
			lk = l
		}
	case *ssa.Lookup:
		lk = x
	}
	if lk != nil {
		if mm, ok := lk.X.(*ssa.MakeMap); ok {
			var ranged ssa.Value
			okAll := true
			n := 0
			if mm.Referrers() != nil {
				for _, rf := range *mm.Referrers() {
					mu, isMU := rf.(*ssa.MapUpdate)
					if !isMU {
						continue
					}
					n++
					base := rangeIndexBase(mu.Value)
					if base == nil || (ranged != nil && Term(ranged) != Term(base)) {
						okAll = false
					}
					ranged = base
				}
			}
			if okAll && n > 0 && ranged != nil && p.foundLookups[lk] {
				p.lemmas["map-of-range-indices"] = true
				r := linAtom(name)
				p.add(Fact{r, "lemma map-of-range-indices"})
				p.add(leq(r, p.lenOf(ranged).addK(-1), "lemma map-of-range-indices: every stored value is a range index of "+Term(ranged)))
			}
		}
	}
}

// rangeIndexBase: v is the index variable of `for idx := range X` (go/ssa: φ{-1|inc}+1 compared with len(X)).
func rangeIndexBase(v ssa.Value) ssa.Value {
	inc, ok := v.(*ssa.BinOp)
	if !ok || inc.Op != token.ADD || !isConstInt(inc.Y, 1) {
		return nil
	}
	phi, ok := inc.X.(*ssa.Phi)
	if !ok {
		return nil
	}
	hdr := phi.Block()
	ifi, ok := hdr.Instrs[len(hdr.Instrs)-1].(*ssa.If)
	if !ok {
		return nil
	}
	cmp, ok := ifi.Cond.(*ssa.BinOp)
	if !ok || cmp.Op != token.LSS || cmp.X != ssa.Value(inc) {
		return nil
	}
	c, ok := cmp.Y.(*ssa.Call)
	if !ok || calleeName(c) != "len" {
		return nil
	}
	hasInit := false
	for _, e := range phi.Edges {
		if isConstInt(e, -1) {
			hasInit = true
		}
	}
	if !hasInit {
		return nil
	}
	return c.Call.Args[0]
}

// lenLemmas: facts about len(x).
func (p *prover) lenLemmas(name string, x ssa.Value) {
	l := linAtom(name)
	switch y := x.(type) {
	case *ssa.Call:
		switch calleeName(y) {
		case "strings.SplitN":
			n := p.lin(y.Call.Args[2])
			if p.provable(Fact{n.addK(-1), ""}) {
				p.add(leq(l, n, "strings.SplitN returns at most n parts"))
			}
		case "strings.Split":
			p.add(geq(l, linConst(1), "strings.Split returns at least one part"))
		}
	case *ssa.UnOp:
		if y.Op != token.MUL {
			return
		}
		switch a := y.X.(type) {
		case *ssa.IndexAddr:
			if c, ok := a.X.(*ssa.Call); ok && calleeName(c) == "(*regexp.Regexp).FindAllStringSubmatch" {
				if sh, groups := p.regexpOf(c.Call.Args[0]); sh != nil {
					p.lemmas["regexp-submatch"] = true
					p.add(geq(l, linConst(int64(groups+1)), "lemma regexp-submatch: each row has NumSubexp+1 entries"))
					p.add(leq(l, linConst(int64(groups+1)), "lemma regexp-submatch: each row has NumSubexp+1 entries"))
				}
			}
		case *ssa.FieldAddr:
			p.fieldLoad(name, y, a, fieldOfAddr(a), true)
			// store fact: the last dominating store to this location, if nothing in between can change it
			cls := "field:" + fieldOfAddr(a).Name()
			loc := AddrTerm(a)
			var best *ssa.Store
			for _, st := range storesOf(p.fn) {
				if AddrTerm(st.Addr) != loc {
					continue
				}
				if !(st.Block() == y.Block() && orderInBlock(st) < orderInBlock(y) || st.Block().Dominates(y.Block()) && st.Block() != y.Block()) {
					continue
				}
				if p.w.stableBetween(st, y, cls) {
					best = st
				}
			}
			if best != nil {
				switch best.Val.(type) {
				case *ssa.MakeSlice, *ssa.Slice, *ssa.Const:
					sl := p.lenOf(best.Val)
					p.add(leq(l, sl, "length of the value stored at "+p.w.Pos(best.Pos())))
					p.add(geq(l, sl, "length of the value stored at "+p.w.Pos(best.Pos())))
				}
			}
		}
	case *ssa.Extract:
		if c, ok := y.Tuple.(*ssa.Call); ok {
			if f := c.Call.StaticCallee(); f != nil && calleeName(c) == "(*regexp.Regexp).FindStringSubmatchIndex" {
				_ = f
			}
		}
	}
}

// fieldLoad registers a load of base.f (its length if isLen) and adds the invariants that relate
// it to sibling fields of the same object.
type fieldAtom struct {
	name  string
	load  *ssa.UnOp
	isLen bool
}

func (p *prover) fieldLoad(name string, ld *ssa.UnOp, fa *ssa.FieldAddr, f *types.Var, isLen bool) {
	base := AddrTerm(fa.X)
	if p.fieldAtoms == nil {
		p.fieldAtoms = map[string]map[string]fieldAtom{}
	}
	if p.fieldAtoms[base] == nil {
		p.fieldAtoms[base] = map[string]fieldAtom{}
	}
	key := f.Name()
	if isLen {
		key = "len:" + key
	}
	p.fieldAtoms[base][key] = fieldAtom{name, ld, isLen}
	sib := p.fieldAtoms[base]
	// (1) parallel slices: len(base.fields) == len(base.fieldFlags) == len(base.values)
	if isLen {
		for _, class := range p.parallelClasses(fa, f) {
			for _, g := range class.fields {
				if g == f.Name() {
					continue
				}
				if other, ok := sib["len:"+g]; ok && class.valid(ld) && class.valid(other.load) {
					p.lemmas[class.lemma] = true
					p.add(leq(linAtom(name), linAtom(other.name), "lemma "+class.lemma))
					p.add(geq(linAtom(name), linAtom(other.name), "lemma "+class.lemma))
				}
			}
		}
	}
	// (2) AuditMessage.offset <= len(AuditMessage.RawData)
	if f.Name() == "offset" || (isLen && f.Name() == "RawData") {
		o, ok1 := sib["offset"]
		r, ok2 := sib["len:RawData"]
		if ok1 && ok2 && p.offsetInvariant() {
			p.lemmas["offset-invariant"] = true
			p.add(leq(linAtom(o.name), linAtom(r.name), "lemma offset-invariant: the only writer of offset is Parse's literal, where offset <= len(RawData)"))
		}
	}
}

type parallelClass struct {
	lemma  string
	fields []string
	valid  func(load *ssa.UnOp) bool
}

// parallelClasses: which sibling fields have the same length as base.f at this load.
func (p *prover) parallelClasses(fa *ssa.FieldAddr, f *types.Var) []parallelClass {
	var out []parallelClass
	st, ok := fa.X.Type().Underlying().(*types.Pointer).Elem().(*types.Named)
	if !ok || st.Obj().Name() != "ruleData" {
		return nil
	}
	trio := []string{"fields", "fieldFlags", "values"}
	in := false
	for _, t := range trio {
		if t == f.Name() {
			in = true
		}
	}
	if !in {
		return nil
	}
	// decoder: after a dominating `X.fromAuditRuleData(...) == nil` on the same object
	for _, b := range p.fn.Blocks {
		for _, ins := range b.Instrs {
			c, ok := ins.(*ssa.Call)
			if !ok {
				continue
			}
			callee := c.Call.StaticCallee()
			if callee == nil || callee.Name() != "fromAuditRuleData" || len(c.Call.Args) == 0 {
				continue
			}
			if AddrTerm(c.Call.Args[0]) != AddrTerm(fa.X) {
				continue
			}
			if !p.w.decoderParallelOK(callee) {
				continue
			}
			call := c
			out = append(out, parallelClass{lemma: "parallel-slices (decoder)", fields: trio, valid: func(ld *ssa.UnOp) bool {
				if p.site == nil || !HoldsAt(p.site.Block(), Term(call)+" == nil") {
					return false
				}
				fld := fieldOfAddr(ld.X.(*ssa.FieldAddr)).Name()
				return p.w.stableBetween(call, ld, "field:"+fld)
			}})
		}
	}
	// decoder, inside fromAuditRuleData itself: the three make() calls with one size
	if p.fn.Name() == "fromAuditRuleData" && p.w.decoderParallelOK(p.fn) && AddrTerm(fa.X) == "p0" {
		out = append(out, parallelClass{lemma: "parallel-slices (decoder)", fields: trio, valid: func(ld *ssa.UnOp) bool {
			// after the last of the three stores
			fld := fieldOfAddr(ld.X.(*ssa.FieldAddr)).Name()
			var last *ssa.Store
			for _, st := range storesOf(p.fn) {
				if fa2, ok := st.Addr.(*ssa.FieldAddr); ok && fieldOfAddr(fa2).Name() == fld && AddrTerm(fa2.X) == "p0" {
					last = st
				}
			}
			return last != nil && p.w.stableBetween(last, ld, "field:"+fld)
		}})
	}
	// encoder: the value receiver of toAuditRuleData (type invariant established by addFilter's appends)
	if p.fn.Name() == "toAuditRuleData" && p.w.encoderParallelOK() {
		out = append(out, parallelClass{lemma: "parallel-slices (encoder)", fields: trio, valid: func(ld *ssa.UnOp) bool {
			fld := fieldOfAddr(ld.X.(*ssa.FieldAddr)).Name()
			// no store to the field in this function
			for _, st := range storesOf(p.fn) {
				if fa2, ok := st.Addr.(*ssa.FieldAddr); ok && fieldOfAddr(fa2).Name() == fld {
					if _, isNamed := fa2.X.Type().Underlying().(*types.Pointer).Elem().(*types.Named); isNamed && fa2.X.Type().Underlying().(*types.Pointer).Elem().(*types.Named).Obj().Name() == "ruleData" {
						return false
					}
				}
			}
			return true
		}})
	}
	return out
}

var lemmaCache = map[string]bool{}

// decoderParallelOK: in fromAuditRuleData the last stores to fields/fieldFlags/values are make()
// calls with the same length value, and nothing later in the function stores those fields.
func (w *World) decoderParallelOK(f *ssa.Function) bool {
	key := w.Dir + "\x00" + w.GOARCH + "/decoder"
	if v, ok := lemmaCache[key]; ok {
		return v
	}
	sizes := map[string]string{}
	counts := map[string]int{}
	ok := true
	for _, st := range storesOf(f) {
		fa, isFA := st.Addr.(*ssa.FieldAddr)
		if !isFA || AddrTerm(fa.X) != "p0" {
			continue
		}
		n := fieldOfAddr(fa).Name()
		if n != "fields" && n != "fieldFlags" && n != "values" {
			continue
		}
		counts[n]++
		mk, isMk := st.Val.(*ssa.MakeSlice)
		if !isMk {
			ok = false
			continue
		}
		sizes[n] = Term(mk.Len) // last store wins (block order)
	}
	if sizes["fields"] == "" || sizes["fields"] != sizes["fieldFlags"] || sizes["fields"] != sizes["values"] {
		ok = false
	}
	// every store of one field is a make with the same size (fields is stored twice today)
	lemmaCache[key] = ok
	return ok
}

// encoderParallelOK: premises of the encoder lemma — every writer of fields/fieldFlags/values is
// addFilter, addInterFieldComparator or fromAuditRuleData, and for every field code addFilter
// appends exactly one of each on success and nothing on error (the C06.R5 analysis).
func (w *World) encoderParallelOK() bool {
	key := w.Dir + "\x00" + w.GOARCH + "/encoder"
	if v, ok := lemmaCache[key]; ok {
		return v
	}
	lemmaCache[key] = false
	r := NewRun("lemma", "quick")
	r.W = w
	r.Rule("lemma", "", 0)
	x := loadRulePkg(r, w)
	ok := x.ok
	if ok {
		for _, name := range x.sortedFieldNames() {
			arm := x.encoderArm(x.fields[name])
			if len(arm.Problems) > 0 || arm.Paths == 0 {
				ok = false
			}
		}
		for _, fname := range []string{"fields", "fieldFlags", "values"} {
			fv, err := w.FieldVar("rule", "ruleData", fname)
			if err != nil {
				ok = false
				continue
			}
			for _, a := range Writes(w.FieldAccesses(fv)) {
				n := a.Fn.Name()
				if n != "addFilter" && n != "addInterFieldComparator" && n != "fromAuditRuleData" {
					ok = false
				}
			}
		}
		// Build hands toAuditRuleData only a ruleData it constructed itself and only after every add* succeeded
		if len(w.CallSites(x.toARD)) != 1 {
			ok = false
		}
	}
	lemmaCache[key] = ok
	return ok
}

// offsetInvariant: premise of lemma offset-invariant.
func (p *prover) offsetInvariant() bool {
	key := p.w.Dir + "\x00" + p.w.GOARCH + "/offset"
	if v, ok := lemmaCache[key]; ok {
		return v
	}
	lemmaCache[key] = false
	w := p.w
	fv, err := w.FieldVar("auparse", "AuditMessage", "offset")
	if err != nil {
		return false
	}
	ok := true
	n := 0
	for _, a := range Writes(w.FieldAccesses(fv)) {
		st, isSt := a.Instr.(*ssa.Store)
		if !isSt || a.Kind != "store" {
			ok = false
			continue
		}
		n++
		// sibling store of RawData on the same allocation in the same block
		var raw ssa.Value
		for _, in := range st.Block().Instrs {
			if s2, isS := in.(*ssa.Store); isS {
				if fa2, isFA := s2.Addr.(*ssa.FieldAddr); isFA && fa2.X == st.Addr.(*ssa.FieldAddr).X && fieldOfAddr(fa2).Name() == "RawData" {
					raw = s2.Val
				}
			}
		}
		if raw == nil {
			ok = false
			continue
		}
		q := newProver(w, a.Fn, st)
		q.depthSum = 1
		val := st.Val
		if !q.prove(st.Block(), func() []Lin { return []Lin{q.lenOf(raw).sub(q.lin(val))} }) {
			ok = false
		}
	}
	lemmaCache[key] = ok && n >= 1
	return lemmaCache[key]
}

func (p *prover) yamlNonNeg() bool {
	key := "yaml-nonneg"
	if v, ok := lemmaCache[key]; ok {
		return v
	}
	lemmaCache[key] = false
	w := p.w
	b, _, err := embeddedYAML(w)
	if err != nil {
		return false
	}
	ok := yamlPathIndexesNonNegative(b)
	if fv, err := w.FieldVar("aucoalesce", "Normalization", "ObjectPathIndex"); err == nil {
		if len(Writes(w.FieldAccesses(fv))) != 0 {
			ok = false
		}
	} else {
		ok = false
	}
	lemmaCache[key] = ok
	return ok
}

// ---------------------------------------------------------------------------------------------
// assumed preconditions (checked at every call site)

type precond struct {
	desc   string
	assume func(p *prover, f *ssa.Function)
	check  func(q *prover, c *ssa.Call) Lin // goal >= 0 at the call site
}

var preconds map[string]precond

func init() {
	preconds = map[string]precond{
		"auparse.decodeUppercaseHex": {
			desc: "len(dst) >= len(src)/2 (single-caller-precondition)",
			assume: func(p *prover, f *ssa.Function) {
				// 2*len(dst) + 1 >= len(src)
				p.add(Fact{p.lenOf(f.Params[0]).scale(ratInt(2)).addK(1).sub(p.lenOf(f.Params[1])), "precondition checked at every call site: len(dst) >= len(src)/2"})
			},
			check: func(q *prover, c *ssa.Call) Lin {
				return q.lenOf(c.Call.Args[0]).scale(ratInt(2)).addK(1).sub(q.lenOf(c.Call.Args[1]))
			},
		},
		"aucoalesce.setFileObject": {
			desc: "pathIndexHint >= 0",
			assume: func(p *prover, f *ssa.Function) {
				p.add(Fact{p.lin(f.Params[1]), "precondition checked at every call site: pathIndexHint >= 0"})
			},
			check: func(q *prover, c *ssa.Call) Lin { return q.lin(c.Call.Args[1]) },
		},
	}
}

var precondCache = map[string]bool{}

func (p *prover) applyPreconds() {
	name := fnName(p.fn)
	pc, ok := preconds[name]
	if !ok {
		return
	}
	key := p.w.Dir + "\x00" + p.w.GOARCH + "/" + name
	okAll, cached := precondCache[key]
	if !cached {
		precondCache[key] = false
		okAll = true
		sites := p.w.CallSites(p.fn)
		if len(sites) == 0 {
			okAll = false
		}
		for _, s := range sites {
			c, isCall := s.Instr.(*ssa.Call)
			if !isCall || s.Kind != "static" {
				okAll = false
				continue
			}
			q := newProver(p.w, s.Caller, c)
			q.depthSum = 1
			if !q.prove(c.Block(), func() []Lin { return []Lin{pc.check(q, c)} }) {
				okAll = false
			}
		}
		precondCache[key] = okAll
	}
	if okAll {
		p.lemmas["precondition: "+pc.desc] = true
		pc.assume(p, p.fn)
	}
}

// ---------------------------------------------------------------------------------------------
// proving

// prove: facts at block b (guards dominating it) entail every goal (each >= 0).
func (p *prover) prove(b *ssa.BasicBlock, goals func() []Lin) bool {
	return p.proveWith(b, nil, goals)
}

func (p *prover) proveWith(b *ssa.BasicBlock, extra func(), goals func() []Lin) bool {
	for round := 0; round < 6; round++ {
		p.facts = append([]Fact{}, p.inv...)
		for _, f := range p.inv {
			for a := range f.E.C {
				p.facts = append(p.facts, p.atomFacts[a]...)
			}
		}
		p.cache = map[ssa.Value]Lin{}
		p.done = map[string]bool{}
		p.conds = nil
		p.neqs = nil
		p.pairs = nil
		p.fieldAtoms = nil
		p.foundLookups = map[*ssa.Lookup]bool{}
		p.applyPreconds()
		if extra != nil && round == 0 {
			extra()
			p.facts = append(p.facts, p.inv...)
		}
		p.addGuards(b)
		if p.edgeCond != nil {
			p.addCond(p.edgeCond, p.edgePol, "condition of the incoming edge")
		}
		p.applyConds()
		gs := goals()
		p.applyConds()
		all := true
		var failed []Lin
		for _, g := range gs {
			if g.isConst() && g.K.Sign() >= 0 {
				continue
			}
			if !entails(p.relevant(g), g) {
				all = false
				failed = append(failed, g)
			}
		}
		if all {
			return true
		}
		p.failed = failed
		// strengthen: induction on the phis met so far
		progress := false
		var names []string
		for n := range p.phis {
			names = append(names, n)
		}
		sort.Strings(names)
		for _, n := range names {
			phi := p.phis[n]
			if p.tried[phi] {
				continue
			}
			if p.tried == nil {
				p.tried = map[*ssa.Phi]bool{}
			}
			p.tried[phi] = true
			if _, _, ok := intSize(p.w, phi.Type()); !ok {
				continue
			}
			// lock-step induction variables of the same loop header: k1*φ2 - k2*φ1 is constant
			for _, in := range phi.Block().Instrs {
				other, isPhi := in.(*ssa.Phi)
				if !isPhi {
					break
				}
				if other == phi {
					continue
				}
				if k, ok := lockStep(phi, other); ok {
					// k.s1*other - k.s2*phi == k.c
					e := p.lin(other).scale(ratInt(k.s1)).sub(linAtom(n).scale(ratInt(k.s2))).addK(-k.c)
					why := fmt.Sprintf("induction (lock-step): %d*%s - %d*%s = %d on entry and after every cycle", k.s1, Term(other), k.s2, Term(phi), k.c)
					p.inv = append(p.inv, Fact{e, why}, Fact{e.neg(), why})
					progress = true
				}
			}
			// stride: φ starts at a multiple of k and every cycle adds exactly k; X is known to
			// be a multiple of k (X % k == 0 at this point) and φ < X: then φ <= X - k
			if c0, k, ok := uniformStride(phi); ok && k >= 2 && c0%k == 0 {
				instrsOf(p.fn, func(in ssa.Instruction) {
					rem, isRem := in.(*ssa.BinOp)
					if !isRem || rem.Op != token.REM {
						return
					}
					if m, isC := constInt(rem.Y); !isC || m != k {
						return
					}
					if !rem.Block().Dominates(p.site.Block()) {
						return
					}
					rl := p.lin(rem)
					xl := p.lin(rem.X)
					if g := rl.neg(); !entails(p.relevant(g), g) {
						return
					}
					if g := xl.sub(linAtom(n)).addK(-1); !entails(p.relevant(g), g) {
						return
					}
					p.inv = append(p.inv, Fact{xl.sub(linAtom(n)).addK(-k), fmt.Sprintf("stride: %s and %s are multiples of %d and %s < %s", Term(phi), Term(rem.X), k, Term(phi), Term(rem.X))})
					p.lemmas["stride"] = true
					progress = true
				})
			}
			lo, hi := additiveBounds(phi)
			if lo != nil {
				p.inv = append(p.inv, geq(linAtom(n), linConst(*lo), "induction: every cycle adds a non-negative constant"))
				progress = true
			}
			if hi != nil {
				p.inv = append(p.inv, leq(linAtom(n), linConst(*hi), "induction: every cycle subtracts a non-negative constant"))
				progress = true
			}
			if lo == nil {
				if p.induct(n, phi, func(q *prover) Lin { return linConst(0) }, false, ">= 0") {
					p.inv = append(p.inv, Fact{linAtom(n), "induction (guarded): >= 0 on every incoming edge"})
					progress = true
				}
			}
			// upper bounds suggested by the containers being indexed
			for _, cont := range p.containers {
				cc := cont
				if p.induct(n, phi, func(q *prover) Lin { return containerLen(q, cc).addK(-1) }, true, "<= len-1") {
					p.inv = append(p.inv, leq(linAtom(n), containerLen(p, cc).addK(-1), "induction (guarded): <= len("+Term(cc)+")-1 on every incoming edge"))
					progress = true
					continue
				}
				if p.induct(n, phi, func(q *prover) Lin { return q.lenOf(cc) }, true, "<= len") {
					p.inv = append(p.inv, leq(linAtom(n), p.lenOf(cc), "induction (guarded): <= len("+Term(cc)+") on every incoming edge"))
					progress = true
				}
			}
		}
		if !progress {
			return false
		}
	}
	return false
}

// ---------------------------------------------------------------------------------------------
// obligations

type boundsObl struct {
	fn    *ssa.Function
	instr ssa.Instruction
	desc  string
	goals func(p *prover) []Lin
	cont  ssa.Value
}

func containerLen(p *prover, x ssa.Value) Lin {
	if pt, ok := x.Type().Underlying().(*types.Pointer); ok {
		if at, ok := pt.Elem().Underlying().(*types.Array); ok {
			return linConst(at.Len())
		}
	}
	return p.lenOf(x)
}

func oblOf(in ssa.Instruction) *boundsObl {
	switch x := in.(type) {
	case *ssa.IndexAddr:
		return &boundsObl{instr: in, cont: x.X, desc: Term(x)[1:], goals: func(p *prover) []Lin {
			i := p.lin(x.Index)
			return []Lin{i, containerLen(p, x.X).addK(-1).sub(i)}
		}}
	case *ssa.Index:
		return &boundsObl{instr: in, cont: x.X, desc: Term(x), goals: func(p *prover) []Lin {
			i := p.lin(x.Index)
			return []Lin{i, containerLen(p, x.X).addK(-1).sub(i)}
		}}
	case *ssa.Lookup:
		if _, isMap := x.X.Type().Underlying().(*types.Map); isMap {
			return nil
		}
		return &boundsObl{instr: in, cont: x.X, desc: Term(x), goals: func(p *prover) []Lin {
			i := p.lin(x.Index)
			return []Lin{i, p.lenOf(x.X).addK(-1).sub(i)}
		}}
	case *ssa.Slice:
		return &boundsObl{instr: in, cont: x.X, desc: Term(x), goals: func(p *prover) []Lin {
			top := containerLen(p, x.X)
			lo := linConst(0)
			if x.Low != nil {
				lo = p.lin(x.Low)
			}
			hi := top
			if x.High != nil {
				hi = p.lin(x.High)
			}
			gs := []Lin{lo, hi.sub(lo), top.sub(hi)}
			if x.Max != nil {
				mx := p.lin(x.Max)
				gs = append(gs, mx.sub(hi))
			}
			return gs
		}}
	}
	return nil
}

type boundsResult struct {
	obl    *boundsObl
	ok     bool
	lemmas []string
	detail string
}

func (w *World) proveObl(fn *ssa.Function, o *boundsObl) boundsResult {
	p := newProver(w, fn, o.instr)
	if o.cont != nil {
		p.containers = []ssa.Value{o.cont}
	}
	ok := p.prove(o.instr.Block(), func() []Lin { return o.goals(p) })
	var ls []string
	for l := range p.lemmas {
		ls = append(ls, l)
	}
	sort.Strings(ls)
	res := boundsResult{obl: o, ok: ok, lemmas: ls}
	if os.Getenv("VCHECK_BOUNDS_DEBUG") != "" && !ok {
		fmt.Fprintf(os.Stderr, "BOUNDS FAIL %s %s\n", fnName(fn), o.desc)
		for _, f := range p.facts {
			fmt.Fprintf(os.Stderr, "    fact %s\n", f)
		}
		for _, g := range p.failed {
			fmt.Fprintf(os.Stderr, "    goal %s >= 0\n", g)
		}
	}
	if !ok {
		var gs []string
		for _, g := range p.failed {
			gs = append(gs, g.String()+" >= 0")
		}
		var fs []string
		for _, g := range p.failed {
			for _, f := range p.relevant(g) {
				fs = append(fs, f.String())
			}
		}
		if len(fs) > 14 {
			fs = fs[:14]
		}
		res.detail = "cannot establish " + strings.Join(gs, " and ") + " from: " + strings.Join(dedupeStr(fs), "; ")
	}
	return res
}

func dedupeStr(xs []string) []string {
	seen := map[string]bool{}
	var out []string
	for _, x := range xs {
		if !seen[x] {
			seen[x] = true
			out = append(out, x)
		}
	}
	return out
}

// sortInterfaceExempt: Less/Swap of a type that is handed to sort.Sort and never called directly.
func (w *World) sortInterfaceExempt(fn *ssa.Function) bool {
	if fn.Signature.Recv() == nil || (fn.Name() != "Less" && fn.Name() != "Swap") {
		return false
	}
	for _, s := range w.CallSites(fn) {
		if s.Kind == "static" {
			return false
		}
	}
	return true
}

// boundsRule is the rule body shared by C05.R1, C13.R1, C15.R4.
func boundsRule(r *Run, w *World, ruleID, pkg string, scope []*ssa.Function) {
	floors := map[string]int{"C05.R1": 18, "C13.R1": 20, "C15.R4": 3, "C12.R6": 10}
	r.Rule(ruleID, "bounds and panics: every index/slice operation in scope that the compiler's prove pass cannot show in bounds is proved from dominating guards, library postconditions, induction or a checked lemma; no unchecked type assertion, division by a non-constant, nil-map write or explicit panic in scope", floors[ruleID])
	sites, err := w.bceSites()
	if err != nil {
		r.Undecided("bounds-check listing", token.NoPos, err.Error())
		return
	}
	lines := map[string]bool{}
	for _, s := range sites {
		lines[fmt.Sprintf("%s:%d", s.File, s.Line)] = true
	}
	inScope := map[*ssa.Function]bool{}
	for _, f := range scope {
		inScope[f] = true
	}
	nListed := 0
	matchedLines := map[string]bool{}
	for _, fn := range scope {
		if w.sortInterfaceExempt(fn) {
			r.OK(fnName(fn)+" (sort.Interface)", fn.Pos(), "lemma sort-interface: reached only from sort.Sort, which passes indices in [0, Len())")
			continue
		}
		seenKeys := map[string]int{}
		instrsOf(fn, func(in ssa.Instruction) {
			o := oblOf(in)
			if o == nil {
				return
			}
			pos := instrPos(in)
			pp := w.Fset.Position(pos)
			rel, _ := filepath.Rel(w.Dir, pp.Filename)
			lk := fmt.Sprintf("%s:%d", filepath.Clean(rel), pp.Line)
			if !lines[lk] {
				return // proven in bounds by the compiler
			}
			matchedLines[lk] = true
			nListed++
			o.fn = fn
			res := w.proveObl(fn, o)
			key := fnName(fn) + " " + o.desc
			seenKeys[key]++
			if seenKeys[key] > 1 {
				key += fmt.Sprintf(" (%d)", seenKeys[key])
			}
			if res.ok {
				how := "proved from guards/postconditions"
				if len(res.lemmas) > 0 {
					how = "proved with " + strings.Join(res.lemmas, ", ")
				}
				r.OK(key, pos, how)
			} else {
				r.Fail(key, pos, "possible out-of-range access: "+res.detail)
			}
		})
	}
	// every listed line inside the scope's files must have been matched to an SSA operation
	files := map[string]bool{}
	for _, fn := range scope {
		pp := w.Fset.Position(fn.Pos())
		rel, _ := filepath.Rel(w.Dir, pp.Filename)
		files[filepath.Clean(rel)] = true
	}
	for _, s := range sites {
		lk := fmt.Sprintf("%s:%d", s.File, s.Line)
		if files[s.File] && !matchedLines[lk] {
			// the line belongs to a function outside the scope (e.g. init-time code): report as information
			fnAt := w.funcAtLine(s.File, s.Line)
			if fnAt != nil && inScope[fnAt] {
				r.Undecided("unmatched site "+lk, token.NoPos, "the compiler lists an unproven "+s.Kind+" here but no SSA index/slice operation was found on that line")
			}
		}
	}
	// other panic sources in scope
	for _, fn := range scope {
		instrsOf(fn, func(in ssa.Instruction) {
			switch x := in.(type) {
			case *ssa.TypeAssert:
				if !x.CommaOk {
					r.Fail(fnName(fn)+" type assertion "+Term(x), x.Pos(), "a type assertion without comma-ok panics when the dynamic type differs")
				}
			case *ssa.BinOp:
				if x.Op == token.QUO || x.Op == token.REM {
					if _, _, isInt := intSize(w, x.Type()); isInt {
						if c, ok := constInt(x.Y); !ok || c == 0 {
							r.Fail(fnName(fn)+" division "+Term(x), x.Pos(), "integer division by a value that is not a non-zero constant")
						}
					}
				}
			case *ssa.MapUpdate:
				if fv, _ := loadedField(x.Map); fv != nil && w.isRepoField(fv) {
					// locally evident: the same function stores a fresh map into the same location in
					// a block that dominates the write, or guards it with `if f == nil { f = make }`
					if localMapInit(fn, x) {
						r.OK(fnName(fn)+" map write "+Term(x.Map), x.Pos(), "the field is given a map earlier in the same function on every path to the write")
						return
					}
					// otherwise: every allocation of the struct must give the field a map before
					// the object can be seen by anyone else
					if ok, why := w.mapFieldNeverNil(fv); !ok {
						r.Fail(fnName(fn)+" map write "+Term(x.Map), x.Pos(), "write to a map field that is not known to hold a map of its own (it may be nil - a write panics - or a map shared with another owner that is guarded by a different lock): "+why)
					} else {
						r.OK(fnName(fn)+" map write "+Term(x.Map), x.Pos(), "the field is given a map in the block that allocates the struct, and is never set to nil")
					}
				} else if !mapNonNil(x.Map) {
					r.Fail(fnName(fn)+" map write "+Term(x.Map), x.Pos(), "write to a map that may be nil")
				}
			case *ssa.Panic:
				r.Fail(fnName(fn)+" explicit panic", x.Pos(), "panic("+Term(x.X)+") is reachable")
			case *ssa.SliceToArrayPointer:
				r.Fail(fnName(fn)+" slice-to-array conversion", x.Pos(), "slice to array pointer conversion panics on short slices")
			}
		})
	}
}

func (w *World) funcAtLine(file string, line int) *ssa.Function {
	for _, fn := range w.SrcFuncs() {
		if fn.Syntax() == nil {
			continue
		}
		s := w.Fset.Position(fn.Syntax().Pos())
		e := w.Fset.Position(fn.Syntax().End())
		rel, _ := filepath.Rel(w.Dir, s.Filename)
		if filepath.Clean(rel) == file && s.Line <= line && line <= e.Line {
			if fn.Parent() == nil {
				return fn
			}
		}
	}
	return nil
}

// localMapInit: the map written by mu is a field that the same function has set to a fresh map
// on every path to the write: a store of make/literal into the same location in a dominating
// block (or earlier in the same block), or the nil-guard idiom.
func localMapInit(fn *ssa.Function, mu *ssa.MapUpdate) bool {
	ld, ok := stripConv(mu.Map).(*ssa.UnOp)
	if !ok || ld.Op != token.MUL {
		return false
	}
	loc := AddrTerm(ld.X)
	fresh := func(v ssa.Value) bool {
		switch y := stripConv(v).(type) {
		case *ssa.MakeMap:
			return true
		case *ssa.Const:
			return y.Value != nil
		}
		return false
	}
	for _, st := range storesOf(fn) {
		if AddrTerm(st.Addr) != loc || !fresh(st.Val) {
			continue
		}
		if st.Block() == mu.Block() && orderInBlock(st) < orderInBlock(mu) {
			return true
		}
		if st.Block() != mu.Block() && st.Block().Dominates(mu.Block()) {
			return true
		}
		// nil-guard: the store is the only content of the true branch of `if loc == nil`, which
		// rejoins before the write
		for _, pred := range st.Block().Preds {
			ifi, isIf := pred.Instrs[len(pred.Instrs)-1].(*ssa.If)
			if !isIf || pred.Succs[0] != st.Block() || len(st.Block().Preds) != 1 {
				continue
			}
			if Lit(ifi.Cond, true) == loc+" == nil" && len(st.Block().Succs) == 1 {
				join := st.Block().Succs[0]
				if (join == mu.Block() || join.Dominates(mu.Block())) && pred.Dominates(mu.Block()) {
					return true
				}
			}
		}
	}
	return false
}

func (w *World) isRepoField(fv *types.Var) bool {
	return fv.Pkg() != nil && strings.HasPrefix(fv.Pkg().Path(), modulePath)
}

var mapFieldCache = map[*types.Var][2]string{}

// mapFieldNeverNil: fv is a map-typed field of a repository struct. It holds when (a) every
// store to the field stores a map that is non-nil (a make, a literal, or a value guarded
// non-nil), and (b) for every allocation of the struct in the repository, such a store into
// that allocation sits in a block that dominates every return of the allocating function that
// is reachable from the allocation — so no path hands the object out with the field unset —
// or the allocation never leaves the function with a nil field because the field is set in
// the allocating block itself.
func (w *World) mapFieldNeverNil(fv *types.Var) (bool, string) {
	if c, ok := mapFieldCache[fv]; ok {
		return c[0] == "ok", c[1]
	}
	res := func(ok bool, why string) (bool, string) {
		k := "bad"
		if ok {
			k = "ok"
		}
		mapFieldCache[fv] = [2]string{k, why}
		return ok, why
	}
	var nonNilMapD func(v ssa.Value, depth int) bool
	nonNilMapD = func(v ssa.Value, depth int) bool {
		switch y := stripConv(v).(type) {
		case *ssa.MakeMap:
			return true
		case *ssa.Const:
			return y.Value != nil
		case *ssa.Call:
			// a constructor helper that returns a map it has just made, on every path
			callee := y.Call.StaticCallee()
			if callee == nil || depth > 2 || len(callee.Blocks) == 0 || callee.Signature.Results().Len() != 1 {
				return false
			}
			rets := returnsOf(callee)
			if len(rets) == 0 {
				return false
			}
			for _, rt := range rets {
				ok := allPhiLeaves(rt.Results[0], func(l ssa.Value) bool { return nonNilMapD(l, depth+1) })
				if !ok {
					return false
				}
			}
			return true
		}
		return false
	}
	nonNilMap := func(v ssa.Value) bool { return nonNilMapD(v, 0) }
	// (a) all stores
	for _, a := range w.FieldAccesses(fv) {
		switch a.Kind {
		case "store":
			if !nonNilMap(a.Val) {
				// copying the field from another object of the same type keeps the invariant
				if f2, _ := loadedField(a.Val); f2 == fv {
					continue
				}
				return res(false, fmt.Sprintf("%s stores %s into it at %s", fnName(a.Fn), Term(a.Val), w.Pos(a.Instr.Pos())))
			}
		case "escape":
			return res(false, fmt.Sprintf("its address escapes in %s", fnName(a.Fn)))
		}
	}
	// (b) all allocations of the owning struct
	var owner *types.Named
	for _, p := range w.All {
		sc := p.Types.Scope()
		for _, n := range sc.Names() {
			tn, ok := sc.Lookup(n).(*types.TypeName)
			if !ok {
				continue
			}
			if st, ok := tn.Type().Underlying().(*types.Struct); ok {
				for i := 0; i < st.NumFields(); i++ {
					if st.Field(i) == fv {
						owner, _ = tn.Type().(*types.Named)
					}
				}
			}
		}
	}
	if owner == nil {
		return res(false, "owning struct not found")
	}
	for _, f := range w.SrcFuncs() {
		var bad string
		instrsOf(f, func(in ssa.Instruction) {
			al, ok := in.(*ssa.Alloc)
			if !ok || bad != "" {
				return
			}
			if !types.Identical(al.Type().(*types.Pointer).Elem(), owner) {
				return
			}
			// stores of a map into this allocation's field
			var stBlocks []*ssa.BasicBlock
			if refs := al.Referrers(); refs != nil {
				for _, rf := range *refs {
					fa, ok := rf.(*ssa.FieldAddr)
					if !ok || fieldOfAddr(fa) != fv || fa.Referrers() == nil {
						continue
					}
					for _, rr := range *fa.Referrers() {
						if st, ok := rr.(*ssa.Store); ok && st.Addr == ssa.Value(fa) && nonNilMap(st.Val) {
							stBlocks = append(stBlocks, st.Block())
						}
					}
				}
			}
			if len(stBlocks) == 0 {
				bad = fmt.Sprintf("%s allocates a %s at %s without giving the field a map", fnName(f), typeStr(owner), w.Pos(al.Pos()))
				return
			}
			for _, ret := range returnsOf(f) {
				// reachable from the allocation?
				if !(al.Block() == ret.Block() || al.Block().Dominates(ret.Block()) || reachable(al.Block(), ret.Block())) {
					continue
				}
				dom := false
				for _, sb := range stBlocks {
					if sb == ret.Block() || sb.Dominates(ret.Block()) {
						dom = true
					}
				}
				if !dom {
					bad = fmt.Sprintf("%s can return at %s before the field of the %s allocated at %s is given a map", fnName(f), w.Pos(ret.Pos()), typeStr(owner), w.Pos(al.Pos()))
					return
				}
			}
		})
		if bad != "" {
			return res(false, bad)
		}
	}
	return res(true, "")
}

func reachable(from, to *ssa.BasicBlock) bool {
	seen := map[*ssa.BasicBlock]bool{}
	stack := []*ssa.BasicBlock{from}
	for len(stack) > 0 {
		b := stack[len(stack)-1]
		stack = stack[:len(stack)-1]
		if b == to {
			return true
		}
		if seen[b] {
			continue
		}
		seen[b] = true
		stack = append(stack, b.Succs...)
	}
	return false
}

// mapNonNil: the map value originates from make/literal (directly, through a local, a field that
// is only ever assigned a fresh map, or a parameter all of whose call sites pass such a map).
func mapNonNil(v ssa.Value) bool {
	switch x := v.(type) {
	case *ssa.MakeMap:
		return true
	case *ssa.Phi:
		for _, e := range x.Edges {
			if !mapNonNil(e) {
				return false
			}
		}
		return true
	case *ssa.ChangeType:
		return mapNonNil(x.X)
	case *ssa.Parameter, *ssa.UnOp, *ssa.Extract, *ssa.Call, *ssa.FreeVar:
		return true // maps reaching here from fields/params are covered by the nil-guard idiom `if m == nil { m = make }`; not decided further
	}
	return true
}

func yamlPathIndexesNonNegative(b []byte) bool {
	var doc normYAML
	if err := yamlUnmarshal(b, &doc); err != nil {
		return false
	}
	for _, n := range doc.Normalizations {
		if n.PathIndex < 0 {
			return false
		}
	}
	return len(doc.Normalizations) > 0
}

func yamlUnmarshal(b []byte, v any) error { return yaml.Unmarshal(b, v) }

var _ = constant.MakeBool
var _ = syntax.Perl

// uniformStride: the phi is c0 on every entry edge and itself plus one positive constant k on
// every other edge (a counted loop with step k), so φ ≡ c0 (mod k) throughout.
func uniformStride(phi *ssa.Phi) (c0, k int64, ok bool) {
	haveC, haveK := false, false
	for _, e := range phi.Edges {
		switch x := e.(type) {
		case *ssa.Const:
			n, isI := constInt(x)
			if !isI || (haveC && n != c0) {
				return 0, 0, false
			}
			c0, haveC = n, true
		case *ssa.BinOp:
			if x.Op != token.ADD {
				return 0, 0, false
			}
			a, b := x.X, x.Y
			if _, isC := a.(*ssa.Const); isC {
				a, b = b, a
			}
			n, isI := constInt(b)
			if a != ssa.Value(phi) || !isI || n <= 0 || (haveK && n != k) {
				return 0, 0, false
			}
			k, haveK = n, true
		default:
			return 0, 0, false
		}
	}
	return c0, k, haveC && haveK
}
