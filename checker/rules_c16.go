package main

// C16 — audit_status encoding and exported numbers (R3-R5; R1/R2 are in rules_tables.go).

import (
	"fmt"
	"go/token"
	"strings"

	"golang.org/x/tools/go/ssa"
)

func init() {
	props["C16"] = propC16
	propMeta["C16"] = PropMeta{
		Technique:   "static analysis: constant/layout evaluation against the frozen UAPI header per GOARCH, SSA path conditions for setters and decode",
		Explanation: "Exact: every exported number (GET/SET and rule message types, failure modes, status-mask bits, feature bits, shared record types) is compared with the kernel's UAPI header, and AuditStatus's field order/offsets/size and both unsafe byte views with struct audit_status, per analysed GOARCH. Structural: each Set* fills a fresh AuditStatus with exactly the mask bit paired with the one field it sets, whose value derives from the parameter (or the documented constant), and hands it to set() with the caller's mode; set() sends AUDIT_SET with REQUEST|ACK and the status's wire form, GetStatusAsync sends AUDIT_GET with ACK iff asked; FromWireFormat rejects buffers shorter than the 2.6.32 size with io.ErrUnexpectedEOF, zeroes the struct when the buffer is shorter than the struct and moves bytes only with copy into the struct-sized view.",
		NotDecided:  "Nothing material; the wire bytes follow from layout + memory image on the analysed GOARCHs (native byte order is what the kernel expects).",
		Assumptions: []string{"this sandbox's /usr/include/linux/audit.h (frozen copy under /verif/ref) is the kernel ABI"},
	}
}

// setterSpec: which field a setter fills and what the value must be (term over its parameters).
var setterSpecs = map[string]struct{ field, value string }{
	"SetPID":             {"PID", "uint32(os.Getpid())"},
	"SetRateLimit":       {"RateLimit", "p1"},
	"SetBacklogLimit":    {"BacklogLimit", "p1"},
	"SetEnabled":         {"Enabled", "φ{0 | 1}"},
	"SetImmutable":       {"Enabled", "2"},
	"SetFailure":         {"Failure", "p1"}, // FailureMode has underlying type uint32: the conversion is a no-op
	"SetBacklogWaitTime": {"BacklogWaitTime", "uint32(p1)"},
}

func propC16(r *Run, w *World) {
	c16Numbers(r, w)
	c16Layout(r, w)
	x := loadClient(r, w)
	if !x.ok {
		return
	}
	// R3 setters
	r.Rule("C16.R3", "setters: each Set* stores into a fresh AuditStatus exactly two fields - Mask = the status-mask constant paired with the field it sets, and that field's value derived from the parameter (or the documented constant) - then calls set() with it", 7)
	maskOf := map[string]uint64{}
	for n := range statusMaskDefines {
		if v, _, err := w.constUint("libaudit", n); err == nil {
			maskOf[strings.TrimPrefix(n, "AuditStatus")] = v
		} else {
			r.Anchor(err)
		}
	}
	seen := map[string]bool{}
	for _, s := range w.CallSites(x.set) {
		fn := s.Caller
		if fn.Parent() != nil {
			continue // Close's PID clear: C17.R3
		}
		name := fn.Name()
		spec, ok := setterSpecs[name]
		if !ok {
			r.Undecided("setter "+name, fn.Pos(), "a caller of set() that is not in the reviewed setter table; add its field/value pairing after reading it")
			continue
		}
		seen[name] = true
		// one request per call: every path of the setter reaches set() exactly once (an early
		// return - a "validation" of the argument, a cached value - sends nothing)
		if ps, complete := Paths(fn, PathOpts{Cap: 2000}); complete {
			okOnce := true
			why := ""
			for _, p := range ps {
				if p.Ret() == nil {
					continue
				}
				if n := len(p.Calls(x.set)); n != 1 {
					okOnce = false
					why = fmt.Sprintf("a path calls set() %d times: %s", n, compactPath(p))
				}
			}
			r.Check(okOnce, "setter "+name+" sends once on every path", fn.Pos(), "", name+" does not send exactly one AUDIT_SET on every path: "+why)
		} else {
			r.Undecided("setter "+name+" paths", fn.Pos(), "path cap exceeded")
		}
		sc := s.Instr.(ssa.CallInstruction).Common()
		stAddr := ""
		if ld, isLd := sc.Args[1].(*ssa.UnOp); isLd {
			stAddr = AddrTerm(ld.X)
		}
		stores := map[string]string{}
		var storeInstr = map[string]*ssa.Store{}
		for _, st := range storesOf(fn) {
			t := AddrTerm(st.Addr)
			if strings.HasPrefix(t, stAddr+".") {
				f := strings.TrimPrefix(t, stAddr+".")
				if _, dup := stores[f]; dup {
					stores[f] = "<stored twice>"
				} else {
					stores[f] = Term(st.Val)
					storeInstr[f] = st
				}
			}
		}
		wantMask := fmt.Sprint(maskOf[spec.field])
		ok = len(stores) == 2 && stores["Mask"] == wantMask && stores[spec.field] == spec.value
		detail := fmt.Sprintf("%s builds AuditStatus%v; want {Mask: %s (AuditStatus%s), %s: %s}", name, stores, wantMask, spec.field, spec.field, spec.value)
		if !ok && name == "SetEnabled" && len(stores) == 2 && stores["Mask"] == wantMask && stores["Enabled"] == "1" {
			// the same value written as a conditional store into a zeroed status:
			// `if enabled { s.Enabled = 1 }`
			st := storeInstr["Enabled"]
			if HoldsAt(st.Block(), "p1") {
				r.OK("setter "+name, fn.Pos(), "{Mask: AuditStatusEnabled, Enabled: 1 exactly when enabled} (conditional store into a zeroed status)")
				continue
			}
		}
		if ok && name == "SetEnabled" {
			// φ{0|1}: 1 exactly on the edge where the parameter is true
			phi, isPhi := storeInstr["Enabled"].Val.(*ssa.Phi)
			ok = isPhi
			if isPhi {
				for i, e := range phi.Edges {
					pred := phi.Block().Preds[i]
					onTrue := containsStr(GuardLits(pred), "p1") || (pred == phi.Block().Preds[i] && len(GuardLits(pred)) > 0 && GuardLits(pred)[0] == "p1")
					if isConstInt(e, 1) != onTrue {
						ok = false
						detail = "SetEnabled does not send 1 exactly when enabled is true"
					}
				}
			}
		}
		r.Check(ok, "setter "+name, fn.Pos(), fmt.Sprintf("{Mask: AuditStatus%s, %s: %s}", spec.field, spec.field, spec.value), detail)
	}
	for n := range setterSpecs {
		if !seen[n] {
			r.Fail("setter "+n, x.set.Pos(), n+" no longer calls set()")
		}
	}

	// R4 envelope
	r.Rule("C16.R4", "envelope: set() sends type AuditSet with NLM_F_REQUEST|NLM_F_ACK and data status.toWireFormat(); GetStatusAsync sends AuditGet with REQUEST, plus ACK iff asked, and no payload", 2)
	auditSet, _, _ := w.constUint("libaudit", "AuditSet")
	auditGet, _, _ := w.constUint("libaudit", "AuditGet")
	reqAck := fmt.Sprintf("(%s | %s)", x.sysc["NLM_F_REQUEST"], x.sysc["NLM_F_ACK"])
	var reqAckVal uint64
	fmt.Sscan(x.sysc["NLM_F_REQUEST"], &reqAckVal)
	var ackVal uint64
	fmt.Sscan(x.sysc["NLM_F_ACK"], &ackVal)
	envelope := func(fn *ssa.Function) (map[string]string, string) {
		var send ssa.CallInstruction
		for _, c := range callsNamedIn(fn, "invoke:libaudit.NetlinkSendReceiver.Send") {
			send = c
		}
		if send == nil {
			return nil, ""
		}
		loc := ""
		if ld, ok := send.Common().Args[0].(*ssa.UnOp); ok {
			loc = AddrTerm(ld.X)
		}
		m := structFields(fn, loc, nil, 0)
		return m, loc
	}
	{
		m, _ := envelope(x.set)
		ok := m != nil && m["Header.Type"] == fmt.Sprint(auditSet) && m["Header.Flags"] == fmt.Sprint(reqAckVal|ackVal) &&
			m["Data"] == fnName(x.toWire)+"(p1)" && len(m) == 3
		r.Check(ok, "set envelope", x.set.Pos(), "AUDIT_SET, REQUEST|ACK, status.toWireFormat()", fmt.Sprintf("set() sends %v", m))
	}
	{
		m, _ := envelope(x.getStatusAsync)
		flagsOK := false
		if m != nil {
			flagsOK = m["Header.Flags"] == "φ{"+x.sysc["NLM_F_REQUEST"]+" | "+reqAck+"}"
		}
		ok := m != nil && m["Header.Type"] == fmt.Sprint(auditGet) && flagsOK && m["Data"] == "nil" && len(m) == 3
		if ok {
			// ACK exactly on the requireACK edge
			for _, st := range storesOf(x.getStatusAsync) {
				if phi, isPhi := st.Val.(*ssa.Phi); isPhi && strings.HasSuffix(AddrTerm(st.Addr), ".Header.Flags") {
					for i, e := range phi.Edges {
						pred := phi.Block().Preds[i]
						onTrue := containsStr(GuardLits(pred), "p1")
						_, isConst := e.(*ssa.Const)
						if isConst == onTrue {
							ok = false
						}
					}
				}
			}
		}
		r.Check(ok, "GetStatusAsync envelope", x.getStatusAsync.Pos(), "AUDIT_GET, REQUEST (+ACK iff requireACK), no data", fmt.Sprintf("GetStatusAsync sends %v", m))
	}

	// set() itself: nothing returns before the request has been handed to Send (waiting for, or
	// reporting, something else first would make a setter send nothing)
	{
		ps, complete := Paths(x.set, PathOpts{Cap: 4000})
		if !complete {
			r.Undecided("set paths", x.set.Pos(), "path cap exceeded")
		}
		okSend := true
		why := ""
		nP := 0
		for _, p := range ps {
			if p.Ret() == nil {
				continue
			}
			nP++
			if n := len(p.CallsNamed("invoke:libaudit.NetlinkSendReceiver.Send")); n != 1 {
				okSend = false
				why = fmt.Sprintf("%d sends on: %s", n, compactPath(p))
			}
		}
		r.Check(okSend && nP > 0, "set() sends exactly once on every path", x.set.Pos(), "", "set() can return without having sent its request, or send it more than once: "+why)
	}

	// R6: the reply GetStatus decodes is the one that follows a verified acknowledgement
	x.ackVerified("C16.R6", x.getStatus)

	statusDecode(r, w, x, "C16.R5")
}

// statusDecode: the decoding of a status reply (C16.R5; "data-returning calls return exactly what
// the kernel sent" rests on it as well: C08.R9).
func statusDecode(r *Run, w *World, x *client, ruleID string) {
	// R5 decode
	r.Rule(ruleID, "decode: FromWireFormat returns io.ErrUnexpectedEOF under len(buf) < MinSizeofAuditStatus, zeroes *s under len(buf) < sizeofAuditStatus, and moves bytes only with copy into the struct-sized view; toWireFormat returns the view of a private copy", 4)
	minSz, _, _ := w.constUint("libaudit", "MinSizeofAuditStatus")
	fullSz, _, _ := w.constUint("libaudit", "sizeofAuditStatus")
	{
		fn := x.fromWire
		short := fmt.Sprintf("len(p1) < %d", minSz)
		partial := fmt.Sprintf("len(p1) < %d", fullSz)
		view := fmt.Sprintf("*[%d]byte(unsafe.Pointer(p0))[:]", fullSz)
		ps, _ := Paths(fn, PathOpts{})
		for i, p := range ps {
			ret := p.Ret()
			key := fmt.Sprintf("FromWireFormat path#%d [%s]", i, strings.Join(p.Lits(), " ∧ "))
			copies := p.CallsNamed("copy")
			zeroed := false
			for _, e := range p.Events {
				if e.Kind == EvStore && e.Text == "p0 = zero(libaudit.AuditStatus)" {
					zeroed = true
				}
			}
			switch {
			case p.HasLit(short):
				r.Check(Term(ret.Results[0]) == "io.ErrUnexpectedEOF" && len(copies) == 0 && !zeroed, key, ret.Pos(), "too short → io.ErrUnexpectedEOF, *s untouched", "a buffer shorter than MinSizeofAuditStatus is not rejected with io.ErrUnexpectedEOF before anything is written")
			case p.HasLit(NegLit(short)):
				ok := len(copies) == 1 && isNilConst(ret.Results[0])
				if ok {
					cc := copies[0].Instr.(*ssa.Call)
					ok = Term(cc.Call.Args[0]) == view && isParamValue(cc.Call.Args[1], fn.Params[1])
				}
				if p.HasLit(partial) {
					ok = ok && zeroed
				} else if p.HasLit(NegLit(partial)) {
					// full-size buffer: zeroing not needed
				} else {
					ok = false
				}
				// the zeroing must precede the copy
				r.Check(ok, key, ret.Pos(), "copy(view, buf) (after zeroing when the buffer is short of the struct)", "FromWireFormat does not zero-then-copy into the struct-sized view: "+compactPath(p)+" / "+p.String())
			default:
				r.Fail(key, fn.Pos(), "path not decided by the minimum-size test")
			}
		}
		// no indexing of buf at all (only copy touches it)
		instrsOf(fn, func(in ssa.Instruction) {
			switch v := in.(type) {
			case *ssa.IndexAddr:
				if isParamValue(v.X, fn.Params[1]) {
					r.Fail("FromWireFormat indexes buf", v.Pos(), "the buffer is indexed directly; only copy may read it")
				}
			case *ssa.Slice:
				if isParamValue(v.X, fn.Params[1]) {
					r.Fail("FromWireFormat slices buf", v.Pos(), "the buffer is resliced; only copy may read it")
				}
			}
		})
	}
	{
		fn := x.toWire
		rets := returnsOf(fn)
		ok := len(rets) == 1 && len(fn.Blocks) == 1
		if ok {
			t := Term(rets[0].Results[0])
			ok = strings.HasPrefix(t, fmt.Sprintf("*[%d]byte(unsafe.Pointer(&local.", fullSz)) && strings.HasSuffix(t, "))[:]")
			// the local is the receiver copy
			sts := storesOf(fn)
			ok = ok && len(sts) == 1 && isParamValue(sts[0].Val, fn.Params[0])
		}
		r.Check(ok, "toWireFormat", fn.Pos(), "full-size byte view of a copy of the status", "toWireFormat does not return the full-size byte view of its (copied) receiver")
	}
}

// structFields reconstructs what a local struct holds from the stores of its function, in
// program order: a store to a field sets it (and forgets what was stored to its parts), a
// store of another local struct copies that struct's fields as they were at that point, a
// zero value clears. Keys are field paths relative to loc ("Header.Type"); values are terms.
// Whether the struct was built by a literal, by field assignments, or in a helper's result
// variable that was then copied makes no difference.
func structFields(fn *ssa.Function, loc string, before *ssa.Store, depth int) map[string]string {
	m := map[string]string{}
	if depth > 4 || loc == "" {
		return m
	}
	set := func(k, v string) {
		for old := range m {
			if k == "" || strings.HasPrefix(old, k+".") {
				delete(m, old)
			}
		}
		if k != "" {
			m[k] = v
		}
	}
	for _, st := range storesOf(fn) {
		if before != nil && st == before {
			break
		}
		t := AddrTerm(st.Addr)
		var k string
		switch {
		case t == loc:
			k = ""
		case strings.HasPrefix(t, loc+"."):
			k = strings.TrimPrefix(t, loc+".")
		default:
			continue
		}
		// copying another local struct (or a field of one)?
		if ld, ok := stripConv(st.Val).(*ssa.UnOp); ok && ld.Op == token.MUL {
			src := AddrTerm(ld.X)
			if strings.HasPrefix(src, "local.") || strings.HasPrefix(src, "new(") {
				sub := structFields(fn, src, st, depth+1)
				if len(sub) > 0 {
					set(k, "")
					for sk, sv := range sub {
						if k == "" {
							m[sk] = sv
						} else {
							m[k+"."+sk] = sv
						}
					}
					if k != "" {
						delete(m, k)
					}
					continue
				}
			}
		}
		v := Term(st.Val)
		if strings.HasPrefix(v, "zero(") {
			set(k, "")
			if k != "" {
				delete(m, k)
			}
			continue
		}
		if k == "" {
			set("", "")
			m[""] = v
			continue
		}
		set(k, v)
	}
	return m
}
