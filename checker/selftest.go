package main

func selftestMain(args []string) int { return 0 }

func fixturesMain() int { return 0 }
