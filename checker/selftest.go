package main

// vcheck fixtures — the checker tested both ways on tiny examples (run by setup_cmd):
// every analysis must fire on its negative example and be silent on its positive one.

import (
	"fmt"
	"os"
	"path/filepath"
	"strings"

	"golang.org/x/tools/go/ssa"
)

func fixturesDir() string {
	exe, err := os.Executable()
	if err == nil {
		d := filepath.Join(filepath.Dir(filepath.Dir(exe)), "checker", "testdata", "fix")
		if _, err := os.Stat(d); err == nil {
			return d
		}
	}
	return filepath.Join(verifDir(), "checker", "testdata", "fix")
}

func fixturesMain() int {
	w, err := LoadMod(fixturesDir(), "amd64", "fix", 1)
	if err != nil {
		fmt.Fprintln(os.Stderr, "fixtures: cannot load:", err)
		return 2
	}
	sp := w.All[0]
	pkg := w.Prog.Package(sp.Types)
	fn := func(name string) *ssa.Function {
		f := pkg.Func(name)
		if f == nil {
			panic("fixture function missing: " + name)
		}
		return f
	}
	method := func(typ, name string) *ssa.Function {
		for _, f := range w.SrcFuncs() {
			if f.Name() == name && f.Signature.Recv() != nil && strings.Contains(f.Signature.Recv().Type().String(), typ) {
				return f
			}
		}
		panic("fixture method missing: " + typ + "." + name)
	}
	failed := 0
	n := 0
	expect := func(what string, got, want bool) {
		n++
		if got != want {
			failed++
			fmt.Printf("FIXTURE FAIL %s: got %v want %v\n", what, got, want)
		}
	}
	// A3
	idxBlock := func(f *ssa.Function) *ssa.BasicBlock {
		var b *ssa.BasicBlock
		instrsOf(f, func(in ssa.Instruction) {
			switch in.(type) {
			case *ssa.IndexAddr, *ssa.Slice, *ssa.Lookup:
				b = in.Block()
			}
		})
		return b
	}
	expect("A3 GuardGood i < len", HoldsAt(idxBlock(fn("GuardGood")), "p1 < len(p0)"), true)
	expect("A3 GuardGood i >= 0", HoldsAt(idxBlock(fn("GuardGood")), "p1 >= 0"), true)
	expect("A3 GuardBad i < len", HoldsAt(idxBlock(fn("GuardBad")), "p1 < len(p0)"), false)
	{
		gl := GuardLits(idxBlock(fn("GuardAndGood")))
		expect("A3 bool-phi expansion a <= b", containsStr(gl, "p1 <= p2"), true)
		expect("A3 bool-phi expansion b <= len", containsStr(gl, "p2 <= len(p0)"), true)
	}
	// A4
	once := func(f *ssa.Function) bool {
		add := method("counter", "add")
		ps, _ := Paths(f, PathOpts{})
		for _, p := range ps {
			if len(p.Calls(add)) != 1 {
				return false
			}
		}
		return len(ps) > 0
	}
	expect("A4 exactly-once PathOnceGood", once(fn("PathOnceGood")), true)
	expect("A4 exactly-once PathOnceBad", once(fn("PathOnceBad")), false)
	{
		ps, _ := Paths(fn("SwitchFeasible"), PathOpts{})
		// pruning: no path may take case 1/2 and then k == 3
		bad := false
		for _, p := range ps {
			if (p.HasLit("p0 == 1") || p.HasLit("p0 == 2")) && p.HasLit("p0 == 3") {
				bad = true
			}
		}
		expect("A4 constant pruning", bad, false)
		expect("A4 path count", len(ps) >= 3 && len(ps) <= 5, true)
	}
	// A5
	{
		fv, err := func() (v interface{}, e error) { return nil, nil }()
		_ = fv
		_ = err
		items, _ := w.fieldByName("box", "items")
		var kinds []string
		for _, a := range Writes(w.FieldAccesses(items)) {
			kinds = append(kinds, a.Fn.Name()+":"+a.Kind)
		}
		s := strings.Join(kinds, " ")
		expect("A5 census finds Put store", strings.Contains(s, "Put:store"), true)
		expect("A5 census flags address escape", strings.Contains(s, "Sneak:escape"), true)
		m, _ := w.fieldByName("box", "m")
		s = ""
		for _, a := range Writes(w.FieldAccesses(m)) {
			s += a.Fn.Name() + ":" + a.Kind + " "
		}
		expect("A5 census finds map update", strings.Contains(s, "Set:mapupdate"), true)
	}
	// A6
	{
		li := w.Locksets(w.SrcFuncs())
		v, _ := w.fieldByName("guarded", "v")
		held := map[string]bool{}
		for _, a := range w.FieldAccesses(v) {
			if a.Kind == "load" {
				held[a.Fn.Name()] = len(li.Held(a.Instr)) > 0
			}
		}
		expect("A6 helper inherits the lock from its only caller", held["helper"], true)
		expect("A6 unlocked access reported", held["UnlockedBad"], false)
		expect("A6 access after early unlock reported", held["EarlyUnlockBad"], false)
	}
	// A7
	{
		data := method("src", "Data")
		isSrc := func(v ssa.Value) bool {
			ex, ok := v.(*ssa.Extract)
			if !ok || ex.Index != 0 {
				return false
			}
			c, ok := ex.Tuple.(*ssa.Call)
			return ok && c.Call.StaticCallee() == data
		}
		t := w.TaintFrom(w.SrcFuncs(), isSrc)
		fns := map[string]bool{}
		for _, m := range t.Mutations(w.SrcFuncs(), true) {
			fns[m.Fn.Name()] = true
		}
		expect("A7 delete on Data() map reported", fns["TaintBad"], true)
		expect("A7 copy then delete not reported", fns["TaintGood"], false)
		isParam := func(v ssa.Value) bool {
			p, ok := v.(*ssa.Parameter)
			return ok && p.Parent().Name() == "TaintAppendBad"
		}
		t2 := w.TaintFrom(w.SrcFuncs(), isParam)
		fns = map[string]bool{}
		for _, m := range t2.Mutations(w.SrcFuncs(), true) {
			fns[m.Fn.Name()+":"+m.Kind] = true
		}
		expect("A7 in-place append reported", fns["TaintAppendBad:append in place"], true)
	}
	// A8 (prover only; the compiler listing is exercised on the real tree)
	proveAll := func(f *ssa.Function) bool {
		ok := true
		instrsOf(f, func(in ssa.Instruction) {
			if o := oblOf(in); o != nil {
				if al, isAl := oblContainerAlloc(in); isAl && (al == "varargs" || al == "slicelit") {
					return
				}
				if !w.proveObl(f, o).ok {
					ok = false
				}
			}
		})
		return ok
	}
	for _, c := range []struct {
		name string
		want bool
	}{{"BoundsIndexGood", true}, {"BoundsIndexBad", false}, {"BoundsLoopGood", true}, {"BoundsLoopBad", false},
		{"BoundsWrapBad", false}, {"BoundsWrapGood", true}, {"BoundsDivGood", true}, {"GuardGood", true}, {"GuardBad", false}, {"GuardAndGood", true}} {
		expect("A8 prover "+c.name, proveAll(fn(c.name)), c.want)
	}
	// source normalisation, phi pinning, lock-step induction, canonical sums
	for _, c := range []struct {
		name string
		want bool
	}{{"NormCheckedIndex", true}, {"NormCheckedIndexBad", false}, {"NormLockStep", true}} {
		expect("normalisation + prover "+c.name, proveAll(fn(c.name)), c.want)
	}
	// round-4 primitives: stride lemma, edge conditions, merged errors (both directions)
	for _, c := range []struct {
		name string
		want bool
	}{{"NormStrideGood", true}, {"NormStrideBad", false}, {"NormEdgeGood", true}, {"NormEdgeBad", false}} {
		expect("round-4 prover "+c.name, proveAll(fn(c.name)), c.want)
	}
	{
		// constant selector of an inlined helper: one live arm
		var live []string
		for _, st := range storesOf(fn("NormMode")) {
			t := AddrTerm(st.Addr)
			if i := strings.LastIndex(t, "."); i >= 0 && (strings.HasSuffix(t, ".a") || strings.HasSuffix(t, ".b") || strings.HasSuffix(t, ".c")) {
				live = append(live, t[i+1:])
			}
		}
		expect("dead arms of an inlined selector are not seen", strings.Join(live, ",") == "b", true)
		// read-only table membership under a pinned key
		tf := fn("NormTable")
		count := func(k string) (int, string) {
			ps, _ := Paths(tf, PathOpts{Assume: map[ssa.Value]string{tf.Params[0]: k}})
			r := ""
			for _, p := range ps {
				if rt := p.Ret(); rt != nil {
					r += Term(rt.Results[0])
				}
			}
			return len(ps), r
		}
		n3, r3 := count("3")
		n4, r4 := count("4")
		expect("table membership decides the branch for a pinned key", n3 == 1 && r3 == "1" && n4 == 1 && r4 == "0", true)
		// what holds when a merged error is nil
		held := func(name string) bool {
			ok := false
			instrsOf(fn(name), func(in ssa.Instruction) {
				if ia, isIA := in.(*ssa.IndexAddr); isIA {
					ok = HoldsAt(ia.Block(), "p1 < len(p0)") && HoldsAt(ia.Block(), "p1 >= 0")
				}
			})
			return ok
		}
		expect("merged error: the check's verdict survives a conditional overwrite", held("NormMergedErr"), true)
		expect("merged error: an unconditional overwrite loses it", held("NormMergedErrBad"), false)
		// clone idioms
		cl := func(name string) bool {
			ok := false
			for _, rt := range returnsOf(fn(name)) {
				ok = cloneOf(rt.Results[0], "p0")
			}
			return ok
		}
		expect("clone idiom append(b[:0:0], b...)", cl("NormClone"), true)
		expect("append(b[:0], b...) is not a clone", cl("NormCloneBad"), false)
	}
	{
		inl := 0
		for _, n := range w.Inlined {
			if strings.Contains(n, "inlCheckIndex") || strings.Contains(n, "inlEnds") {
				inl++
			}
		}
		expect("normalisation inlined the new helpers", inl >= 3, true)
		ps, _ := Paths(fn("NormPredicate"), PathOpts{})
		lits := map[string]bool{}
		rets := map[string]bool{}
		for _, p := range ps {
			for _, l := range p.Lits() {
				lits[l] = true
			}
			if rt := p.Ret(); rt != nil {
				rets[Term(rt.Results[0])] = true
			}
		}
		expect("normalised predicate: paths carry the helper's comparisons", lits["p0 == 1327"] && lits["p0 <= 1299"] && lits["p0 >= 2100"] && lits["p0 < 2100"], true)
		expect("normalised predicate: four paths, results 0 and 1", len(ps) == 4 && rets["0"] && rets["1"] && len(rets) == 2, true)
		ra, rb := returnsOf(fn("NormSumA")), returnsOf(fn("NormSumB"))
		expect("canonical sums", len(ra) == 1 && len(rb) == 1 && Term(ra[0].Results[0]) == Term(rb[0].Results[0]) && Term(ra[0].Results[0]) == "(p0 + p1 + p2)", true)
	}
	// A9
	for _, c := range []struct {
		name     string
		anchored bool
		prefixOK bool
	}{{"ReAnchored", true, true}, {"ReUnanchored", false, true}, {"RePrefixBad", true, false}} {
		pat, _, err := w.regexpVarPatternIn(sp, c.name)
		if err != nil {
			expect("A9 pattern "+c.name, false, true)
			continue
		}
		sh, _ := analyseRegexp(pat)
		expect("A9 anchored "+c.name, sh != nil && sh.AnchoredStart && sh.AnchoredEnd && sh.OutsideWhitespaceOnly, c.anchored)
		okPrefix := true
		for _, alts := range literalAlternations(pat) {
			for i := range alts {
				for j := i + 1; j < len(alts); j++ {
					if len(alts[i]) < len(alts[j]) && strings.HasPrefix(alts[j], alts[i]) {
						okPrefix = false
					}
				}
			}
		}
		expect("A9 alternation order "+c.name, okPrefix, c.prefixOK)
	}
	// linear arithmetic
	{
		x, y := linAtom("x"), linAtom("y")
		fs := []Fact{geq(x, linConst(0), ""), ltI(x, y, ""), leq(y, linConst(10), "")}
		expect("FM entails x <= 9", entails(fs, linConst(9).sub(x)), true)
		expect("FM does not entail x <= 8", entails(fs, linConst(8).sub(x)), false)
	}
	// round 6/7 primitives
	{
		trips := func(f *ssa.Function) int64 {
			prod := int64(1)
			for _, l := range NaturalLoops(f) {
				k, ok := tripCount(l)
				if !ok {
					return -1
				}
				prod *= k
			}
			return prod
		}
		expect("tripCount single loop 128", trips(fn("TripFull")) == 128, true)
		expect("tripCount short loop 127", trips(fn("TripShort")) == 127, true)
		expect("tripCount nested 4 x 32", trips(fn("TripNested")) == 128, true)
		numLoopOK := func(f *ssa.Function) bool {
			for _, l := range NaturalLoops(f) {
				num, phi := inputNumberBound(f, l)
				if num == "" {
					return false
				}
				ps, _ := IterationPaths(f, l)
				for _, p := range ps {
					if p.End != "stop" {
						continue
					}
					found := false
					for _, e := range p.Events {
						if e.Kind != EvCond {
							continue
						}
						if (e.Val != nil && foundKeyedByInduction(e.Val, e.ValPol, l, phi)) || (condOf(e.Instr) != nil && foundKeyedByInduction(condOf(e.Instr), e.Pol, l, phi)) {
							found = true
						}
					}
					if !found {
						return false
					}
				}
			}
			return true
		}
		expect("input-number loop that stops at the first miss", numLoopOK(fn("NumLoopStops")), true)
		expect("input-number loop that continues on a miss", numLoopOK(fn("NumLoopGoesOn")), false)
	}
	fmt.Printf("fixtures: %d expectations, %d failed\n", n, failed)
	if failed > 0 {
		return 1
	}
	return 0
}

func selftestMain(args []string) int { return fixturesMain() }
