package main

// A7 — value origin with a field-based heap. Forward propagation of one origin tag over SSA
// def-use within a set of functions: through phis, conversions, extracts, slices, element loads
// of containers that hold a tagged value, struct fields (field-based, flow-insensitive), locals,
// static calls (argument → parameter, returned value → call result) and closures. Coarse, and
// errs toward reporting.

import (
	"go/token"
	"go/types"

	"golang.org/x/tools/go/ssa"
)

type Taint struct {
	Vals   map[ssa.Value]bool
	Fields map[*types.Var]bool
	Why    map[ssa.Value]string
	scope  map[*ssa.Function]bool
}

func refLike(t types.Type, depth int) bool {
	if depth > 4 {
		return false
	}
	switch u := t.Underlying().(type) {
	case *types.Map, *types.Slice, *types.Pointer, *types.Interface, *types.Chan, *types.Signature:
		return true
	case *types.Struct:
		for i := 0; i < u.NumFields(); i++ {
			if refLike(u.Field(i).Type(), depth+1) {
				return true
			}
		}
	case *types.Array:
		return refLike(u.Elem(), depth+1)
	case *types.Tuple:
		for i := 0; i < u.Len(); i++ {
			if refLike(u.At(i).Type(), depth+1) {
				return true
			}
		}
	}
	return false
}

// TaintFrom computes the set of values that may be (or hold) a value produced by a source.
func (w *World) TaintFrom(scope []*ssa.Function, isSource func(ssa.Value) bool) *Taint {
	t := &Taint{Vals: map[ssa.Value]bool{}, Fields: map[*types.Var]bool{}, Why: map[ssa.Value]string{}, scope: map[*ssa.Function]bool{}}
	for _, f := range scope {
		t.scope[f] = true
	}
	changed := true
	mark := func(v ssa.Value, why string) {
		if v == nil || t.Vals[v] {
			return
		}
		if !refLike(v.Type(), 0) {
			return
		}
		t.Vals[v] = true
		t.Why[v] = why
		changed = true
	}
	markField := func(f *types.Var) {
		if !t.Fields[f] {
			t.Fields[f] = true
			changed = true
		}
	}
	// returned-value taint per function and result index
	retTaint := map[*ssa.Function]map[int]bool{}
	for iter := 0; changed && iter < 50; iter++ {
		changed = false
		for _, fn := range scope {
			for _, b := range fn.Blocks {
				for _, in := range b.Instrs {
					if v, ok := in.(ssa.Value); ok && isSource(v) {
						mark(v, "source")
					}
					switch x := in.(type) {
					case *ssa.Phi:
						for _, e := range x.Edges {
							if t.Vals[e] {
								mark(x, "phi")
							}
						}
					case *ssa.ChangeType:
						if t.Vals[x.X] {
							mark(x, "conv")
						}
					case *ssa.MakeInterface:
						if t.Vals[x.X] {
							mark(x, "iface")
						}
					case *ssa.ChangeInterface:
						if t.Vals[x.X] {
							mark(x, "iface")
						}
					case *ssa.TypeAssert:
						if t.Vals[x.X] {
							mark(x, "assert")
						}
					case *ssa.Slice:
						if t.Vals[x.X] {
							mark(x, "slice")
						}
					case *ssa.Extract:
						switch tup := x.Tuple.(type) {
						case *ssa.Call:
							if isSource(x) {
								mark(x, "source")
							}
							if callee := tup.Call.StaticCallee(); callee != nil && retTaint[callee][x.Index] {
								mark(x, "returned by "+fnName(callee))
							}
						case *ssa.Lookup:
							if x.Index == 0 && t.Vals[tup.X] {
								mark(x, "element")
							}
						case *ssa.Next:
							if rg, ok := tup.Iter.(*ssa.Range); ok && t.Vals[rg.X] && x.Index > 0 {
								mark(x, "range element")
							}
						case *ssa.TypeAssert:
							if x.Index == 0 && t.Vals[tup.X] {
								mark(x, "assert")
							}
						}
					case *ssa.Lookup:
						if !x.CommaOk && t.Vals[x.X] {
							mark(x, "element")
						}
					case *ssa.Index:
						if t.Vals[x.X] {
							mark(x, "element")
						}
					case *ssa.IndexAddr:
						if t.Vals[x.X] {
							mark(x, "element address")
						}
					case *ssa.Field:
						if t.Fields[fieldOfField(x)] || t.Vals[x.X] && refLike(x.Type(), 0) && false {
							mark(x, "field "+fieldOfField(x).Name())
						}
					case *ssa.FieldAddr:
						if t.Fields[fieldOfAddr(x)] {
							// the address denotes a location holding a tagged value: loads below
						}
					case *ssa.UnOp:
						if x.Op != token.MUL {
							break
						}
						switch a := x.X.(type) {
						case *ssa.FieldAddr:
							if t.Fields[fieldOfAddr(a)] {
								mark(x, "load of field "+fieldOfAddr(a).Name())
							}
						case *ssa.IndexAddr:
							if t.Vals[a.X] || t.Vals[a] {
								mark(x, "load of element")
							}
						case *ssa.Alloc, *ssa.FreeVar, *ssa.Global:
							if t.Vals[a] {
								mark(x, "load of local")
							}
						default:
							if t.Vals[a] {
								mark(x, "load")
							}
						}
					case *ssa.Store:
						if !t.Vals[x.Val] {
							break
						}
						switch a := x.Addr.(type) {
						case *ssa.FieldAddr:
							markField(fieldOfAddr(a))
						case *ssa.IndexAddr:
							// container now holds a tagged value
							if !t.Vals[a.X] {
								t.Vals[a.X] = true
								t.Why[a.X] = "holds a tagged element"
								changed = true
							}
							if al, ok := a.X.(*ssa.Alloc); ok {
								_ = al
							}
						default:
							if !t.Vals[a] {
								t.Vals[a] = true
								t.Why[a] = "cell holding a tagged value"
								changed = true
							}
						}
					case *ssa.MapUpdate:
						if t.Vals[x.Value] && !t.Vals[x.Map] {
							t.Vals[x.Map] = true
							t.Why[x.Map] = "holds a tagged element"
							changed = true
						}
					case *ssa.MakeClosure:
						if f, ok := x.Fn.(*ssa.Function); ok {
							for i, bnd := range x.Bindings {
								if t.Vals[bnd] && i < len(f.FreeVars) {
									mark(f.FreeVars[i], "captured")
								}
							}
						}
					case *ssa.Return:
						for i, rv := range x.Results {
							if t.Vals[rv] {
								if retTaint[fn] == nil {
									retTaint[fn] = map[int]bool{}
								}
								if !retTaint[fn][i] {
									retTaint[fn][i] = true
									changed = true
								}
							}
						}
					}
					if ci, ok := in.(ssa.CallInstruction); ok {
						cc := ci.Common()
						if b, isB := cc.Value.(*ssa.Builtin); isB && b.Name() == "append" {
							if v := ci.Value(); v != nil {
								for _, a := range cc.Args {
									if t.Vals[a] {
										mark(v, "append")
									}
								}
							}
						}
						if callee := cc.StaticCallee(); callee != nil && t.scope[callee] {
							for i, a := range cc.Args {
								if t.Vals[a] && i < len(callee.Params) {
									mark(callee.Params[i], "argument of "+fnName(callee))
								}
							}
							if v := ci.Value(); v != nil && retTaint[callee][0] && callee.Signature.Results().Len() == 1 {
								mark(v, "returned by "+fnName(callee))
							}
						}
					}
				}
			}
		}
	}
	return t
}

// MutationsOf lists instructions in scope that modify a tagged container in place.
type Mutation struct {
	Fn    *ssa.Function
	Instr ssa.Instruction
	Kind  string
	On    ssa.Value
}

func (t *Taint) Mutations(scope []*ssa.Function, includeAppend bool) []Mutation {
	var out []Mutation
	for _, fn := range scope {
		instrsOf(fn, func(in ssa.Instruction) {
			switch x := in.(type) {
			case *ssa.MapUpdate:
				if t.Vals[x.Map] && t.Why[x.Map] != "holds a tagged element" {
					out = append(out, Mutation{fn, in, "map insert", x.Map})
				}
			case *ssa.Store:
				switch a := x.Addr.(type) {
				case *ssa.IndexAddr:
					if t.Vals[a.X] && t.Why[a.X] != "holds a tagged element" {
						if al, isAl := a.X.(*ssa.Alloc); isAl && (al.Comment == "varargs" || al.Comment == "slicelit") {
							return
						}
						out = append(out, Mutation{fn, in, "element store", a.X})
					}
				case *ssa.FieldAddr:
					if t.Vals[a.X] {
						out = append(out, Mutation{fn, in, "field store through tagged pointer", a.X})
					}
				}
			case *ssa.Call:
				if b, ok := x.Call.Value.(*ssa.Builtin); ok {
					switch b.Name() {
					case "delete":
						if t.Vals[x.Call.Args[0]] && t.Why[x.Call.Args[0]] != "holds a tagged element" {
							out = append(out, Mutation{fn, in, "map delete", x.Call.Args[0]})
						}
					case "append":
						if includeAppend && t.Vals[x.Call.Args[0]] && t.Why[x.Call.Args[0]] != "holds a tagged element" {
							out = append(out, Mutation{fn, in, "append (may write in place)", x.Call.Args[0]})
						}
					case "copy":
						if t.Vals[x.Call.Args[0]] && t.Why[x.Call.Args[0]] != "holds a tagged element" {
							out = append(out, Mutation{fn, in, "copy into", x.Call.Args[0]})
						}
					case "clear":
						if t.Vals[x.Call.Args[0]] {
							out = append(out, Mutation{fn, in, "clear", x.Call.Args[0]})
						}
					}
				}
			}
		})
	}
	return out
}
