package main

// A7 — value origin with a field-based heap. Forward propagation over SSA def-use within a set
// of functions of two related facts about a value v:
//
//	Is[v]    v is (or shares storage with) an object produced by a source: reached through
//	         phis, conversions, extracts, reslicing, locals, struct fields (field-based,
//	         flow-insensitive), static calls (argument → parameter, returned value → result),
//	         closures, and element loads of containers that Hold it;
//	Holds[v] v is a container (slice, map, array cell, struct field...) one of whose elements Is a
//	         tagged object.
//
// Mutations are reported only on Is-values: inserting into / deleting from / storing through /
// appending in place to the tagged object itself. Storing a tagged object *into* another
// container only makes that container Hold it. Coarse, and errs toward reporting.

import (
	"go/token"
	"go/types"

	"golang.org/x/tools/go/ssa"
)

type Taint struct {
	Is, Holds             map[ssa.Value]bool
	IsFields, HoldsFields map[*types.Var]bool
	Why                   map[ssa.Value]string
	scope                 map[*ssa.Function]bool
	cellHolds             map[ssa.Value]bool
}

func refLike(t types.Type, depth int) bool {
	if depth > 4 {
		return false
	}
	switch u := t.Underlying().(type) {
	case *types.Map, *types.Slice, *types.Pointer, *types.Interface, *types.Chan, *types.Signature:
		return true
	case *types.Struct:
		for i := 0; i < u.NumFields(); i++ {
			if refLike(u.Field(i).Type(), depth+1) {
				return true
			}
		}
	case *types.Array:
		return refLike(u.Elem(), depth+1)
	case *types.Tuple:
		for i := 0; i < u.Len(); i++ {
			if refLike(u.At(i).Type(), depth+1) {
				return true
			}
		}
	}
	return false
}

// TaintFrom computes the origin facts for the given sources.
func (w *World) TaintFrom(scope []*ssa.Function, isSource func(ssa.Value) bool) *Taint {
	t := &Taint{Is: map[ssa.Value]bool{}, Holds: map[ssa.Value]bool{}, IsFields: map[*types.Var]bool{}, HoldsFields: map[*types.Var]bool{},
		Why: map[ssa.Value]string{}, scope: map[*ssa.Function]bool{}, cellHolds: map[ssa.Value]bool{}}
	for _, f := range scope {
		t.scope[f] = true
	}
	changed := true
	is := func(v ssa.Value, why string) {
		if v == nil || t.Is[v] || !refLike(v.Type(), 0) {
			return
		}
		t.Is[v] = true
		if _, ok := t.Why[v]; !ok {
			t.Why[v] = why
		}
		changed = true
	}
	holds := func(v ssa.Value, why string) {
		if v == nil || t.Holds[v] {
			return
		}
		t.Holds[v] = true
		if _, ok := t.Why[v]; !ok {
			t.Why[v] = why
		}
		changed = true
	}
	both := func(dst, src ssa.Value, why string) { // dst aliases src
		if t.Is[src] {
			is(dst, why)
		}
		if t.Holds[src] {
			holds(dst, why)
		}
	}
	elem := func(dst, container ssa.Value, why string) { // dst is an element of container
		if t.Holds[container] {
			is(dst, why)
		}
	}
	type retKey struct {
		fn  *ssa.Function
		idx int
	}
	retIs, retHolds := map[retKey]bool{}, map[retKey]bool{}
	for iter := 0; changed && iter < 60; iter++ {
		changed = false
		for _, fn := range scope {
			for _, prm := range fn.Params {
				if isSource(prm) {
					is(prm, "source")
				}
			}
			for _, b := range fn.Blocks {
				for _, in := range b.Instrs {
					if v, ok := in.(ssa.Value); ok && isSource(v) {
						is(v, "source")
						switch v.Type().Underlying().(type) {
						case *types.Map, *types.Slice:
							holds(v, "source") // a source container: its elements belong to the tagged object too
						}
					}
					switch x := in.(type) {
					case *ssa.Phi:
						for _, e := range x.Edges {
							both(x, e, "phi")
						}
					case *ssa.ChangeType:
						both(x, x.X, "conversion")
					case *ssa.MakeInterface:
						both(x, x.X, "interface")
					case *ssa.ChangeInterface:
						both(x, x.X, "interface")
					case *ssa.TypeAssert:
						both(x, x.X, "assertion")
					case *ssa.Slice:
						both(x, x.X, "reslice")
					case *ssa.Extract:
						switch tup := x.Tuple.(type) {
						case *ssa.Call:
							if callee := tup.Call.StaticCallee(); callee != nil {
								if retIs[retKey{callee, x.Index}] {
									is(x, "returned by "+fnName(callee))
								}
								if retHolds[retKey{callee, x.Index}] {
									holds(x, "returned by "+fnName(callee))
								}
							}
						case *ssa.Lookup:
							if x.Index == 0 {
								elem(x, tup.X, "map element")
							}
						case *ssa.Next:
							if rg, ok := tup.Iter.(*ssa.Range); ok && x.Index > 0 {
								elem(x, rg.X, "range element")
							}
						case *ssa.TypeAssert:
							if x.Index == 0 {
								both(x, tup.X, "assertion")
							}
						}
					case *ssa.Lookup:
						if !x.CommaOk {
							elem(x, x.X, "map element")
						}
					case *ssa.Index:
						elem(x, x.X, "element")
					case *ssa.Field:
						f := fieldOfField(x)
						if t.IsFields[f] {
							is(x, "field "+f.Name())
						}
						if t.HoldsFields[f] {
							holds(x, "field "+f.Name())
						}
					case *ssa.UnOp:
						if x.Op != token.MUL {
							break
						}
						switch a := x.X.(type) {
						case *ssa.FieldAddr:
							f := fieldOfAddr(a)
							if t.IsFields[f] {
								is(x, "load of field "+f.Name())
							}
							if t.HoldsFields[f] {
								holds(x, "load of field "+f.Name())
							}
							// a field read through a tagged pointer is part of the tagged object
							if root := addrRoot(a); root != nil && t.Is[root] {
								is(x, "field of tagged object")
							}
						case *ssa.IndexAddr:
							elem(x, a.X, "element")
						default:
							// local cell / free variable / global cell
							if t.Holds[a] {
								is(x, "load of cell")
							}
						}
					case *ssa.Store:
						switch a := x.Addr.(type) {
						case *ssa.FieldAddr:
							f := fieldOfAddr(a)
							if t.Is[x.Val] && !t.IsFields[f] {
								t.IsFields[f] = true
								changed = true
							}
							if t.Holds[x.Val] && !t.HoldsFields[f] {
								t.HoldsFields[f] = true
								changed = true
							}
						case *ssa.IndexAddr:
							if t.Is[x.Val] {
								holds(a.X, "element stored")
							}
						default:
							// cell (Alloc, FreeVar, Global, pointer): the cell holds the value
							if t.Is[x.Val] {
								holds(a, "cell")
							}
							if t.Holds[x.Val] {
								// a cell holding a container that holds: loads give Holds — approximate by Is→Holds chain
								if !t.cellHolds[a] {
									t.cellHolds[a] = true // loads of the cell are Holds
									changed = true
								}
							}
						}
					case *ssa.MapUpdate:
						if t.Is[x.Value] {
							holds(x.Map, "element stored")
						}
					case *ssa.MakeClosure:
						if f, ok := x.Fn.(*ssa.Function); ok {
							for i, bnd := range x.Bindings {
								if i < len(f.FreeVars) {
									both(f.FreeVars[i], bnd, "captured")
								}
							}
						}
					case *ssa.Return:
						for i, rv := range x.Results {
							if t.Is[rv] && !retIs[retKey{fn, i}] {
								retIs[retKey{fn, i}] = true
								changed = true
							}
							if t.Holds[rv] && !retHolds[retKey{fn, i}] {
								retHolds[retKey{fn, i}] = true
								changed = true
							}
						}
					}
					// loads of cells that hold a Holds-container
					if u, ok := in.(*ssa.UnOp); ok && u.Op == token.MUL && t.cellHolds[u.X] {
						holds(u, "load of cell")
					}
					if ci, ok := in.(ssa.CallInstruction); ok {
						cc := ci.Common()
						if bi, isB := cc.Value.(*ssa.Builtin); isB && bi.Name() == "append" {
							if v := ci.Value(); v != nil && len(cc.Args) == 2 {
								both(v, cc.Args[0], "append (same backing array when capacity allows)")
								// appended elements
								if c, isCall := in.(*ssa.Call); isCall {
									_, elems, spread, _ := appendParts(c)
									for _, e := range elems {
										if e != nil && t.Is[e] {
											holds(v, "element appended")
										}
									}
									if spread != nil && t.Holds[spread] {
										holds(v, "elements appended")
									}
								}
							}
						}
						if callee := cc.StaticCallee(); callee != nil && t.scope[callee] {
							for i, a := range cc.Args {
								if i < len(callee.Params) {
									both(callee.Params[i], a, "argument of "+fnName(callee))
								}
							}
							if v := ci.Value(); v != nil && callee.Signature.Results().Len() == 1 {
								if retIs[retKey{callee, 0}] {
									is(v, "returned by "+fnName(callee))
								}
								if retHolds[retKey{callee, 0}] {
									holds(v, "returned by "+fnName(callee))
								}
							}
						}
					}
				}
			}
		}
	}
	return t
}

// addrRoot follows FieldAddr/IndexAddr chains to the base pointer.
func addrRoot(v ssa.Value) ssa.Value {
	for i := 0; i < 16; i++ {
		switch a := v.(type) {
		case *ssa.FieldAddr:
			v = a.X
		case *ssa.IndexAddr:
			v = a.X
		default:
			return v
		}
	}
	return v
}

type Mutation struct {
	Fn    *ssa.Function
	Instr ssa.Instruction
	Kind  string
	On    ssa.Value
}

// Mutations lists instructions in scope that modify a tagged object in place.
func (t *Taint) Mutations(scope []*ssa.Function, includeAppend bool) []Mutation {
	var out []Mutation
	for _, fn := range scope {
		instrsOf(fn, func(in ssa.Instruction) {
			switch x := in.(type) {
			case *ssa.MapUpdate:
				if t.Is[x.Map] {
					out = append(out, Mutation{fn, in, "map insert", x.Map})
				}
			case *ssa.Store:
				switch a := x.Addr.(type) {
				case *ssa.IndexAddr:
					if t.Is[a.X] {
						out = append(out, Mutation{fn, in, "element store", a.X})
					}
				case *ssa.FieldAddr:
					if t.Is[a.X] {
						out = append(out, Mutation{fn, in, "field store through tagged pointer", a.X})
					}
				}
			case *ssa.Call:
				if b, ok := x.Call.Value.(*ssa.Builtin); ok {
					switch b.Name() {
					case "delete":
						if t.Is[x.Call.Args[0]] {
							out = append(out, Mutation{fn, in, "map delete", x.Call.Args[0]})
						}
					case "append":
						if includeAppend && t.Is[x.Call.Args[0]] {
							out = append(out, Mutation{fn, in, "append in place", x.Call.Args[0]})
						}
					case "copy":
						if t.Is[x.Call.Args[0]] {
							out = append(out, Mutation{fn, in, "copy into", x.Call.Args[0]})
						}
					case "clear":
						if t.Is[x.Call.Args[0]] {
							out = append(out, Mutation{fn, in, "clear", x.Call.Args[0]})
						}
					}
				}
			}
		})
	}
	return out
}
